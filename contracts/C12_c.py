"""C12 tier C -- bounded run-time oracles: value-returning operations neither modify nor alias their inputs.

The public callables are DISCOVERED by introspection of the packages rsatoolbox.rdm, .data, .model, .inference and
.util (every public module-level function and every public method / listed dunder method of every public class defined
there), so a function added later is swept with the default recipe.  Arguments come from a typed pool (`Pool`: RDMs,
Dataset, TemporalDataset, the four model classes, Result, float / int arrays, descriptor dictionaries, descriptor
names); which pool entry a parameter gets is decided by `SPECS[qualname]` where the signature alone is not enough and
by the parameter NAME otherwise (`auto_arg`).

fingerprint (`fp`) = for every ndarray: dtype, shape and bytes; for every descriptor dictionary: container type and
values of every entry except the library-managed 'index' entry; recursively through lists, tuples, dicts and the
attributes of rsatoolbox objects.  It is computed by this file only (numpy + stdlib), never by repo code.

oracles
* C12/frame       clause 1 ("leaves the data arrays and all user-supplied descriptors of each of its arguments
                  unchanged bit for bit"): fingerprint of EVERY argument (incl. self) before vs after the call.  For the
                  documented in-place operations (reorder, sort_by, append, Dataset/TemporalDataset.sort_by,
                  append_descriptor) only the receiver is allowed to change, every other argument is still checked.
* C12/fresh       clause 2 ("the objects it returns are independent of their sources"): for every producer and each
                  documented in-place mutator m in {reorder, sort_by, append, dataset-sort_by} plus array-write (write
                  into the data array: dissimilarities / measurements / model vectors / bare ndarray) and
                  descriptor-array-write (write into an ndarray-valued descriptor):
                    result --m--> fingerprint of the sources (arguments) unchanged,   label  child-<m>-...-parent
                    source --m--> fingerprint of the result unchanged,               label  parent-<m>-...-child
                  each on a fresh call (same seed) so that effects are attributed to one mutator.
* C12/mean-weights  targeted: RDMs.mean(weights = array | descriptor name | None) on partial (NaN) RDMs leaves the
                  weights array, the stored descriptor and the RDMs unchanged; all weight dtypes/orders.
* C12/shared-lists  targeted: for every RDMs-returning producer the list OBJECTS that hold descriptor values of the
                  result are not the list objects of the source when the enclosing dictionaries are distinct
                  (otherwise an in-place list growth in append would couple them); checked through the public
                  behaviour only: source/ result append and the other's lengths + labelled rows.
* C12/coverage    every discovered callable is either called successfully with pool arguments in at least one
                  variant or is on the explicit NOT_CALLABLE list (with the reason); a NEW callable the pool cannot
                  call is reported as a note (not a violation) and counted in the domain string.

input_class labels: '<fn>:modifies-<arg>.<component>' for clause 1 and
'<fn>:child-<mutator>-relabels|rewrites-parent' / '<fn>:parent-<mutator>-relabels|rewrites-child' for clause 2
('relabels' = only descriptor values of the untouched object changed, 'rewrites' = a data array changed), one label
per (function, aliasing/mutation kind) so that each genuine defect of the unchanged tree can be listed individually.

NOT covered by this tier: callables outside the five packages (io, vis, simulation, cengine); argument shapes /
descriptor types outside the pool (e.g. >3 RDMs x 5 conditions, nested descriptor values); histories longer than
producer + ONE in-place operation; effects on the file system of save(); the 'index' entries (excluded by the
property's fingerprint); thread interleavings.  The all-inputs frame / freshness analysis is engine A (vf/frame).
"""
import contextlib
import copy
import importlib
import inspect
import io
import json
import os
import pkgutil
import shutil
import tempfile
import warnings

import numpy as np

from vf.rt.harness import oracle, Bounded, replay_file

PACKAGES = ('rdm', 'data', 'model', 'inference', 'util')
DUNDERS = ('__init__', '__getitem__', '__eq__', '__len__', '__call__', '__str__', '__repr__')

# documented in-place operations: qualname -> name of the parameter that may change
MUTATORS = {
    'rdm.rdms.RDMs.reorder': 'self',
    'rdm.rdms.RDMs.sort_by': 'self',
    'rdm.rdms.RDMs.append': 'self',
    'data.dataset.Dataset.sort_by': 'self',
    'data.dataset.TemporalDataset.sort_by': 'self',
    'util.descriptor_utils.append_descriptor': 'descriptor',   # the descriptor part of RDMs.append, in place by its doc
}
# accessors whose contract is "the internal array" (DESIGN C12: `get_vectors` is a view by its contract): clause 2 n/a
VIEW_BY_CONTRACT = {'rdm.rdms.RDMs.get_vectors'}


# =====================================================================================================
# discovery
# =====================================================================================================
class Rec:
    def __init__(self, qual, func, cls=None, kind='function'):
        self.qual, self.func, self.cls, self.kind = qual, func, cls, kind
        self.name = qual.split('.')[-1]
        self.module = '.'.join(qual.split('.')[:2])
        self.short = None


def discover():
    os.environ.setdefault('MPLBACKEND', 'Agg')
    recs = {}
    for pk in PACKAGES:
        pkg = importlib.import_module('rsatoolbox.' + pk)
        for mi in sorted(pkgutil.iter_modules(pkg.__path__), key=lambda m: m.name):
            if mi.name.startswith('_'):
                continue
            mod = importlib.import_module(f'rsatoolbox.{pk}.{mi.name}')
            for name, obj in sorted(vars(mod).items()):
                if name.startswith('_') or getattr(obj, '__module__', None) != mod.__name__:
                    continue
                if inspect.isfunction(obj):
                    recs[f'{pk}.{mi.name}.{name}'] = Rec(f'{pk}.{mi.name}.{name}', obj)
                elif inspect.isclass(obj):
                    for mn, mo in sorted(vars(obj).items()):
                        if mn.startswith('_') and mn not in DUNDERS:
                            continue
                        kind = 'method'
                        f = mo
                        if isinstance(mo, (staticmethod, classmethod)):
                            f, kind = mo.__func__, 'static'
                        if not inspect.isfunction(f):
                            continue
                        if mn == '__init__':
                            kind = 'init'
                        q = f'{pk}.{mi.name}.{name}.{mn}'
                        recs[q] = Rec(q, f, obj, kind)
    # short, stable labels: 'RDMs.subset' / 'sqrt_transform'; module-prefixed on collision
    seen = {}
    for r in recs.values():
        s = (r.cls.__name__ + '.' + r.name) if r.cls else r.name
        seen.setdefault(s, []).append(r)
    for s, rs in seen.items():
        for r in rs:
            r.short = s if len(rs) == 1 else r.qual.split('.')[1] + '.' + s
    return recs


_RECS = None


def recs():
    global _RECS
    if _RECS is None:
        _RECS = discover()
    return _RECS


# =====================================================================================================
# fingerprint
# =====================================================================================================
def _is_rsa(o):
    return type(o).__module__.startswith('rsatoolbox')


def fp(o, out=None, path='', desc=False, seen=None, depth=0):
    """flat dict  component-path -> hashable value; `desc` = we are inside a *descriptors dictionary"""
    if out is None:
        out, seen = {}, set()
    if depth > 8:
        return out
    if isinstance(o, np.ndarray):
        if o.dtype == object:
            out[path] = ('objarr', o.shape, repr(o.tolist()))
        else:
            out[path] = ('ndarray', str(o.dtype), o.shape, o.tobytes())
    elif isinstance(o, (str, bytes, int, float, complex, bool, type(None), np.generic)):
        out[path] = (type(o).__name__, repr(o))
    elif isinstance(o, dict):
        if id(o) in seen:
            return out
        seen.add(id(o))
        out[path + '{keys}'] = tuple(repr(k) for k in o.keys() if not (desc and k == 'index'))
        for k, v in o.items():
            if desc and k == 'index':
                continue
            fp(v, out, f'{path}[{k!r}]', str(k).endswith('descriptors'), seen, depth + 1)
    elif isinstance(o, (list, tuple, set, frozenset)):
        if id(o) in seen:
            return out
        seen.add(id(o))
        items = sorted(o, key=repr) if isinstance(o, (set, frozenset)) else o
        if all(isinstance(x, (str, int, float, bool, type(None), np.generic)) for x in items):
            out[path] = (type(o).__name__, repr(list(items)))
        else:
            out[path + '{len}'] = (type(o).__name__, len(items))
            for i, v in enumerate(items):
                fp(v, out, f'{path}[{i}]', False, seen, depth + 1)
    elif callable(o) and not _is_rsa(o):
        out[path] = ('callable', getattr(o, '__name__', type(o).__name__))
    elif inspect.isfunction(o) or inspect.ismethod(o) or inspect.isclass(o):
        out[path] = ('callable', getattr(o, '__name__', '?'))
    elif type(o).__module__.startswith('pandas'):
        try:
            out[path] = ('pandas', repr(list(getattr(o, 'columns', []))), repr(o.to_numpy().tolist()))
        except Exception:
            out[path] = ('pandas', repr(o))
    elif type(o).__module__.startswith('scipy.sparse'):
        a = o.toarray()
        out[path] = ('sparse', type(o).__name__, a.shape, a.tobytes())
    elif hasattr(o, '__dict__'):
        if id(o) in seen:
            return out
        seen.add(id(o))
        out[path + '{type}'] = type(o).__name__
        for k, v in vars(o).items():
            fp(v, out, f'{path}.{k}', k.endswith('descriptors'), seen, depth + 1)
    else:
        out[path] = (type(o).__name__, repr(o))
    return out


def _norm(path):
    """component label: indices of sequences replaced by [*], quotes removed"""
    import re
    p = re.sub(r'\[\d+\]', '[*]', path)
    p = re.sub(r"\['([^']*)'\]", r'[\1]', p)
    p = p.replace('{keys}', '{keys}').replace('{len}', '{len}')
    return p


def _show(v):
    if v is None:
        return 'absent'
    if v[0] == 'ndarray':
        a = np.frombuffer(v[3], dtype=v[1]).reshape(v[2])
        return f'{v[1]}{list(v[2])} {np.array2string(a.ravel()[:8], precision=4)}'
    if v[0] == 'sparse':
        return f'sparse{list(v[2])}'
    return str(v)[:120]


def fp_diff(a, b):
    """list of (normalised component, description) where fingerprints a (before) and b (after) differ"""
    res, done = [], set()
    for k in list(a.keys()) + [k for k in b.keys() if k not in a]:
        if a.get(k) != b.get(k):
            n = _norm(k)
            if n in done:
                continue
            done.add(n)
            res.append((n, f'{k}: {_show(a.get(k))} -> {_show(b.get(k))}'))
    return res


_DATA_MARKS = ('dissimilarities', 'measurements', '.rdm', 'evaluations', 'noise_ceiling', 'variances')


def _is_data_component(comp):
    """a data array (vs a descriptor value) changed?"""
    if 'descriptors' in comp:
        return False
    return True


# =====================================================================================================
# typed pool
# =====================================================================================================
FLAVOURS = ('list', 'array', 'neg', 'nan', 'plain')
CONDS = ['c3', 'c0', 'c4', 'c1', 'c2', 'c6', 'c5']
SUBJ = ['s2', 's0', 's3', 's1', 's4']


class Skip(Exception):
    """the pool has no argument for this parameter / this variant does not exist"""


class Pool:
    def __init__(self, seed, flavour, tmp=None):
        self.rs = np.random.RandomState(seed)
        self.flavour = flavour
        self.tmp = tmp
        self.n_cond = 5
        self.n_rdm = 4

    # ---- descriptors --------------------------------------------------------------------------------
    def dvals(self, vals):
        if self.flavour == 'array':
            return np.array(vals)
        return list(vals)

    # ---- RDMs ---------------------------------------------------------------------------------------
    def rdm_array(self, n_rdm=None, n_cond=None):
        n_rdm = n_rdm or self.n_rdm
        n_cond = n_cond or self.n_cond
        n_pair = n_cond * (n_cond - 1) // 2
        v = 0.5 + self.rs.rand(n_rdm, n_pair) * 2
        if self.flavour == 'neg':
            v[:, ::3] -= 1.7
        if self.flavour == 'nan':
            v[:, [1, n_pair - 2]] = np.nan
        return v

    def rdms(self, n_rdm=None, n_cond=None, conds=None, measure='euclidean', extra_rdm_desc=None):
        from rsatoolbox.rdm import RDMs
        n_rdm = n_rdm or self.n_rdm
        n_cond = n_cond or self.n_cond
        v = self.rdm_array(n_rdm, n_cond)
        if self.flavour == 'plain':
            return RDMs(v, dissimilarity_measure=measure)
        conds = conds or CONDS[:n_cond]
        rd = {'subj': self.dvals(SUBJ[:n_rdm]), 'sess': self.dvals([(i // 2) for i in range(n_rdm)])}
        if extra_rdm_desc:
            rd.update(extra_rdm_desc)
        return RDMs(v, dissimilarity_measure=measure, descriptors={'roi': 'V1', 'note': [1, 2]},
                    rdm_descriptors=rd,
                    pattern_descriptors={'conds': self.dvals(conds), 'grp': self.dvals([i % 3 for i in range(n_cond)])})

    # ---- datasets -----------------------------------------------------------------------------------
    def ds_parts(self, n_rep=2, n_cond=4, n_ch=5):
        labels = (['c1', 'c0', 'c3', 'c2', 'c5', 'c4'][:n_cond]) * n_rep
        runs = [r for r in range(n_rep) for _ in range(n_cond)]
        X = self.rs.randn(n_cond * n_rep, n_ch) + 2 * self.rs.randn(n_cond, n_ch)[[i % n_cond for i in range(n_cond * n_rep)]]
        if self.flavour == 'neg':
            X = X - 1.0
        if self.flavour == 'plain':
            return X, None, None, None
        obs = {'conds': self.dvals(labels), 'runs': self.dvals(runs)}
        ch = {'rois': self.dvals((['r1', 'r0', 'r1', 'r0', 'r2', 'r2', 'r0'])[:n_ch]),
              'vox': self.dvals([f'v{i}' for i in range(n_ch)])}
        return X, {'subj': 's01', 'note': [1, 2]}, obs, ch

    def dataset(self, n_rep=2, n_cond=4, n_ch=5, positive=False):
        from rsatoolbox.data import Dataset
        X, d, obs, ch = self.ds_parts(n_rep, n_cond, n_ch)
        if positive:
            X = np.abs(X) + 0.1
        return Dataset(X, descriptors=d, obs_descriptors=obs, channel_descriptors=ch)

    def dataset_base(self):
        from rsatoolbox.data.base import DatasetBase
        X, d, obs, ch = self.ds_parts()
        return DatasetBase(X, descriptors=d, obs_descriptors=obs, channel_descriptors=ch)

    def td_parts(self, n_obs=6, n_ch=3, n_time=4):
        X = self.rs.randn(n_obs, n_ch, n_time)
        if self.flavour == 'plain':
            return X, None, None, None, None
        obs = {'conds': self.dvals((['c1', 'c0', 'c2'] * n_obs)[:n_obs]), 'runs': self.dvals([i // 3 for i in range(n_obs)])}
        ch = {'rois': self.dvals((['r1', 'r0', 'r1', 'r0'])[:n_ch]), 'vox': self.dvals([f'v{i}' for i in range(n_ch)])}
        tm = {'time': np.arange(n_time) * 1.0, 'half': self.dvals([i * 2 // n_time for i in range(n_time)])}
        return X, {'subj': 's01'}, obs, ch, tm

    def tdataset(self, n_obs=6, n_ch=3, n_time=4):
        from rsatoolbox.data import TemporalDataset
        X, d, obs, ch, tm = self.td_parts(n_obs, n_ch, n_time)
        return TemporalDataset(X, descriptors=d, obs_descriptors=obs, channel_descriptors=ch, time_descriptors=tm)

    # ---- models -------------------------------------------------------------------------------------
    def model(self, kind='fixed', name='m0', from_array=False):
        import rsatoolbox.model as M
        cls = dict(fixed=M.ModelFixed, select=M.ModelSelect, weighted=M.ModelWeighted, interpolate=M.ModelInterpolate)[kind]
        keep, self.flavour = self.flavour, ('list' if self.flavour in ('nan',) else self.flavour)
        try:
            if from_array:
                a = self.rdm_array(1 if kind == 'fixed' else 3)
                return cls(name, a[0] if kind == 'fixed' else a)
            return cls(name, self.rdms(n_rdm=1 if kind == 'fixed' else 3))
        finally:
            self.flavour = keep

    def models(self, kinds=('fixed', 'weighted')):
        return [self.model(k, f'm{i}') for i, k in enumerate(kinds)]

    def result(self, with_var=True):
        from rsatoolbox.inference import Result
        models = self.models(('fixed', 'fixed'))
        ev = self.rs.rand(4, 2, 3)
        nc = self.rs.rand(2, 4) + 1
        var = np.abs(self.rs.rand(4, 4)) if with_var else None
        if var is not None:
            var = var @ var.T
        return Result(models, ev, 'cosine', 'bootstrap', nc, variances=var, dof=3, n_rdm=4, n_pattern=5)

    # ---- files --------------------------------------------------------------------------------------
    def path(self, name):
        if self.tmp is None:
            raise Skip('no temp dir')
        return os.path.join(self.tmp, name)


# =====================================================================================================
# argument recipes
# =====================================================================================================
def _self_for(rec, P, variant):
    n = rec.cls.__name__
    if n == 'RDMs':
        return P.rdms()
    if n == 'DatasetBase':
        return P.dataset_base()
    if n == 'Dataset':
        return P.dataset()
    if n == 'TemporalDataset':
        return P.tdataset()
    if n == 'Model':
        import rsatoolbox.model as M
        return M.Model('m')
    if n in ('ModelFixed', 'ModelSelect', 'ModelWeighted', 'ModelInterpolate'):
        return P.model(n[5:].lower(), from_array=bool(variant % 2))
    if n == 'ModelFamily':
        from rsatoolbox.model.model_family import ModelFamily
        return ModelFamily(P.models(('fixed', 'fixed')))
    if n == 'Fitter':
        from rsatoolbox.model.fitter import Fitter, fit_mock
        return Fitter(fit_mock)
    if n == 'Result':
        return P.result(with_var=(variant % 2 == 0))
    if n == 'Weighted_MDS':
        from rsatoolbox.util.vis_utils import Weighted_MDS
        return Weighted_MDS(n_init=1, max_iter=5, random_state=0)
    # default recipe for a NEW class: no-argument constructor
    try:
        return rec.cls()
    except Exception as e:
        raise Skip(f'cannot build an instance of {n}: {e}')


def _desc_dict(P, n, kind='pattern'):
    if kind == 'pattern':
        return {'conds': P.dvals(CONDS[:n]), 'grp': P.dvals([i % 3 for i in range(n)])}
    return {'subj': P.dvals(SUBJ[:n]), 'sess': P.dvals([i // 2 for i in range(n)])}


def _model_kind_for(rec):
    n = rec.name
    return {'fit_select': 'select', 'fit_optimize': 'weighted', 'fit_optimize_positive': 'weighted',
            'fit_interpolate': 'interpolate', 'fit_regress': 'weighted', 'fit_regress_nn': 'weighted',
            'fit_mock': 'fixed'}.get(n, 'fixed')


def auto_arg(rec, pname, param, P, variant, args):
    """default recipe by parameter NAME (used for every parameter without an entry in SPECS)"""
    mod, cname = rec.module, (rec.cls.__name__ if rec.cls else '')
    has_default = param.default is not inspect.Parameter.empty
    # --- objects
    if pname in ('rdms', 'rdm1', 'rdm2', 'sl_RDM') or (pname == 'rdm' and cname == 'RDMs') or \
            (pname == 'data' and mod.split('.')[0] in ('inference', 'model', 'util')):
        if pname == 'rdm2':
            return P.rdms(n_rdm=2)
        return P.rdms()
    if pname == 'rdm' and cname.startswith('Model'):
        k = cname[5:].lower()
        if variant % 3 == 0:
            return P.rdms(n_rdm=1 if k == 'fixed' else 3)
        if variant % 3 == 1:
            a = P.rdm_array(1 if k == 'fixed' else 3)
            return a[0] if k == 'fixed' else a
        a = P.rdm_array(1 if k == 'fixed' else 3)
        from scipy.spatial.distance import squareform
        m = np.array([squareform(x) for x in a])
        return m[0] if k == 'fixed' else m
    if pname in ('dataset', 'data_i', 'data_j'):
        return P.dataset()
    if pname == 'other':
        return _self_for(rec, P, variant)
    if pname == 'model':
        return P.model(_model_kind_for(rec))
    if pname == 'models':
        if variant % 2 == 0:
            return P.models(('fixed', 'fixed'))
        return P.model('fixed')
    if pname in ('dataset_list', 'sets'):
        a, b = P.dataset(), P.dataset()
        return [a, b]
    if pname == 'list_of_rdms':
        return [P.rdms(n_rdm=2, n_cond=4, conds=['a', 'b', 'c', 'd']), P.rdms(n_rdm=1, n_cond=3, conds=['d', 'e', 'a'])]
    # --- descriptor names / values
    if pname in ('pattern_descriptor',):
        if has_default and variant % 2 == 1:
            return param.default
        return 'index' if P.flavour == 'plain' else 'conds'
    if pname in ('rdm_descriptor',):
        if has_default and variant % 2 == 1:
            return param.default
        return 'index' if P.flavour == 'plain' else 'subj'
    if pname in ('descriptor', 'obs_desc', 'by', 'l2_obs_desc') and mod.startswith(('rdm.calc', 'data.noise', 'data.computations')):
        return 'conds'
    if pname == 'cv_descriptor':
        return 'runs'
    if pname == 'time_descriptor':
        return 'time'
    if pname in ('obs_desc', 'l1_obs_desc'):
        return 'runs'
    if pname == 'l2_obs_desc':
        return 'conds'
    if pname in ('descriptor', 'descriptors', 'a', 'b', 'dictionary', 'd_dict') and mod.startswith(('util.descriptor_utils', 'util.data_utils')):
        if pname == 'descriptor' and rec.name in ('bool_index', 'num_index'):
            return P.dvals(CONDS[:5])
        d = _desc_dict(P, 5)
        d['index'] = list(range(5))
        return d
    if pname == 'desc_new':
        d = _desc_dict(P, 2)
        d['index'] = [0, 1]
        return d
    if pname == 'value':
        return ['c0', 'c3']
    if pname in ('indices',):
        return [0, 2] if variant % 2 == 0 else np.array([3, 1])
    if pname == 'n_element':
        return 5
    if pname == 'name':
        return 'mname'
    # --- arrays
    if pname in ('array', 'index_vector', 'category_vector'):
        return np.array([0, 1, 0, 2, 1]) if variant % 2 == 0 else [0, 1, 0, 2, 1]
    if pname in ('x',):
        if variant % 3 == 0:
            return P.rdm_array(3)
        from scipy.spatial.distance import squareform
        a = P.rdm_array(3)
        return np.array([squareform(r) for r in a]) if variant % 3 == 1 else a[0]
    if pname in ('a', 'residuals', 'measurements', 'data_2d', 'X', 'dissimilarities') and not cname.startswith('Temporal'):
        if pname == 'dissimilarities' and mod == 'util.vis_utils':
            from scipy.spatial.distance import squareform
            return squareform(P.rdm_array(1)[0])
        if pname == 'dissimilarities':
            return P.rdm_array()
        if pname == 'X':
            from scipy.spatial.distance import squareform
            return squareform(P.rdm_array(1)[0])
        if pname == 'residuals' and variant % 2 == 1:
            return [P.rs.randn(10, 4), P.rs.randn(8, 4)]
        return P.rs.randn(10, 4) if pname != 'a' else (P.rs.randn(6, 3).astype(np.float32) if variant % 2 else P.rs.randn(6, 3))
    if pname == 'evaluations':
        return P.rs.rand(6, 3) if mod == 'util.inference_util' else P.rs.rand(4, 2, 3)
    if pname == 'variances':
        if rec.name in ('t_tests',):
            v = P.rs.rand(3, 3)
            return v @ v.T
        return P.rs.rand(3) + 0.1
    if pname in ('model_var',):
        return P.rs.rand(3) + 0.1
    if pname == 'diff_var':
        return P.rs.rand(3) + 0.1
    if pname == 'noise_ceil_var':
        return P.rs.rand(3, 2) + 0.1
    if pname in ('noise_ceil', 'noise_ceiling'):
        return (P.rs.rand(2, 6) + 1) if variant % 2 == 0 else (P.rs.rand(2) + 1)
    if pname == 'variance':
        v = P.rs.rand(4, 4)
        return v @ v.T
    if pname == 'weight':
        return None
    if pname in ('N',):
        return 3
    if pname in ('n_cond', 'size', 'n_pattern', 'n_rdm') and not has_default:
        return 5
    if pname in ('dof',) and not has_default:
        return 3
    if pname == 'filename':
        return P.path(f'{rec.short}.{"pkl" if variant % 2 else "hdf5"}')
    if pname == 'file_type' and 'filename' in args:
        return 'pkl' if str(args['filename']).endswith('pkl') else 'hdf5'
    if pname == 'fun':
        return np.square
    if pname == 'verbose':
        return False
    if has_default:
        return param.default
    raise Skip(f'no pool entry for parameter {pname!r}')


def build_call(rec, P, variant):
    """-> (callable taking no argument, ordered dict name -> argument object).  Raises Skip."""
    spec = SPECS.get(rec.qual)
    given = spec(P, variant, rec) if spec else {}
    if given is None:
        raise Skip('no such variant')
    sig = inspect.signature(rec.func)
    args, star, kw = {}, None, None
    for pname, param in sig.parameters.items():
        if pname == 'self':
            if rec.kind != 'init':
                args['self'] = given['self'] if 'self' in given else _self_for(rec, P, variant)
            continue
        if param.kind == inspect.Parameter.VAR_POSITIONAL:
            star = pname
            args[pname] = given.get(pname, ())
            continue
        if param.kind == inspect.Parameter.VAR_KEYWORD:
            kw = pname
            args[pname] = given.get(pname, {})
            continue
        args[pname] = given[pname] if pname in given else auto_arg(rec, pname, param, P, variant, args)
    pos = [p for p, q in sig.parameters.items() if q.kind in (q.POSITIONAL_ONLY, q.POSITIONAL_OR_KEYWORD) and p != 'self']
    kwo = [p for p, q in sig.parameters.items() if q.kind == q.KEYWORD_ONLY]

    def call():
        a = [args[p] for p in pos] + list(args[star] if star else ())
        k = {p: args[p] for p in kwo}
        k.update(args[kw] if kw else {})
        if rec.kind == 'init':
            return rec.cls(*a, **k)
        if rec.kind == 'method':
            return rec.func(args['self'], *a, **k)
        return rec.func(*a, **k)
    return call, args


SPECS = {}


def spec(*quals):
    def deco(f):
        for q in quals:
            SPECS[q] = f
        return f
    return deco
