"""C12 tier C -- bounded run-time oracles: value-returning operations neither modify nor alias their inputs.

The public callables are DISCOVERED by introspection of the packages rsatoolbox.rdm, .data, .model, .inference and
.util (every public module-level function and every public method / listed dunder method of every public class defined
there), so a function added later is swept with the default recipe.  Arguments come from a typed pool (`Pool`: RDMs,
Dataset, TemporalDataset, the four model classes, Result, float / int arrays, descriptor dictionaries, descriptor
names); which pool entry a parameter gets is decided by `SPECS[qualname]` where the signature alone is not enough and
by the parameter NAME otherwise (`auto_arg`).

fingerprint (`fp`) = for every ndarray: dtype, shape and bytes; for every descriptor dictionary: container type and
values of every entry except the library-managed 'index' entry; recursively through lists, tuples, dicts and the
attributes of rsatoolbox objects.  It is computed by this file only (numpy + stdlib), never by repo code.

oracles
* C12/frame       clause 1 ("leaves the data arrays and all user-supplied descriptors of each of its arguments
                  unchanged bit for bit"): fingerprint of EVERY argument (incl. self) before vs after the call.  For the
                  documented in-place operations (reorder, sort_by, append, Dataset/TemporalDataset.sort_by,
                  append_descriptor) only the receiver is allowed to change, every other argument is still checked.
* C12/fresh       clause 2 ("the objects it returns are independent of their sources"): for every producer and each
                  documented in-place mutator m in {reorder, sort_by, append, dataset-sort_by} plus array-write (write
                  into every ndarray of the object: dissimilarities / measurements / model vectors / bare ndarray /
                  ndarray-valued descriptors):
                    result --m--> fingerprint of the sources (arguments) unchanged,   label  child-<m>-...-parent
                    source --m--> fingerprint of the result unchanged,               label  parent-<m>-...-child
                  each on a fresh call (same seed) so that effects are attributed to one mutator.
* C12/mean-weights  targeted, exhaustive on its small domain: RDMs.mean(weights = None | array | name of an rdm_descriptor) on
                  partial (NaN) RDMs leaves the weights array (float64 C / Fortran / view, float32, int), the stored weights
                  descriptor, the dissimilarities and the descriptors of the source unchanged (clause 1 for the one public
                  operation that takes a second data-sized array).
* C12/callable    non-vacuity of the sweep: each of the callables known when the tier was written can still be called with some
                  pool variant (else clauses 1 and 2 would silently go unchecked for it).  A callable that is NEW and that
                  the default recipe cannot call is recorded as a note and in the domain string, not as a violation.

* dimension sweep (C12/frame-dims, C12/fresh-dims, obligations as C12/frame and C12/fresh; classes 'dim-weights-*' of
                  C12/mean-weights): the same two clauses on inputs that vary ONE further dimension each -- DIM_FLAVOURS:
                  typed data (int16 / uint8 / int64 / float32 RDM vectors, measurements, model vectors), extreme units (x 1e-20,
                  x 1e+9), containers (tuple-valued descriptors and tuple index arguments, vector-valued 2-D descriptors, int
                  labels, reversed key order of the descriptor dictionaries), repeated / interleaved / unbalanced groups, sizes
                  (one RDM / channel / time point; 7 RDMs, 8 x 11 for inference, 13 x 7 datasets), call sequences (an earlier
                  call on the same / on other arguments of the same shapes precedes the call: clauses 1 and 2 hold for the LATER
                  call as well -- the property is quantified over histories -- and what the caller holds from the earlier call,
                  its result and its arguments, is not changed by the later call: labels '<fn>:later-call-changes-earlier-*'),
                  existing output file of save(), and the whole sweep in a NEW interpreter under another PYTHONHASHSEED.
                  Input classes '<label>@<family>': never a key of the base sweep.  Classes that fail on the unchanged tree are
                  listed in PENDING_NEW / PENDING_REOBSERVED (pending triage by the main session) and are not registered.

input_class labels: '<fn>:modifies-<arg>.<component>' for clause 1 and
'<fn>:child-<mutator>-relabels|rewrites-parent.<argument>' (in-place operation on the RESULT changed <argument>) /
'<fn>:parent-<mutator>-relabels|rewrites-child' (in-place operation on the ARGUMENTS changed the result) for clause 2
('relabels' = only descriptor values of the untouched object changed, 'rewrites' = a data array changed), one label
per (function, aliasing/mutation kind) so that each genuine defect of the unchanged tree can be listed individually
(the keys are matched with fnmatch, so a family can be listed with a pattern, e.g. 'eval_*:*-parent.models').
Cases whose generated arguments the callable rejects (it raises) are not evaluations of the property and are skipped.

NOT covered by this tier: callables outside the five packages (io, vis, simulation, cengine); argument shapes /
descriptor types outside the pool (more than 8 RDMs x 11 conditions, nested descriptor values); histories longer than
(earlier call +) producer + ONE in-place operation; effects on the file system of save(); the 'index' entries (excluded by
the property's fingerprint); thread interleavings; the quick tier samples the dimension sweep (one flavour per family and
callable), only thorough runs every flavour x variant.  The all-inputs frame / freshness analysis is engine A (vf/frame).
"""
import contextlib
import copy
import importlib
import inspect
import io
import json
import os
import pkgutil
import shutil
import tempfile
import warnings

import numpy as np

from vf.rt.harness import oracle, Bounded, replay_file

PACKAGES = ('rdm', 'data', 'model', 'inference', 'util')
DUNDERS = ('__init__', '__getitem__', '__eq__', '__len__', '__call__', '__str__', '__repr__')

# documented in-place operations: qualname -> name of the parameter that may change
MUTATORS = {
    'rdm.rdms.RDMs.reorder': 'self',
    'rdm.rdms.RDMs.sort_by': 'self',
    'rdm.rdms.RDMs.append': 'self',
    'data.dataset.Dataset.sort_by': 'self',
    'data.dataset.TemporalDataset.sort_by': 'self',
    'util.descriptor_utils.append_descriptor': 'descriptor',   # the descriptor part of RDMs.append, in place by its doc
}
# accessors whose contract is "the internal array" (DESIGN C12: `get_vectors` is a view by its contract): clause 2 n/a
VIEW_BY_CONTRACT = {'rdm.rdms.RDMs.get_vectors'}


# =====================================================================================================
# discovery
# =====================================================================================================
class Rec:
    def __init__(self, qual, func, cls=None, kind='function'):
        self.qual, self.func, self.cls, self.kind = qual, func, cls, kind
        self.name = qual.split('.')[-1]
        self.module = '.'.join(qual.split('.')[:2])
        self.short = None


def discover():
    os.environ.setdefault('MPLBACKEND', 'Agg')
    recs = {}
    for pk in PACKAGES:
        pkg = importlib.import_module('rsatoolbox.' + pk)
        for mi in sorted(pkgutil.iter_modules(pkg.__path__), key=lambda m: m.name):
            if mi.name.startswith('_'):
                continue
            mod = importlib.import_module(f'rsatoolbox.{pk}.{mi.name}')
            for name, obj in sorted(vars(mod).items()):
                if name.startswith('_') or getattr(obj, '__module__', None) != mod.__name__:
                    continue
                if inspect.isfunction(obj):
                    recs[f'{pk}.{mi.name}.{name}'] = Rec(f'{pk}.{mi.name}.{name}', obj)
                elif inspect.isclass(obj):
                    for mn, mo in sorted(vars(obj).items()):
                        if mn.startswith('_') and mn not in DUNDERS:
                            continue
                        kind = 'method'
                        f = mo
                        if isinstance(mo, (staticmethod, classmethod)):
                            f, kind = mo.__func__, 'static'
                        if not inspect.isfunction(f):
                            continue
                        if mn == '__init__':
                            kind = 'init'
                        q = f'{pk}.{mi.name}.{name}.{mn}'
                        recs[q] = Rec(q, f, obj, kind)
    # short, stable labels: 'RDMs.subset' / 'sqrt_transform'; module-prefixed on collision
    seen = {}
    for r in recs.values():
        s = (r.cls.__name__ + '.' + r.name) if r.cls else r.name
        seen.setdefault(s, []).append(r)
    for s, rs in seen.items():
        for r in rs:
            r.short = s if len(rs) == 1 else r.qual.split('.')[1] + '.' + s
    return recs


_RECS = None


def recs():
    global _RECS
    if _RECS is None:
        _RECS = discover()
    return _RECS


# =====================================================================================================
# fingerprint
# =====================================================================================================
def _is_rsa(o):
    return type(o).__module__.startswith('rsatoolbox')


def _is_desc_name(name):
    """is the dictionary stored under this attribute / key / parameter name a descriptor dictionary (with a managed 'index')?"""
    name = str(name)
    return name.endswith('descriptors') or name in ('descriptor', 'desc_new', 'dictionary', 'd_dict')


def fp(o, out=None, path='', desc=False, seen=None, depth=0):
    """flat dict  component-path -> hashable value; `desc` = we are inside a *descriptors dictionary"""
    if out is None:
        out, seen = {}, set()
    if depth > 8:
        return out
    if isinstance(o, np.ndarray):
        if o.dtype == object:
            out[path] = ('objarr', o.shape, repr(o.tolist()))
        else:
            out[path] = ('ndarray', str(o.dtype), o.shape, o.tobytes())
    elif isinstance(o, (str, bytes, int, float, complex, bool, type(None), np.generic)):
        out[path] = (type(o).__name__, repr(o))
    elif isinstance(o, dict):
        if id(o) in seen:
            return out
        seen.add(id(o))
        out[path + '{keys}'] = tuple(repr(k) for k in o.keys() if not (desc and k == 'index'))
        for k, v in o.items():
            if desc and k == 'index':
                continue
            fp(v, out, f'{path}[{k!r}]', _is_desc_name(k), seen, depth + 1)
    elif isinstance(o, (list, tuple, set, frozenset)):
        if id(o) in seen:
            return out
        seen.add(id(o))
        items = sorted(o, key=repr) if isinstance(o, (set, frozenset)) else o
        if all(isinstance(x, (str, int, float, bool, type(None), np.generic)) for x in items):
            out[path] = (type(o).__name__, repr(list(items)))
        else:
            out[path + '{len}'] = (type(o).__name__, len(items))
            for i, v in enumerate(items):
                fp(v, out, f'{path}[{i}]', False, seen, depth + 1)
    elif callable(o) and not _is_rsa(o):
        out[path] = ('callable', getattr(o, '__name__', type(o).__name__))
    elif inspect.isfunction(o) or inspect.ismethod(o) or inspect.isclass(o):
        out[path] = ('callable', getattr(o, '__name__', '?'))
    elif type(o).__module__.startswith('pandas'):
        try:
            out[path] = ('pandas', repr(list(getattr(o, 'columns', []))), repr(o.to_numpy().tolist()))
        except Exception:
            out[path] = ('pandas', repr(o))
    elif type(o).__module__.startswith('scipy.sparse'):
        a = o.toarray()
        out[path] = ('sparse', type(o).__name__, a.shape, a.tobytes())
    elif hasattr(o, '__dict__'):
        if id(o) in seen:
            return out
        seen.add(id(o))
        out[path + '{type}'] = type(o).__name__
        for k, v in vars(o).items():
            fp(v, out, f'{path}.{k}', _is_desc_name(k), seen, depth + 1)
    else:
        out[path] = (type(o).__name__, repr(o))
    return out


def _norm(path):
    """component label: indices of sequences replaced by [*], quotes removed"""
    import re
    p = re.sub(r'\[\d+\]', '[*]', path)
    p = re.sub(r"\['([^']*)'\]", r'[\1]', p)
    p = p.replace('{keys}', '{keys}').replace('{len}', '{len}')
    return p


def _show(v):
    if v is None:
        return 'absent'
    if v[0] == 'ndarray':
        a = np.frombuffer(v[3], dtype=v[1]).reshape(v[2])
        return f'{v[1]}{list(v[2])} {np.array2string(a.ravel()[:8], precision=4)}'
    if v[0] == 'sparse':
        return f'sparse{list(v[2])}'
    return str(v)[:120]


def _show_change(x, y):
    """old -> new; for two arrays of the same dtype and shape the entries that differ"""
    if x is not None and y is not None and x[0] == y[0] == 'ndarray' and x[1:3] == y[1:3]:
        try:
            u = np.frombuffer(x[3], dtype=x[1])
            v = np.frombuffer(y[3], dtype=y[1])
            same = (u == v)
            if u.dtype.kind in 'fc':
                same = same | (np.isnan(u) & np.isnan(v))
            idx = np.nonzero(~same)[0]
            if len(idx):
                return (f'{x[1]}{list(x[2])}: {len(idx)} of {u.size} entries differ, flat positions {idx[:4].tolist()}: '
                        f'{np.array2string(u[idx[:4]], precision=4)} -> {np.array2string(v[idx[:4]], precision=4)}')
        except Exception:
            pass
    return f'{_show(x)} -> {_show(y)}'


def fp_diff(a, b):
    """list of (normalised component, description) where fingerprints a (before) and b (after) differ"""
    res, done = [], set()
    for k in list(a.keys()) + [k for k in b.keys() if k not in a]:
        if a.get(k) != b.get(k):
            n = _norm(k)
            if n in done:
                continue
            done.add(n)
            res.append((n, f'{k}: ' + _show_change(a.get(k), b.get(k))))
    return res


# =====================================================================================================
# typed pool
# =====================================================================================================
FLAVOURS = ('list', 'array', 'neg', 'nan', 'plain')
QUICK_FLAVOURS = ('array', 'negnan', 'plain')     # 'negnan' = list-valued descriptors, negative values and NaN pairs at once
CONDS = ['c3', 'c0', 'c4', 'c1', 'c2', 'c6', 'c5', 'c9', 'c7', 'c10', 'c8']      # (entries 8.. are used by the 'big' flavour only)
SUBJ = ['s2', 's0', 's3', 's1', 's4', 's7', 's5', 's6']

# ---- dimension sweep: further pool flavours, each varies ONE dimension of the inputs; flavour -> family (the family is
# ---- part of the input class: '<label>@<family>', so that these cases can never share a key with the base sweep)
DIM_FLAVOURS = {
    # typed data: RDM vectors / measurements / model vectors of another dtype (bare float arrays: float32 for 'f32')
    'int16': 'typed', 'uint8': 'typed', 'int64': 'typed', 'f32': 'typed',
    # extreme but legitimate units: every data array scaled by 1e-20 / 1e+9
    'tiny': 'units', 'huge': 'units',
    # containers: tuple-valued descriptors and tuple index arguments; vector-valued (2-D ndarray) descriptors next to the
    # scalar ones; int instead of str labels; descriptor dictionaries written in the reverse key order
    'tuple': 'containers', 'vec2d': 'containers', 'intlab': 'containers', 'revkeys': 'containers', 'incarr': 'containers',
    # repeated + interleaved descriptor values, first-appearance order != sorted order, unbalanced group sizes
    'unbal': 'groups',
    # sizes: a single RDM / a single channel / a single time point; more items than the base pool (7 RDMs, 8 x 11 for inference,
    # 3 repetitions + 1 extra observation, 7 channels)
    'one': 'sizes', 'big': 'sizes',
    # call sequences: the call is made twice on the same arguments ('twice') / once on other arguments of the same shapes and
    # then on the arguments ('warm'): clauses 1 and 2 for the LATER call, and what the caller holds from the earlier call
    # (its result, its arguments) is not changed by the later call
    'twice': 'sequence', 'warm': 'sequence',
    # environment: the output file of save() exists already (overwrite=True).  (The other environment family, another
    # PYTHONHASHSEED in a new interpreter, is not a pool flavour: HASHSEED below.)
    'exists': 'outfile',
}
FAMILIES = ('typed', 'units', 'containers', 'groups', 'sizes', 'sequence', 'outfile', 'hashseed')
FAMILY_CODE = dict(zip(FAMILIES, 'TUCGSQOH'))
HASHSEED = 1             # the sweep is repeated in a NEW interpreter started with this PYTHONHASHSEED (./check runs under 0)
# callables that iterate over a set of names (their internal order depends on the hash seed): hashseed family, quick tier
HASH_QUICK = ('rdm.combine.from_partials', 'rdm.combine.rescale', 'data.dataset.Dataset.from_df', 'data.ops.merge_datasets',
              'data.dataset.merge_subsets', 'rdm.rdms.concat', 'rdm.rdms.RDMs.mean', 'util.descriptor_utils.desc_eq',
              'util.rdm_utils.category_condition_idxs')
SEQ_FLAVOURS = ('twice', 'warm')
DIM_INT = {'int16': np.int16, 'uint8': np.uint8, 'int64': np.int64}
DIM_SCALE = {'tiny': 1e-20, 'huge': 1e+9}


class Skip(Exception):
    """the pool has no argument for this parameter / this variant does not exist"""


def _intlab(x):
    """'c3' -> 3, 's01' -> 1 (flavour 'intlab': the same labels as int); everything else unchanged"""
    import re
    if isinstance(x, str) and re.fullmatch(r'[csrv]\d+', x):
        return int(x[1:])
    return x


def _inclab(x):
    """flavour 'incarr': condition / subject labels as numbers that INCREASE along the stored order ('c3', 'c0', 'c4', .. -> 1, 4,
    7, ..; 's2', 's0', .. -> 2, 5, ..), held in numpy arrays: a strictly increasing 1-D ndarray descriptor"""
    if isinstance(x, str) and x in CONDS:
        return 3 * CONDS.index(x) + 1
    if isinstance(x, str) and x in SUBJ:
        return 3 * SUBJ.index(x) + 2
    return x


class Pool:
    def __init__(self, seed, flavour, tmp=None):
        self.rs = np.random.RandomState(seed)
        self.flavour = flavour
        self.tmp = tmp
        self.n_cond = 5
        self.n_rdm = {'one': 1, 'big': 7}.get(flavour, 4)
        self.made = set()          # ids of the data arrays that already carry the dtype / unit of the flavour

    # ---- descriptors --------------------------------------------------------------------------------
    def dvals(self, vals):
        if self.flavour == 'intlab':
            vals = [_intlab(x) for x in vals]
        if self.flavour == 'incarr':
            return np.array([_inclab(x) for x in vals])
        if self.flavour == 'array':
            return np.array(vals)
        if self.flavour == 'tuple':
            return tuple(vals)
        return list(vals)

    def dd(self, d):
        """a descriptor dictionary as the caller writes it ('revkeys': in the reverse key order)"""
        if d is not None and self.flavour == 'revkeys':
            return {k: d[k] for k in reversed(list(d))}
        return d

    def data(self, a, positive=False):
        """the data array `a` (float64, moderate values) in the dtype / unit of the flavour"""
        fl = self.flavour
        if fl in DIM_INT:
            a = np.round(a * 8)
            if fl == 'uint8' or positive:
                a = np.abs(a) + (1 if positive else 0)
            a = a.astype(DIM_INT[fl])
        elif fl == 'f32':
            a = a.astype(np.float32)
        elif fl in DIM_SCALE:
            a = a * DIM_SCALE[fl]
        self.made.add(id(a))
        return a

    # ---- RDMs ---------------------------------------------------------------------------------------
    def rdm_array(self, n_rdm=None, n_cond=None):
        n_rdm = n_rdm or self.n_rdm
        n_cond = n_cond or self.n_cond
        n_pair = n_cond * (n_cond - 1) // 2
        # squared euclidean distances of random points (+ jitter): valid input also for the Riemannian / Bures comparisons
        pts = self.rs.randn(n_rdm, n_cond, n_cond + 2)
        iu = np.triu_indices(n_cond, 1)
        v = np.array([((p[:, None, :] - p[None, :, :]) ** 2).sum(-1)[iu] for p in pts]) / (n_cond + 2) + 0.01 * self.rs.rand(n_rdm, n_pair)
        if self.flavour in ('neg', 'negnan') + SEQ_FLAVOURS:
            v[:, ::3] -= 1.7
        if self.flavour in ('nan', 'negnan') + SEQ_FLAVOURS:
            v[:, [1, n_pair - 2]] = np.nan
        return self.data(v)

    def rdms(self, n_rdm=None, n_cond=None, conds=None, measure='euclidean', extra_rdm_desc=None):
        from rsatoolbox.rdm import RDMs
        n_rdm = n_rdm or self.n_rdm
        n_cond = n_cond or self.n_cond
        v = self.rdm_array(n_rdm, n_cond)
        if self.flavour == 'plain':
            return RDMs(v, dissimilarity_measure=measure)
        conds = conds or CONDS[:n_cond]
        rd = {'subj': self.dvals(SUBJ[:n_rdm]), 'sess': self.dvals([(i // 2) for i in range(n_rdm)])}
        pd = {'conds': self.dvals(conds), 'grp': self.dvals([i % 3 for i in range(n_cond)])}
        if self.flavour == 'unbal':        # repeated, interleaved values; groups of sizes 3 / 1 / 1 ...
            rd['sess'] = self.dvals([(1, 0, 1, 1, 2, 0, 1, 1)[i] for i in range(n_rdm)])
            pd['grp'] = self.dvals([(2, 0, 2, 1, 2, 0, 2, 2, 1, 2, 0)[i] for i in range(n_cond)])
        if self.flavour == 'vec2d':        # vector-valued descriptors (one row per RDM / pattern)
            rd['coord'] = np.arange(2.0 * n_rdm).reshape(n_rdm, 2)[::-1].copy()
            pd['pos'] = (np.arange(3 * n_cond).reshape(n_cond, 3) * 7 % 11)
        if extra_rdm_desc:
            rd.update(extra_rdm_desc)
        return RDMs(v, dissimilarity_measure=measure, descriptors=self.dd({'roi': 'V1', 'note': [1, 2]}),
                    rdm_descriptors=self.dd(rd), pattern_descriptors=self.dd(pd))

    # ---- datasets -----------------------------------------------------------------------------------
    def ds_parts(self, n_rep=2, n_cond=4, n_ch=5, positive=False):
        if self.flavour == 'one':
            n_ch = 1
        if self.flavour == 'big':
            n_rep, n_ch = n_rep + 1, min(n_ch + 2, 7)
        labels = (['c1', 'c0', 'c3', 'c2', 'c5', 'c4'][:n_cond]) * n_rep
        runs = [r for r in range(n_rep) for _ in range(n_cond)]
        if self.flavour == 'big':          # one extra observation: group sizes are no longer equal
            labels, runs = labels + labels[:1], runs + [0]
        if self.flavour == 'unbal':        # interleaved, first appearance c1 c0 c3 c2 (not sorted), group sizes differ
            seq = [0, 1, 0, 2, 3, 0, 1, 2, 0, 3, 1, 0, 2, 0]
            n_obs = n_cond * n_rep + 1
            labels = [labels[seq[i % len(seq)] % n_cond] for i in range(n_obs)]
            runs = [(0, 1, 1, 0, 1, 0, 0, 1, 1, 0, 1)[i % 11] % max(n_rep, 1) for i in range(n_obs)]
        n_obs = len(labels)
        X = self.rs.randn(n_obs, n_ch) + 2 * self.rs.randn(n_cond, n_ch)[[(i % n_cond) for i in range(n_obs)]]
        if self.flavour in ('neg', 'negnan') + SEQ_FLAVOURS:
            X = X - 1.0
        if positive:
            X = np.abs(X) + 0.1
        X = self.data(X, positive)
        if self.flavour == 'plain':
            return X, None, None, None
        obs = {'conds': self.dvals(labels), 'runs': self.dvals(runs)}
        ch = {'rois': self.dvals((['r1', 'r0', 'r1', 'r0', 'r2', 'r2', 'r0'])[:n_ch]),
              'vox': self.dvals([f'v{i}' for i in range(n_ch)])}
        if self.flavour == 'vec2d':
            obs['xy'] = np.arange(2 * n_obs).reshape(n_obs, 2) * 5 % 7
            ch['loc'] = np.arange(3.0 * n_ch).reshape(n_ch, 3)[::-1].copy()
        return X, self.dd({'subj': 's01', 'sess': 2}), self.dd(obs), self.dd(ch)

    def dataset(self, n_rep=2, n_cond=4, n_ch=5, positive=False):
        from rsatoolbox.data import Dataset
        X, d, obs, ch = self.ds_parts(n_rep, n_cond, n_ch, positive)
        return Dataset(X, descriptors=d, obs_descriptors=obs, channel_descriptors=ch)

    def dataset_base(self):
        from rsatoolbox.data.base import DatasetBase
        X, d, obs, ch = self.ds_parts()
        return DatasetBase(X, descriptors=d, obs_descriptors=obs, channel_descriptors=ch)

    def td_parts(self, n_obs=6, n_ch=3, n_time=4):
        if self.flavour == 'one':
            n_ch, n_time = 1, 1
        if self.flavour == 'big':
            n_obs, n_ch, n_time = n_obs + 4, n_ch + 1, n_time + 3
        X = self.data(self.rs.randn(n_obs, n_ch, n_time))
        if self.flavour == 'plain':
            return X, None, None, None, None
        conds = (['c1', 'c0', 'c2'] * n_obs)[:n_obs]
        runs = [i // 3 for i in range(n_obs)]
        if self.flavour == 'unbal':
            conds = [('c1', 'c0', 'c1', 'c2', 'c1', 'c0', 'c1', 'c2', 'c2', 'c1')[i % 10] for i in range(n_obs)]
            runs = [(1, 0, 0, 1, 0, 1, 1, 0, 0, 1)[i % 10] for i in range(n_obs)]
        obs = {'conds': self.dvals(conds), 'runs': self.dvals(runs)}
        ch = {'rois': self.dvals((['r1', 'r0', 'r1', 'r0'])[:n_ch]), 'vox': self.dvals([f'v{i}' for i in range(n_ch)])}
        tm = {'time': np.arange(n_time) * 1.0, 'half': self.dvals([i * 2 // n_time for i in range(n_time)])}
        if self.flavour == 'vec2d':
            obs['xy'] = np.arange(2 * n_obs).reshape(n_obs, 2) * 5 % 7
            tm['win'] = np.arange(2.0 * n_time).reshape(n_time, 2)
        return X, self.dd({'subj': 's01'}), self.dd(obs), self.dd(ch), self.dd(tm)

    def tdataset(self, n_obs=6, n_ch=3, n_time=4):
        from rsatoolbox.data import TemporalDataset
        X, d, obs, ch, tm = self.td_parts(n_obs, n_ch, n_time)
        return TemporalDataset(X, descriptors=d, obs_descriptors=obs, channel_descriptors=ch, time_descriptors=tm)

    # ---- models -------------------------------------------------------------------------------------
    def model(self, kind='fixed', name='m0', from_array=False):
        import rsatoolbox.model as M
        cls = dict(fixed=M.ModelFixed, select=M.ModelSelect, weighted=M.ModelWeighted, interpolate=M.ModelInterpolate)[kind]
        keep, self.flavour = self.flavour, ('list' if self.flavour in ('nan', 'negnan', 'neg') + SEQ_FLAVOURS else self.flavour)
        try:
            if from_array:
                a = self.rdm_array(1 if kind == 'fixed' else 3)
                return cls(name, a[0] if kind == 'fixed' else a)
            return cls(name, self.rdms(n_rdm=1 if kind == 'fixed' else 3))
        finally:
            self.flavour = keep

    def models(self, kinds=('fixed', 'weighted')):
        return [self.model(k, f'm{i}') for i, k in enumerate(kinds)]

    def result(self, with_var=True):
        from rsatoolbox.inference import Result
        models = self.models(('fixed', 'fixed'))
        ev = self.rs.rand(4, 2, 3)
        nc = self.rs.rand(2, 4) + 1
        var = np.abs(self.rs.rand(4, 4)) if with_var else None
        if var is not None:
            var = var @ var.T
        return Result(models, ev, 'cosine', 'bootstrap', nc, variances=var, dof=3, n_rdm=4, n_pattern=5)

    # ---- files --------------------------------------------------------------------------------------
    def path(self, name):
        if self.tmp is None:
            raise Skip('no temp dir')
        return os.path.join(self.tmp, name)


# =====================================================================================================
# argument recipes
# =====================================================================================================
def _self_for(rec, P, variant):
    n = rec.cls.__name__
    if n == 'RDMs':
        return P.rdms()
    if n == 'DatasetBase':
        return P.dataset_base()
    if n == 'Dataset':
        return P.dataset()
    if n == 'TemporalDataset':
        return P.tdataset()
    if n == 'Model':
        import rsatoolbox.model as M
        return M.Model('m')
    if n in ('ModelFixed', 'ModelSelect', 'ModelWeighted', 'ModelInterpolate'):
        return P.model(n[5:].lower(), from_array=bool(variant % 2))
    if n == 'ModelFamily':
        from rsatoolbox.model.model_family import ModelFamily
        return ModelFamily(P.models(('fixed', 'fixed')))
    if n == 'Fitter':
        from rsatoolbox.model.fitter import Fitter, fit_mock
        return Fitter(fit_mock)
    if n == 'Result':
        return P.result(with_var=(variant % 2 == 0))
    if n == 'Weighted_MDS':
        from rsatoolbox.util.vis_utils import Weighted_MDS
        return Weighted_MDS(n_init=1, max_iter=5, random_state=0)
    # default recipe for a NEW class: no-argument constructor
    try:
        return rec.cls()
    except Exception as e:
        raise Skip(f'cannot build an instance of {n}: {e}')


def _desc_dict(P, n, kind='pattern'):
    if kind == 'pattern':
        return {'conds': P.dvals(CONDS[:n]), 'grp': P.dvals([i % 3 for i in range(n)])}
    return {'subj': P.dvals(SUBJ[:n]), 'sess': P.dvals([i // 2 for i in range(n)])}


def _model_kind_for(rec):
    n = rec.name
    return {'fit_select': 'select', 'fit_optimize': 'weighted', 'fit_optimize_positive': 'weighted',
            'fit_interpolate': 'interpolate', 'fit_regress': 'weighted', 'fit_regress_nn': 'weighted',
            'fit_mock': 'fixed'}.get(n, 'fixed')


def auto_arg(rec, pname, param, P, variant, args):
    """default recipe by parameter NAME (used for every parameter without an entry in SPECS)"""
    mod, cname = rec.module, (rec.cls.__name__ if rec.cls else '')
    has_default = param.default is not inspect.Parameter.empty
    # --- objects
    if pname in ('rdms', 'rdm1', 'rdm2', 'sl_RDM') or (pname == 'rdm' and cname == 'RDMs') or \
            (pname == 'data' and mod.split('.')[0] in ('inference', 'model', 'util')):
        if pname == 'rdm2':
            return P.rdms(n_rdm=2)
        return P.rdms()
    if pname == 'rdm' and cname.startswith('Model'):
        k = cname[5:].lower()
        if variant % 3 == 0:
            return P.rdms(n_rdm=1 if k == 'fixed' else 3)
        if variant % 3 == 1:
            a = P.rdm_array(1 if k == 'fixed' else 3)
            return a[0] if k == 'fixed' else a
        a = P.rdm_array(1 if k == 'fixed' else 3)
        from scipy.spatial.distance import squareform
        m = np.array([squareform(x) for x in a])
        return m[0] if k == 'fixed' else m
    if pname in ('dataset', 'data_i', 'data_j'):
        return P.dataset()
    if pname == 'other':
        return _self_for(rec, P, variant)
    if pname == 'model':
        return P.model(_model_kind_for(rec))
    if pname == 'models':
        if variant % 2 == 0:
            return P.models(('fixed', 'fixed'))
        return P.model('fixed')
    if pname in ('dataset_list', 'sets'):
        a, b = P.dataset(), P.dataset()
        return [a, b]
    if pname == 'list_of_rdms':
        return [P.rdms(n_rdm=2, n_cond=4, conds=['a', 'b', 'c', 'd']), P.rdms(n_rdm=1, n_cond=3, conds=['d', 'e', 'a'])]
    # --- descriptor names / values
    if pname in ('pattern_descriptor',):
        if has_default and variant % 2 == 1:
            return param.default
        return 'index' if P.flavour == 'plain' else 'conds'
    if pname in ('rdm_descriptor',):
        if has_default and variant % 2 == 1:
            return param.default
        return 'index' if P.flavour == 'plain' else 'subj'
    if pname in ('descriptor', 'obs_desc', 'by', 'l2_obs_desc') and mod.startswith(('rdm.calc', 'data.noise', 'data.computations')):
        return 'conds'
    if pname == 'cv_descriptor':
        return 'runs'
    if pname == 'time_descriptor':
        return 'time'
    if pname in ('obs_desc', 'l1_obs_desc'):
        return 'runs'
    if pname == 'l2_obs_desc':
        return 'conds'
    if pname in ('descriptor', 'descriptors', 'a', 'b', 'dictionary', 'd_dict') and mod.startswith(('util.descriptor_utils', 'util.data_utils')):
        if pname == 'descriptor' and rec.name in ('bool_index', 'num_index'):
            return P.dvals(CONDS[:5])
        d = _desc_dict(P, 5)
        d['index'] = list(range(5))
        return d
    if pname == 'desc_new':
        d = _desc_dict(P, 2)
        d['index'] = [0, 1]
        return d
    if pname == 'value':
        return ['c0', 'c3']
    if pname in ('indices',):
        return [0, 2] if variant % 2 == 0 else np.array([3, 1])
    if pname == 'n_element':
        return 5
    if pname == 'name':
        return 'mname'
    # --- arrays
    if pname in ('array', 'index_vector', 'category_vector'):
        return np.array([0, 1, 0, 2, 1]) if variant % 2 == 0 else [0, 1, 0, 2, 1]
    if pname in ('x',):
        if variant % 3 == 0:
            return P.rdm_array(3)
        from scipy.spatial.distance import squareform
        a = P.rdm_array(3)
        return np.array([squareform(r) for r in a]) if variant % 3 == 1 else a[0]
    if pname in ('a', 'residuals', 'measurements', 'data_2d', 'X', 'dissimilarities') and not cname.startswith('Temporal'):
        if pname == 'dissimilarities' and mod == 'util.vis_utils':
            from scipy.spatial.distance import squareform
            return squareform(P.rdm_array(1)[0])
        if pname == 'dissimilarities':
            return P.rdm_array()
        if pname == 'X':
            from scipy.spatial.distance import squareform
            return squareform(P.rdm_array(1)[0])
        if pname == 'residuals' and variant % 2 == 1:
            return [P.rs.randn(10, 4), P.rs.randn(8, 4)]
        return P.rs.randn(10, 4) if pname != 'a' else (P.rs.randn(6, 3).astype(np.float32) if variant % 2 else P.rs.randn(6, 3))
    if pname == 'evaluations':
        return P.rs.rand(6, 3) if mod == 'util.inference_util' else P.rs.rand(4, 2, 3)
    if pname == 'variances':
        if rec.name in ('t_tests',):
            v = P.rs.rand(3, 3)
            return v @ v.T
        return P.rs.rand(3) + 0.1
    if pname in ('model_var',):
        return P.rs.rand(3) + 0.1
    if pname == 'diff_var':
        return P.rs.rand(3) + 0.1
    if pname == 'noise_ceil_var':
        return P.rs.rand(3, 2) + 0.1
    if pname in ('noise_ceil', 'noise_ceiling'):
        return (P.rs.rand(2, 6) + 1) if variant % 2 == 0 else (P.rs.rand(2) + 1)
    if pname == 'variance':
        v = P.rs.rand(4, 4)
        return v @ v.T
    if pname == 'weight':
        return None
    if pname in ('N',):
        return 3
    if pname in ('n_cond', 'size', 'n_pattern', 'n_rdm') and not has_default:
        return 5
    if pname in ('dof',) and not has_default:
        return 3
    if pname == 'filename':
        return P.path(f'{rec.short}.{"pkl" if variant % 2 else "hdf5"}')
    if pname == 'file_type' and 'filename' in args:
        return 'pkl' if str(args['filename']).endswith('pkl') else 'hdf5'
    if pname == 'fun':
        return np.square
    if pname == 'verbose':
        return False
    if has_default:
        return param.default
    raise Skip(f'no pool entry for parameter {pname!r}')


def build_call(rec, P, variant):
    """-> (callable taking no argument, ordered dict name -> argument object).  Raises Skip."""
    spec = SPECS.get(rec.qual)
    given = spec(P, variant, rec) if spec else {}
    if given is None:
        raise Skip('no such variant')
    sig = inspect.signature(rec.func)
    args, star, kw = {}, None, None
    for pname, param in sig.parameters.items():
        if pname == 'self':
            if rec.kind != 'init':
                args['self'] = given['self'] if 'self' in given else _self_for(rec, P, variant)
            continue
        if param.kind == inspect.Parameter.VAR_POSITIONAL:
            star = pname
            args[pname] = given.get(pname, ())
            continue
        if param.kind == inspect.Parameter.VAR_KEYWORD:
            kw = pname
            args[pname] = given.get(pname, {})
            continue
        args[pname] = given[pname] if pname in given else auto_arg(rec, pname, param, P, variant, args)
    if P.flavour in DIM_FLAVOURS:
        _dim_args(P, args)
    pos = [p for p, q in sig.parameters.items() if q.kind in (q.POSITIONAL_ONLY, q.POSITIONAL_OR_KEYWORD) and p != 'self']
    kwo = [p for p, q in sig.parameters.items() if q.kind == q.KEYWORD_ONLY]

    def call():
        a = [args[p] for p in pos] + list(args[star] if star else ())
        k = {p: args[p] for p in kwo}
        k.update(args[kw] if kw else {})
        if rec.kind == 'init':
            return rec.cls(*a, **k)
        if rec.kind == 'method':
            return rec.func(args['self'], *a, **k)
        return rec.func(*a, **k)
    return call, args


TUPLE_ARGS = ('idx', 'value', 'new_order', 'indices', 'pattern_idx', 'theta', 'category_vector', 'events', 'category_selector',
              'category_idxs', 'category_1_idxs', 'category_2_idxs', 'all_patterns', 'p')


def _map_labels(o, depth=0, f=None):
    """flavour 'intlab' / 'incarr': the label VALUES inside a plain argument ('c3' -> 3); names of descriptors are not of that form"""
    f = f or _intlab
    if isinstance(o, str):
        return f(o)
    if depth > 3:
        return o
    if isinstance(o, (list, tuple)):
        return type(o)(_map_labels(x, depth + 1, f) for x in o)
    if isinstance(o, dict):
        return {k: _map_labels(x, depth + 1, f) for k, x in o.items()}
    if isinstance(o, np.ndarray) and o.dtype.kind == 'U' and o.size and all(f(x) is not x for x in o.ravel().tolist()):
        return np.array([f(x) for x in o.ravel().tolist()]).reshape(o.shape)
    return o


def _dim_args(P, args):
    """dimension flavours: the plain (non-object) arguments follow the flavour too.
    'f32' / 'tiny' / 'huge': bare float64 arrays (and lists of them) that do not come from the data recipes of the pool;
    'tuple': index-like list arguments as tuples;  'intlab': label values as int."""
    fl = P.flavour

    def arr(a):
        if isinstance(a, np.ndarray) and a.dtype == np.float64 and id(a) not in P.made and a.size:
            return a.astype(np.float32) if fl == 'f32' else a * DIM_SCALE[fl]
        return a
    for n in list(args):
        a = args[n]
        if n == 'self' or _is_rsa(a):
            continue
        if fl == 'f32' or fl in DIM_SCALE:
            if n in ('low', 'up', 'bins', 'mask', 'threshold', 'radius'):      # thresholds / bin edges in the unit of other arguments
                continue
            if isinstance(a, np.ndarray):
                args[n] = arr(a)
            elif isinstance(a, list) and a and all(isinstance(x, np.ndarray) for x in a):
                args[n] = [arr(x) for x in a]
        elif fl == 'tuple':
            if n in TUPLE_ARGS and isinstance(a, list) and not any(isinstance(x, (list, dict, np.ndarray)) for x in a):
                args[n] = tuple(a)
        elif fl == 'intlab':
            args[n] = _map_labels(a)
        elif fl == 'incarr':
            args[n] = _map_labels(a, f=_inclab)


SPECS = {}


def spec(*quals):
    def deco(f):
        for q in quals:
            SPECS[q] = f
        return f
    return deco


# ---- rdm ------------------------------------------------------------------------------------------------
@spec('rdm.rdms.RDMs.__init__')
def _s_rdms_init(P, v, rec):
    if v >= 3:
        return None
    n_rdm = 1 if v == 2 else 3
    d = dict(dissimilarities=P.rdm_array(n_rdm), dissimilarity_measure='euclidean')
    if P.flavour == 'plain':
        return d
    d['descriptors'] = {'roi': 'V1'}
    if v == 2:      # scalar descriptor values (documented: converted to a one-element list)
        d['rdm_descriptors'] = {'subj': 's7', 'sess': 3}
        d['pattern_descriptors'] = _desc_dict(P, 5)
    else:
        d['rdm_descriptors'] = _desc_dict(P, n_rdm, 'rdm')
        d['pattern_descriptors'] = _desc_dict(P, 5)
    if v == 1:
        from scipy.spatial.distance import squareform
        d['dissimilarities'] = np.array([squareform(x) for x in d['dissimilarities']])
    return d


@spec('rdm.rdms.RDMs.__getitem__')
def _s_getitem(P, v, rec):
    return [dict(idx=1), dict(idx=[0, 2]), dict(idx=np.array([2, 2, 0])), None][min(v, 3)]


@spec('rdm.rdms.RDMs.subset_pattern', 'rdm.rdms.RDMs.subsample_pattern')
def _s_subpat(P, v, rec):
    if v >= 3:
        return None
    rep = rec.name.startswith('subsample')
    if P.flavour == 'plain':
        vals = [[0, 3, 4], [1, 1, 3, 4] if rep else [1, 2, 4], 2][v]
        return dict(by=None if v == 0 else 'index', value=vals)
    vals = [['c0', 'c3', 'c1'], ['c4', 'c4', 'c2', 'c0'] if rep else ['c4', 'c2', 'c0', 'c1'], 'c3'][v]
    if v == 1:
        vals = np.array(vals)
    return dict(by='conds', value=vals)


@spec('rdm.rdms.RDMs.subset', 'rdm.rdms.RDMs.subsample')
def _s_sub(P, v, rec):
    if v >= 3:
        return None
    rep = rec.name.startswith('subsample')
    if P.flavour == 'plain':
        return dict(by=None if v == 0 else 'index', value=[[0, 2], [1, 1, 3] if rep else [1, 3], 2][v])
    vals = [['s0', 's2'], ['s3', 's3', 's1'] if rep else ['s3', 's1'], 's0'][v]
    return dict(by='subj', value=vals)


@spec('rdm.rdms.RDMs.append')
def _s_append(P, v, rec):
    if v >= 1:
        return None
    a = P.rdms()
    return dict(self=a, rdm=P.rdms(n_rdm=2))


@spec('rdm.rdms.RDMs.reorder')
def _s_reorder(P, v, rec):
    return [dict(new_order=np.array([4, 2, 0, 1, 3])), dict(new_order=[1, 0, 2, 4, 3]), None][min(v, 2)]


@spec('rdm.rdms.RDMs.sort_by')
def _s_sortby(P, v, rec):
    if P.flavour == 'plain':
        return [dict(kwargs={'index': [4, 3, 2, 1, 0]}), None][min(v, 1)]
    return [dict(kwargs={'conds': 'alpha'}), dict(kwargs={'conds': ['c4', 'c3', 'c2', 'c1', 'c0']}),
            dict(kwargs={'conds': np.array(['c1', 'c0', 'c2', 'c4', 'c3'])}, reindex=False), None][min(v, 3)]


@spec('rdm.rdms.RDMs.mean')
def _s_mean(P, v, rec):
    if v == 0:
        return dict(weights=None)
    if v == 1:
        return dict(weights=1.0 + P.rs.rand(P.n_rdm, 10))
    if v == 2 and P.flavour != 'plain':
        w = 1.0 + P.rs.rand(P.n_rdm, 10)
        r = P.rdms(extra_rdm_desc={'w': w})
        r.descriptors = {'roi': 'V1'}      # mean(weights=name) builds a set of (key, value) pairs: values must be hashable
        return dict(self=r, weights='w')
    return None


@spec('rdm.rdms.concat')
def _s_concat(P, v, rec):
    if v >= 3:
        return None
    a = P.rdms(n_rdm=2)
    b = P.rdms(n_rdm=2, conds=['c0', 'c3', 'c1', 'c4', 'c2'])      # other pattern order: concat has to align it
    c = P.rdms(n_rdm=1, conds=['c2', 'c4', 'c3', 'c0', 'c1'])
    if v == 0:
        return dict(rdms=(a, b))
    if v == 1:
        return dict(rdms=([a, b, c],))
    return dict(rdms=(a, c), target_pdesc=None if P.flavour == 'plain' else 'conds')


@spec('rdm.rdms.permute_rdms')
def _s_perm(P, v, rec):
    return [dict(p=np.array([2, 0, 3, 1, 4])), dict(p=np.array([4, 3, 2, 1, 0])), None][min(v, 2)]


@spec('rdm.rdms.inverse_permute_rdms')
def _s_iperm(P, v, rec):
    if v >= 1:
        return None
    r = P.rdms()
    r.descriptors['p_inv'] = np.array([1, 3, 0, 2, 4])
    return dict(rdms=r)


@spec('rdm.rdms.get_categorical_rdm')
def _s_cat(P, v, rec):
    return [dict(category_vector=[0, 1, 0, 2]), dict(category_vector=np.array([1, 1, 0, 2, 0])),
            dict(category_vector=[[0, 1], [0, 2], [1, 1]]), None][min(v, 3)]


def _rdm_dict(P):
    d = dict(dissimilarities=P.rdm_array(3), descriptors={'roi': 'V1'}, dissimilarity_measure='euclidean',
             rdm_descriptors=_desc_dict(P, 3, 'rdm'), pattern_descriptors=_desc_dict(P, 5))
    if P.flavour == 'plain':
        d['rdm_descriptors'], d['pattern_descriptors'] = {}, {}
    return d


@spec('rdm.rdms.rdms_from_dict')
def _s_fromdict(P, v, rec):
    if v >= 2:
        return None
    d = _rdm_dict(P)
    if v == 1 and P.flavour != 'plain':      # the nested form written by the hdf5 writer for non-array values
        d['pattern_descriptors']['conds'] = {str(i): c for i, c in enumerate(CONDS[:5])}
    return dict(rdm_dict=d)


@spec('rdm.rdms.load_rdm')
def _s_load_rdm(P, v, rec):
    if v >= 2:
        return None
    fn = P.path('in_rdm.' + ('pkl' if v else 'h5'))
    P.rdms().save(fn, file_type='pkl' if v else 'hdf5', overwrite=True)
    return dict(filename=fn)


@spec('rdm.rdms.RDMs.save', 'data.base.DatasetBase.save', 'inference.result.Result.save')
def _s_save(P, v, rec):
    """as the default recipe (hdf5 / pkl / hdf5 into a new file); flavour 'exists', v2 / v3: the output file EXISTS already"""
    if v >= (4 if P.flavour == 'exists' else AUTO_VARIANTS):
        return None
    ft = 'pkl' if v % 2 else 'hdf5'
    fn = P.path(f'{rec.short}_{v}.{ft}')
    exists = P.flavour == 'exists' and v >= 2
    if exists:
        with open(fn, 'wb') as f:
            f.write(b'previous content of the output file')
    return dict(filename=fn, file_type=ft, overwrite=exists)


@spec('rdm.transform.geotopological_transform')
def _s_geotopo(P, v, rec):
    return [dict(low=0.2, up=0.8), dict(low=0.0, up=0.5), None][min(v, 2)]


@spec('rdm.transform.rank_transform')
def _s_rank(P, v, rec):
    return [dict(method='average'), dict(method='ordinal'), None][min(v, 2)]


@spec('rdm.transform.transform')
def _s_transform(P, v, rec):
    return [dict(fun=np.square), dict(fun=lambda x: x + 1), None][min(v, 2)]


def _prec(P, n=5):
    a = P.rs.randn(n + 3, n)
    return np.linalg.inv(a.T @ a / (n + 3) + np.eye(n))


CALC_METHODS = ['euclidean', 'correlation', 'mahalanobis', 'crossnobis', 'poisson', 'poisson_cv']


@spec('rdm.calc.calc_rdm', 'rdm.calc_unbalanced.calc_rdm_unbalanced')
def _s_calc(P, v, rec):
    if P.flavour == 'plain':
        if v >= 2:
            return None
        return dict(dataset=P.dataset(), method=['euclidean', 'correlation'][v], descriptor=None)
    unb = rec.name.endswith('unbalanced')
    if v < 6:
        m = CALC_METHODS[v]
        d = dict(dataset=P.dataset(positive=m.startswith('poisson')), method=m, descriptor='conds')
        if m in ('crossnobis', 'poisson_cv'):
            d['cv_descriptor'] = 'runs'
        if m in ('mahalanobis', 'crossnobis'):
            d['noise'] = _prec(P)
        return d
    if v == 6:
        return dict(dataset=P.dataset(), method='crossnobis', descriptor='conds', cv_descriptor='runs',
                    noise=[_prec(P), _prec(P)])
    if v == 7:
        return dict(dataset=[P.dataset(), P.dataset()], method='crossnobis', descriptor='conds', cv_descriptor='runs',
                    noise=[_prec(P), _prec(P)])
    if v == 8:
        return dict(dataset=P.dataset(), method='crossnobis', descriptor='conds', cv_descriptor=None)
    if v == 9 and not unb:
        return dict(dataset=P.dataset(), method='euclidean', descriptor='conds', remove_mean=True)
    if v == 10:
        return dict(dataset=P.dataset(), method='euclidean', descriptor=None)
    return None


@spec('rdm.calc.calc_rdm_crossnobis', 'rdm.calc.calc_rdm_poisson_cv')
def _s_crossnobis(P, v, rec):
    if P.flavour == 'plain':
        return None
    pos = 'poisson' in rec.name
    if v == 0:
        return dict(dataset=P.dataset(positive=pos), descriptor='conds', cv_descriptor='runs')
    if v == 1:
        return dict(dataset=P.dataset(positive=pos), descriptor='conds', cv_descriptor=None)
    if pos:
        return None
    if v == 2:
        return dict(dataset=P.dataset(), descriptor='conds', cv_descriptor='runs', noise=_prec(P))
    if v == 3:
        return dict(dataset=P.dataset(), descriptor='conds', cv_descriptor='runs', noise=[_prec(P), _prec(P)])
    if v == 4:
        return dict(dataset=P.dataset(), descriptor='conds', cv_descriptor='runs', noise={0: _prec(P), 1: _prec(P)})
    return None


@spec('rdm.calc.calc_rdm_mahalanobis')
def _s_mahal(P, v, rec):
    d = None if P.flavour == 'plain' else 'conds'
    return [dict(descriptor=d, noise=_prec(P)), dict(descriptor=d, noise=None), dict(descriptor=None, noise=_prec(P)),
            None][min(v, 3)]


@spec('rdm.calc.calc_rdm_euclidean', 'rdm.calc.calc_rdm_correlation')
def _s_eucl(P, v, rec):
    d = None if P.flavour == 'plain' else 'conds'
    return [dict(descriptor=d), dict(descriptor=None), None][min(v, 2)]


@spec('rdm.calc.calc_rdm_poisson')
def _s_poisson(P, v, rec):
    d = None if P.flavour == 'plain' else 'conds'
    return [dict(dataset=P.dataset(positive=True), descriptor=d), None][min(v, 1)]


@spec('rdm.calc.calc_rdm_movie')
def _s_movie(P, v, rec):
    if P.flavour == 'plain' or v >= 3:
        return None
    d = dict(dataset=P.tdataset(), descriptor='conds', time_descriptor='time')
    if v == 1:
        d['bins'] = [np.array([0., 1.]), np.array([2., 3.])]
    if v == 2:
        d.update(method='crossnobis', cv_descriptor='runs')
    return d


@spec('rdm.calc_unbalanced.calc_one_similarity')
def _s_onesim(P, v, rec):
    if v >= 3:
        return None
    X = P.rs.randn(3, 4)
    Y = P.rs.randn(2, 4)
    from rsatoolbox.data import Dataset
    return dict(data_i=Dataset(X), data_j=Dataset(Y), cv_desc_i=np.array([0, 1, 2]), cv_desc_j=np.array([0, 1]),
                method=['euclidean', 'mahalanobis', 'correlation'][v], noise=_prec(P, 4) if v == 1 else None)


@spec('rdm.combine.from_partials')
def _s_partials(P, v, rec):
    if P.flavour == 'plain' or v >= 2:
        return None
    lst = [P.rdms(n_rdm=2, n_cond=4, conds=['a', 'b', 'c', 'd']), P.rdms(n_rdm=1, n_cond=3, conds=['d', 'e', 'a'])]
    return dict(list_of_rdms=lst, descriptor='conds', all_patterns=None if v == 0 else ['e', 'd', 'c', 'b', 'a'])


@spec('rdm.combine.rescale')
def _s_rescale(P, v, rec):
    return [dict(method='evidence'), dict(method='setsize'), dict(method='simple'), None][min(v, 3)]


COMPARE_METHODS = ['cosine', 'corr', 'spearman', 'kendall', 'tau-a', 'rho-a', 'cosine_cov', 'corr_cov', 'neg_riem_dist',
                   'bures', 'bures_metric']


@spec('rdm.compare.compare')
def _s_compare(P, v, rec):
    if v >= len(COMPARE_METHODS) + 2:
        return None
    if v == len(COMPARE_METHODS):
        return dict(rdm1=P.rdm_array(2), rdm2=P.rdm_array(3), method='cosine')
    if v == len(COMPARE_METHODS) + 1:
        return dict(method='cosine_cov', sigma_k=np.eye(5) + 0.1)
    return dict(method=COMPARE_METHODS[v])


@spec('rdm.compare.compare_cosine_cov_weighted', 'rdm.compare.compare_correlation_cov_weighted',
      'rdm.compare.compare_neg_riemannian_distance')
def _s_compare_sigma(P, v, rec):
    return [dict(sigma_k=None), dict(sigma_k=np.eye(5) + 0.1), dict(sigma_k=np.arange(1., 6.)), None][min(v, 3)]


@spec('rdm.pairs.pairs_by_percentile')
def _s_pairs(P, v, rec):
    if P.flavour == 'plain':
        return [dict(min=10, max=60, kwargs={'index': 2}), None][min(v, 1)]
    return [dict(min=10, max=60, kwargs={'conds': 'c0'}), dict(min=0, max=100, kwargs={'grp': 2}), None][min(v, 2)]


# ---- data -----------------------------------------------------------------------------------------------
@spec('data.base.DatasetBase.__init__')
def _s_ds_init(P, v, rec):
    if v >= 2:
        return None
    X, d, obs, ch = P.ds_parts()
    return dict(measurements=X, descriptors=d, obs_descriptors=obs, channel_descriptors=ch, check_dims=bool(v == 0))


@spec('data.dataset.TemporalDataset.__init__')
def _s_td_init(P, v, rec):
    if v >= 2:
        return None
    X, d, obs, ch, tm = P.td_parts()
    if v == 1:
        tm = None
    return dict(measurements=X, descriptors=d, obs_descriptors=obs, channel_descriptors=ch, time_descriptors=tm)


@spec('data.base.DatasetBase.split_obs', 'data.dataset.Dataset.split_obs', 'data.dataset.TemporalDataset.split_obs',
      'data.dataset.Dataset.sort_by', 'data.dataset.TemporalDataset.sort_by', 'data.dataset.Dataset.get_measurements_tensor',
      'data.dataset.Dataset.odd_even_split')
def _s_by_obs(P, v, rec):
    if P.flavour == 'plain':
        return None
    key = 'obs_desc' if rec.name == 'odd_even_split' else 'by'
    return [{key: 'conds'}, {key: 'runs'}, None][min(v, 2)]


@spec('data.base.DatasetBase.split_channel', 'data.dataset.Dataset.split_channel', 'data.dataset.TemporalDataset.split_channel')
def _s_by_ch(P, v, rec):
    if P.flavour == 'plain':
        return None
    return [dict(by='rois'), dict(by='vox'), None][min(v, 2)]


@spec('data.base.DatasetBase.subset_obs', 'data.dataset.Dataset.subset_obs', 'data.dataset.TemporalDataset.subset_obs')
def _s_sub_obs(P, v, rec):
    if P.flavour == 'plain':
        return None
    return [dict(by='conds', value=['c0', 'c2']), dict(by='runs', value=1), dict(by='conds', value=np.array(['c1'])),
            None][min(v, 3)]


@spec('data.base.DatasetBase.subset_channel', 'data.dataset.Dataset.subset_channel',
      'data.dataset.TemporalDataset.subset_channel')
def _s_sub_ch(P, v, rec):
    if P.flavour == 'plain':
        return None
    return [dict(by='rois', value='r1'), dict(by='vox', value=['v0', 'v2']), None][min(v, 2)]


@spec('data.dataset.Dataset.nested_odd_even_split')
def _s_nested(P, v, rec):
    if P.flavour == 'plain' or v >= 1:
        return None
    from rsatoolbox.data import Dataset
    n = 16
    X = P.rs.randn(n, 3)
    obs = {'sess': P.dvals([i // 8 for i in range(n)]), 'runs': P.dvals([(i // 2) % 4 for i in range(n)]),
           'conds': P.dvals([['b', 'a'][i % 2] for i in range(n)])}
    return dict(self=Dataset(X, obs_descriptors=obs, channel_descriptors={'vox': P.dvals(['x', 'y', 'z'])}),
                l1_obs_desc='sess', l2_obs_desc='runs')


@spec('data.dataset.Dataset.from_df')
def _s_from_df(P, v, rec):
    if v >= 2:
        return None
    import pandas
    df = pandas.DataFrame({'ch_a': P.rs.randn(4), 'ch_b': P.rs.randn(4), 'conds': ['x', 'y', 'x', 'z'], 'subj': ['s1'] * 4})
    return dict(df=df, channels=None if v == 0 else ['ch_b', 'ch_a'], channel_descriptor=None if v == 0 else 'nm')


@spec('data.dataset.Dataset.to_df')
def _s_to_df(P, v, rec):
    if P.flavour == 'plain':
        return None
    return [dict(channel_descriptor=None), dict(channel_descriptor='vox'), None][min(v, 2)]


@spec('data.dataset.TemporalDataset.split_time', 'data.dataset.TemporalDataset.time_as_observations',
      'data.dataset.TemporalDataset.convert_to_dataset')
def _s_by_time(P, v, rec):
    if rec.name != 'split_time' and P.flavour != 'array':
        # time_as_observations needs ndarray-valued obs_descriptors (it calls .copy() and np.concatenate on them)
        if P.flavour != 'plain':
            return None
    return [dict(by='time'), None][min(v, 1)]


@spec('data.dataset.TemporalDataset.bin_time')
def _s_bin(P, v, rec):
    return [dict(by='time', bins=[np.array([0., 1.]), np.array([2., 3.])]), None][min(v, 1)]


@spec('data.dataset.TemporalDataset.subset_time')
def _s_subtime(P, v, rec):
    return [dict(by='time', t_from=1, t_to=2), dict(by='time', t_from=0, t_to=3), None][min(v, 2)]


def _data_dict(P, temporal=False):
    if temporal:
        X, d, obs, ch, tm = P.td_parts()
        return dict(measurements=X, descriptors=d or {}, obs_descriptors=obs or {}, channel_descriptors=ch or {},
                    time_descriptors=tm or {'time': np.arange(4.)}, type='TemporalDataset')
    X, d, obs, ch = P.ds_parts()
    return dict(measurements=X, descriptors=d or {}, obs_descriptors=obs or {}, channel_descriptors=ch or {}, type='Dataset')


@spec('data.dataset.dataset_from_dict')
def _s_ds_fromdict(P, v, rec):
    if v >= 3:
        return None
    d = _data_dict(P, temporal=(v == 1))
    if v == 2:
        d['type'] = 'DatasetBase'
    return dict(data_dict=d)


@spec('data.dataset.load_dataset')
def _s_load_ds(P, v, rec):
    if v >= 2:
        return None
    fn = P.path('in_ds.' + ('pkl' if v else 'h5'))
    P.dataset().save(fn, file_type='pkl' if v else 'hdf5', overwrite=True)
    return dict(filename=fn)


@spec('data.dataset.merge_subsets', 'data.ops.merge_datasets')
def _s_merge(P, v, rec):
    if v >= 2:
        return None
    key = 'dataset_list' if rec.name == 'merge_subsets' else 'sets'
    if v == 1:
        return {key: [P.tdataset(), P.tdataset()]}
    a = P.dataset()
    if P.flavour == 'plain':
        return {key: [a, P.dataset()]}
    return {key: a.split_obs('runs') if False else [P.dataset(), P.dataset(n_rep=1)]}


@spec('data.computations.average_dataset_by')
def _s_avgby(P, v, rec):
    if P.flavour == 'plain':
        return None
    return [dict(by='conds'), dict(by='runs'), None][min(v, 2)]


@spec('data.noise.cov_from_measurements', 'data.noise.prec_from_measurements', 'data.noise.cov_from_unbalanced',
      'data.noise.prec_from_unbalanced')
def _s_noise_ds(P, v, rec):
    if P.flavour == 'plain' or v >= 5:
        return None
    if v == 4:
        return dict(dataset=[P.dataset(n_rep=3, n_ch=3), P.dataset(n_rep=3, n_ch=3)], obs_desc='conds', method='diag')
    return dict(dataset=P.dataset(n_rep=3, n_ch=3), obs_desc='conds',
                method=['shrinkage_diag', 'shrinkage_eye', 'diag', 'full'][v])


@spec('data.noise.cov_from_residuals', 'data.noise.prec_from_residuals')
def _s_noise_res(P, v, rec):
    if v >= 6:
        return None
    if v == 4:
        return dict(residuals=[P.rs.randn(10, 3), P.rs.randn(8, 3)], dof=[8, 6], method='diag')
    if v == 5:
        return dict(residuals=P.rs.randn(4, 10, 3), method='shrinkage_diag')
    return dict(residuals=P.rs.randn(10, 3), method=['shrinkage_diag', 'shrinkage_eye', 'diag', 'full'][v],
                dof=None if v % 2 else 8)


# ---- model ----------------------------------------------------------------------------------------------
@spec('model.fitter.Fitter.__init__')
def _s_fitter_init(P, v, rec):
    from rsatoolbox.model.fitter import fit_regress
    return [dict(fit_fun=fit_regress, kwargs={'ridge_weight': 1.0}), None][min(v, 1)]


@spec('model.fitter.Fitter.__call__')
def _s_fitter_call(P, v, rec):
    if v >= 1:
        return None
    from rsatoolbox.model.fitter import Fitter, fit_regress
    return dict(self=Fitter(fit_regress, ridge_weight=1.0), model=P.model('weighted'), data=P.rdms(), args=(), more_args={})


@spec('model.fitter.fit_mock', 'model.fitter.fit_select', 'model.fitter.fit_optimize', 'model.fitter.fit_optimize_positive',
      'model.fitter.fit_interpolate', 'model.fitter.fit_regress', 'model.fitter.fit_regress_nn')
def _s_fit(P, v, rec):
    if v >= 4:
        return None
    d = dict(model=P.model(_model_kind_for(rec)), data=P.rdms())
    if v == 1:
        d.update(method='corr')
    if v == 2:
        d.update(pattern_idx=np.array([0, 2, 3, 4]), pattern_descriptor='index')
    if v == 3:
        if P.flavour == 'plain':
            return None
        d.update(pattern_idx=P.dvals(['c0', 'c3', 'c1', 'c2']), pattern_descriptor='conds')
    return d


@spec('model.model.Model.fit', 'model.model.Model.to_dict')
def _s_model_base(P, v, rec):
    if v >= 4:
        return None
    m = P.model(['fixed', 'select', 'weighted', 'interpolate'][v])
    return dict(self=m, data=P.rdms()) if rec.name == 'fit' else dict(self=m)


@spec('model.model.ModelFixed.predict', 'model.model.ModelFixed.predict_rdm', 'model.model.ModelWeighted.predict',
      'model.model.ModelWeighted.predict_rdm', 'model.model.ModelInterpolate.predict', 'model.model.ModelInterpolate.predict_rdm')
def _s_predict(P, v, rec):
    if v >= 4:
        return None
    if v < 2:
        return dict(theta=None)
    return dict(theta=np.array([0.2, 0.5, 0.3])) if v == 2 else dict(theta=[0.0, 1.0, 2.0])


@spec('model.model.ModelSelect.predict', 'model.model.ModelSelect.predict_rdm')
def _s_predict_sel(P, v, rec):
    if v >= 4:
        return None
    return dict(theta=v % 3)


@spec('model.model.model_from_dict')
def _s_model_fromdict(P, v, rec):
    if v >= 5:
        return None
    t = ['ModelFixed', 'ModelSelect', 'ModelWeighted', 'ModelInterpolate', 'Model'][v]
    d = _rdm_dict(P)
    if t == 'ModelFixed':
        d['dissimilarities'] = d['dissimilarities'][:1]
        d['rdm_descriptors'] = {k: x[:1] for k, x in d['rdm_descriptors'].items()}
    return dict(model_dict=dict(rdm=None if t == 'Model' else d, name='mm', type=t))


@spec('model.model_family.ModelFamily.get_family_member')
def _s_family(P, v, rec):
    return [dict(family_index=0), dict(family_index=2), None][min(v, 2)]


# ---- inference ------------------------------------------------------------------------------------------
def _n(P, kind):
    return 'index' if P.flavour == 'plain' else ('conds' if kind == 'pattern' else 'subj')


def _inf_size(P):
    return (8, 11) if P.flavour == 'big' else (5, 7)


def _inf_data(P):
    keep = P.n_cond
    n_rdm, P.n_cond = _inf_size(P)
    try:
        return P.rdms(n_rdm=n_rdm, n_cond=P.n_cond)
    finally:
        P.n_cond = keep


def _model7(P, kind, name):
    keep = P.n_cond
    P.n_cond = _inf_size(P)[1]
    try:
        return P.model(kind, name)
    finally:
        P.n_cond = keep


def _inf_models7(P, v):
    if v % 3 == 0:
        return [_model7(P, 'fixed', 'm0'), _model7(P, 'fixed', 'm1')]
    if v % 3 == 1:
        return _model7(P, 'fixed', 'm0')
    return [_model7(P, 'fixed', 'm0'), _model7(P, 'weighted', 'm1')]


@spec('inference.boot_testset.bootstrap_testset', 'inference.boot_testset.bootstrap_testset_pattern',
      'inference.boot_testset.bootstrap_testset_rdm')
def _s_boot_testset(P, v, rec):
    if v >= 3:
        return None
    d = dict(models=_inf_models7(P, v), data=_inf_data(P), N=3)
    sig = inspect.signature(rec.func).parameters
    if v >= 1:
        if 'pattern_descriptor' in sig:
            d['pattern_descriptor'] = _n(P, 'pattern')
        if 'rdm_descriptor' in sig:
            d['rdm_descriptor'] = _n(P, 'rdm')
    return d


@spec('inference.evaluate.eval_fixed', 'inference.evaluate.eval_bootstrap', 'inference.evaluate.eval_bootstrap_pattern',
      'inference.evaluate.eval_bootstrap_rdm', 'inference.evaluate.eval_dual_bootstrap',
      'inference.evaluate.eval_dual_bootstrap_random', 'inference.evaluate.bootstrap_crossval')
def _s_eval(P, v, rec):
    if v >= 3:
        return None
    sig = inspect.signature(rec.func).parameters
    d = dict(models=_inf_models7(P, v), data=_inf_data(P))
    if 'N' in sig:
        d['N'] = 3
    if v >= 1:
        if 'pattern_descriptor' in sig:
            d['pattern_descriptor'] = _n(P, 'pattern')
        if 'rdm_descriptor' in sig:
            d['rdm_descriptor'] = _n(P, 'rdm')
    if v == 2 and 'theta' in sig:
        d['theta'] = [None, np.array([0.5, 0.2, 0.3])]
    if 'k_pattern' in sig and rec.name != 'eval_dual_bootstrap':
        d.update(k_pattern=2, k_rdm=2)
    return d


def _cv_sets(P, data, v):
    from rsatoolbox.inference import sets_k_fold
    np.random.seed(3)
    return sets_k_fold(data, k_rdm=2, k_pattern=2, random=False, pattern_descriptor=_n(P, 'pattern'),
                       rdm_descriptor=_n(P, 'rdm'))


@spec('inference.evaluate.crossval')
def _s_crossval(P, v, rec):
    if v >= 3:
        return None
    data = _inf_data(P)
    tr, te, ce = _cv_sets(P, data, v)
    return dict(models=_inf_models7(P, v), rdms=data, train_set=tr, test_set=te, ceil_set=ce if v != 1 else None,
                pattern_descriptor=_n(P, 'pattern'))


@spec('inference.noise_ceiling.cv_noise_ceiling')
def _s_cvnc(P, v, rec):
    if v >= 1:
        return None
    data = _inf_data(P)
    tr, te, ce = _cv_sets(P, data, v)
    return dict(rdms=data, ceil_set=ce, test_set=te, pattern_descriptor=_n(P, 'pattern'))


@spec('inference.noise_ceiling.boot_noise_ceiling')
def _s_bootnc(P, v, rec):
    return [dict(rdms=_inf_data(P), rdm_descriptor=_n(P, 'rdm')), dict(rdms=_inf_data(P)), None][min(v, 2)]


@spec('inference.bootstrap.bootstrap_sample', 'inference.bootstrap.bootstrap_sample_rdm',
      'inference.bootstrap.bootstrap_sample_pattern')
def _s_bootsample(P, v, rec):
    if v >= 2:
        return None
    sig = inspect.signature(rec.func).parameters
    d = dict(rdms=_inf_data(P))
    if v == 0:
        if 'pattern_descriptor' in sig:
            d['pattern_descriptor'] = _n(P, 'pattern')
        if 'rdm_descriptor' in sig:
            d['rdm_descriptor'] = 'index' if P.flavour == 'plain' else 'sess'
    return d


@spec('inference.crossvalsets.sets_k_fold', 'inference.crossvalsets.sets_k_fold_pattern', 'inference.crossvalsets.sets_k_fold_rdm',
      'inference.crossvalsets.sets_leave_one_out_pattern', 'inference.crossvalsets.sets_leave_one_out_rdm',
      'inference.crossvalsets.sets_of_k_pattern', 'inference.crossvalsets.sets_of_k_rdm', 'inference.crossvalsets.sets_random')
def _s_sets(P, v, rec):
    if v >= 2:
        return None
    sig = inspect.signature(rec.func).parameters
    d = dict(rdms=_inf_data(P))
    if 'pattern_descriptor' in sig:
        d['pattern_descriptor'] = _n(P, 'pattern') if v == 0 else ('index' if P.flavour == 'plain' else 'grp')
    if 'rdm_descriptor' in sig:
        d['rdm_descriptor'] = _n(P, 'rdm') if v == 0 else ('index' if P.flavour == 'plain' else 'sess')
    if 'k' in sig:
        d['k'] = 2
    if 'k_rdm' in sig:
        d['k_rdm'] = 2
    if 'k_pattern' in sig:
        d['k_pattern'] = 2
    if 'random' in sig:
        d['random'] = bool(v)
    return d


@spec('inference.result.Result.__init__')
def _s_result_init(P, v, rec):
    if v >= 3:
        return None
    models = P.models(('fixed', 'fixed')) if v != 1 else [P.model('fixed')]
    nm = len(models)
    var = None
    if v == 2:
        a = P.rs.rand(nm + 2, nm + 2)
        var = a @ a.T
    return dict(models=models if v != 1 else models[0], evaluations=P.rs.rand(4, nm, 3), method='cosine', cv_method='bootstrap',
                noise_ceiling=P.rs.rand(2, 4) + 1 if v != 1 else [0.8, 0.9], variances=var, dof=3, n_rdm=4, n_pattern=5)


@spec('inference.result.Result.get_ci')
def _s_ci(P, v, rec):
    return [dict(ci_percent=0.9), dict(ci_percent=0.5, test_type='bootstrap'), None][min(v, 2)]


@spec('inference.result.Result.get_errorbars')
def _s_eb(P, v, rec):
    return [dict(eb_type='sem'), dict(eb_type='ci95'), dict(eb_type='sem', test_type='bootstrap'), None][min(v, 3)]


@spec('inference.result.Result.test_all', 'inference.result.Result.test_noise', 'inference.result.Result.test_pairwise',
      'inference.result.Result.test_zero', 'inference.result.Result.summary')
def _s_tests(P, v, rec):
    if v >= 3:
        return None
    return dict(self=P.result(with_var=(v != 1)), test_type=['t-test', 'bootstrap', 'ranksum'][v])


def _result_dict(P):
    from scipy.spatial.distance import squareform  # noqa: F401
    md = {}
    for i in range(2):
        d = _rdm_dict(P)
        d['dissimilarities'] = d['dissimilarities'][:1]
        d['rdm_descriptors'] = {k: x[:1] for k, x in d['rdm_descriptors'].items()}
        md[f'model_{i}'] = dict(rdm=d, name=f'm{i}', type='ModelFixed')
    a = P.rs.rand(4, 4)
    return dict(evaluations=P.rs.rand(4, 2, 3), dof=3, variances=a @ a.T, noise_ceiling=P.rs.rand(2, 4) + 1, method='cosine',
                cv_method='bootstrap', models=md, n_rdm=4, n_pattern=5)


@spec('inference.result.result_from_dict')
def _s_result_fromdict(P, v, rec):
    return [dict(result_dict=_result_dict(P)), None][min(v, 1)]


@spec('inference.result.load_results')
def _s_load_results(P, v, rec):
    if v >= 2:
        return None
    fn = P.path('in_res.' + ('pkl' if v else 'h5'))
    P.result().save(fn, file_type='pkl' if v else 'hdf5', overwrite=True)
    return dict(filename=fn)


# ---- util -----------------------------------------------------------------------------------------------
@spec('util.data_utils.extract_dict', 'util.descriptor_utils.subset_descriptor')
def _s_extract(P, v, rec):
    if v >= 3:
        return None
    d = _desc_dict(P, 5)
    d['index'] = P.dvals(range(5))
    key = 'dictionary' if rec.name == 'extract_dict' else 'descriptor'
    return {key: d, 'indices': [[0, 2], np.array([3, 1, 1]), 2][v]}


@spec('util.descriptor_utils.bool_index', 'util.descriptor_utils.num_index')
def _s_boolidx(P, v, rec):
    if v >= 3:
        return None
    return dict(descriptor=P.dvals(CONDS[:5]), value=[['c0', 'c3'], 'c1', np.array(['c4', 'c2'])][v])


@spec('util.descriptor_utils.check_descriptor_length', 'util.descriptor_utils.check_descriptor_length_error')
def _s_checklen(P, v, rec):
    if v >= 2:
        return None
    d = _desc_dict(P, 5) if v == 0 else {'a': 'xyz', 'b': P.dvals([1])}
    out = dict(descriptor=d, n_element=5 if v == 0 else 1)
    if rec.name.endswith('error'):
        out['name'] = 'obs_descriptors'
    return out


@spec('util.descriptor_utils.dict_to_list')
def _s_dict2list(P, v, rec):
    if v >= 2:
        return None
    if v == 0:
        return dict(d_dict={'conds': np.array(CONDS[:4]), 'n': np.array([3, 1, 2, 0])})
    return dict(d_dict={'conds': {str(i): c for i, c in enumerate(CONDS[:4])}, 'n': P.dvals([3, 1, 2, 0])})


@spec('util.descriptor_utils.desc_eq')
def _s_desceq(P, v, rec):
    return [dict(a=_desc_dict(P, 5), b=_desc_dict(P, 5)), dict(a=_desc_dict(P, 5), b=_desc_dict(P, 5, 'rdm')), None][min(v, 2)]


@spec('util.descriptor_utils.parse_input_descriptor', 'util.descriptor_utils.format_descriptor')
def _s_parse(P, v, rec):
    if v >= 2:
        return None
    if v == 1 and rec.name == 'parse_input_descriptor':
        return dict(descriptors=None)
    return dict(descriptors=_desc_dict(P, 5))


@spec('util.inference_util.all_tests', 'util.inference_util.nc_tests', 'util.inference_util.zero_tests',
      'util.inference_util.pair_tests')
def _s_alltests(P, v, rec):
    if v >= 7:
        return None
    tt = ['t-test', 'bootstrap', 'ranksum'][v % 3] if v < 6 else 'bootstrap'
    nc2d = v < 3 or v == 6
    sig = inspect.signature(rec.func).parameters
    # v == 6: two bootstrap samples, so that the `noise_lower_bs.shape = (noise_ceil.shape[0], 1)` statement on the view of the
    # caller's noise_ceil is reached (it raises for any other number of samples)
    nb, nm = (2 if v == 6 else 6), 3
    d = dict(evaluations=P.rs.rand(nb, nm, 4) if tt == 'ranksum' else P.rs.rand(nb, nm), test_type=tt)
    if 'noise_ceil' in sig:
        d['noise_ceil'] = (P.rs.rand(2, nb) + 1) if nc2d else (P.rs.rand(2) + 1)
    if 'model_var' in sig:
        d['model_var'] = P.rs.rand(nm) + 0.1
    if 'diff_var' in sig:
        d['diff_var'] = P.rs.rand(nm * (nm - 1) // 2) + 0.1
    if 'noise_ceil_var' in sig:
        d['noise_ceil_var'] = P.rs.rand(nm, 2) + 0.1
    if 'dof' in sig:
        d['dof'] = 5
    return d


@spec('util.inference_util.extract_variances')
def _s_extractvar(P, v, rec):
    if v >= 4:
        return None
    a = P.rs.rand(5, 5)
    cov = a @ a.T
    if v == 0:
        return dict(variance=cov, nc_included=True)
    if v == 1:
        return dict(variance=cov[:3, :3], nc_included=False)
    if v == 2:
        return dict(variance=np.diag(cov), nc_included=True)
    return dict(variance=np.array([cov, cov * 1.5, cov * 2.0]), nc_included=True, n_rdm=5, n_pattern=7)


@spec('util.inference_util.get_errorbars')
def _s_geb(P, v, rec):
    if v >= 3:
        return None
    return dict(model_var=P.rs.rand(3) + 0.1, evaluations=P.rs.rand(6, 3), dof=5, error_bars=['sem', 'ci95', 'sem'][v],
                test_type=['t-test', 't-test', 'bootstrap'][v])


@spec('util.inference_util.input_check_model')
def _s_icm(P, v, rec):
    if v >= 3:
        return None
    from rsatoolbox.model.fitter import fit_mock
    if v == 0:
        return dict(models=P.models(('fixed', 'weighted')), theta=None, fitter=None, N=3)
    if v == 1:
        return dict(models=P.model('weighted'), theta=np.array([1., 2., 3.]), fitter=fit_mock, N=2)
    return dict(models=P.models(('fixed', 'weighted')), theta=[None, np.array([1., 2., 3.])], fitter=[fit_mock, fit_mock], N=2)


@spec('util.inference_util.t_tests', 'util.inference_util.t_test_0', 'util.inference_util.t_test_nc')
def _s_ttests(P, v, rec):
    if v >= 2:
        return None
    ev = P.rs.rand(6, 3)
    if rec.name == 't_tests':
        var = P.rs.rand(3) + 0.1
    else:
        var = P.rs.rand(3) + 0.1
    d = dict(evaluations=ev, variances=var, dof=5)
    if rec.name == 't_test_nc':
        d['noise_ceil'] = 0.9 if v == 0 else np.array(0.9)
    return d


@spec('util.inference_util.ranksum_value_test', 'util.inference_util.ranksum_pair_test',
      'util.inference_util.bootstrap_pair_tests')
def _s_rsv(P, v, rec):
    if v >= 2:
        return None
    d = dict(evaluations=P.rs.rand(4, 3, 5))
    if rec.name == 'ranksum_value_test':
        d['comp_value'] = 0.5 * v
    return d


@spec('util.inference_util.pool_rdm', 'util.pooling.pool_rdm')
def _s_pool(P, v, rec):
    ms = ['cosine', 'corr', 'spearman', 'rho-a', 'kendall', 'neg_riem_dist', 'cosine_cov', 'corr_cov', 'euclid']
    if v < len(ms):
        return dict(method=ms[v])
    # a single RDM (the pooled RDM of one RDM must still be a new object): shortcut paths
    single = ['euclid', 'cosine', 'corr', 'spearman']
    if v - len(ms) < len(single):
        return dict(method=single[v - len(ms)], rdms=P.rdms(n_rdm=1))
    return None


@spec('util.matrix.get_v')
def _s_getv(P, v, rec):
    from scipy.sparse import csr_matrix
    return [dict(n_cond=4, sigma_k=None), dict(n_cond=4, sigma_k=csr_matrix(np.eye(4) * 2.0)), None][min(v, 2)]


@spec('util.matrix.indicator')
def _s_indicator(P, v, rec):
    return [dict(index_vector=np.array([0, 1, 0, 2, 1]), positive=False), dict(index_vector=np.array([0., 1., 0., 2.]), positive=True),
            None][min(v, 2)]


@spec('util.matrix.square_category_binary_mask')
def _s_sqmask(P, v, rec):
    return [dict(category_idxs=[0, 2], size=4), None][min(v, 1)]


@spec('util.matrix.square_between_category_binary_mask')
def _s_sqmask2(P, v, rec):
    return [dict(category_1_idxs=[0, 2], category_2_idxs=[1], size=4), None][min(v, 1)]


@spec('util.rdm_utils.add_pattern_index')
def _s_addidx(P, v, rec):
    return [dict(pattern_descriptor=_n(P, 'pattern')), None][min(v, 1)]


@spec('util.rdm_utils.category_condition_idxs')
def _s_catidx(P, v, rec):
    if v >= 2:
        return None
    if v == 0:
        return dict(category_selector=[0, 1, 0, 2, 1])
    if P.flavour == 'plain':
        return None
    return dict(category_selector='grp')


@spec('util.searchlight.get_volume_searchlight')
def _s_vol(P, v, rec):
    if v >= 1:
        return None
    m = np.ones((4, 4, 4))
    m[0] = 0
    return dict(mask=m, radius=1, threshold=0.5)


@spec('util.searchlight.get_searchlight_RDMs')
def _s_slrdms(P, v, rec):
    if v >= 2:
        return None
    return dict(data_2d=P.rs.randn(6, 8), centers=np.array([1, 4, 6]), neighbors=[np.array([0, 1, 2]), np.array([3, 4, 5]), np.array([5, 6, 7])],
                events=np.array([0, 1, 2, 0, 1, 2]) if v == 0 else [2, 1, 0, 2, 1, 0], method='correlation', verbose=False)


@spec('util.searchlight.evaluate_models_searchlight')
def _s_evalsl(P, v, rec):
    if v >= 1:
        return None
    from rsatoolbox.inference import eval_fixed
    return dict(sl_RDM=P.rdms(), models=P.models(('fixed', 'fixed')), eval_function=eval_fixed, method='corr', n_jobs=1)


def _sqform(P):
    from scipy.spatial.distance import squareform
    return squareform(np.abs(P.rdm_array(1)[0]))


@spec('util.vis_utils.smacof')
def _s_smacof(P, v, rec):
    if v >= 2:
        return None
    D = _sqform(P)
    W = None if v == 0 else np.ones_like(D)
    return dict(dissimilarities=np.nan_to_num(D), n_init=1, max_iter=5, random_state=0, weight=W)


@spec('util.vis_utils.Weighted_MDS.fit', 'util.vis_utils.Weighted_MDS.fit_transform')
def _s_mds(P, v, rec):
    if v >= 2:
        return None
    from rsatoolbox.util.vis_utils import Weighted_MDS
    D = np.nan_to_num(_sqform(P))
    return dict(self=Weighted_MDS(n_init=1, max_iter=5, random_state=0, dissimilarity='precomputed'), X=D,
                weight=None if v == 0 else np.ones_like(D))


@spec('util.vis_utils.Weighted_MDS.__init__')
def _s_mds_init(P, v, rec):
    return [dict(n_components=2, n_init=1, max_iter=5, random_state=0), None][min(v, 1)]


@spec('util.vis_utils.weight_to_matrices')
def _s_w2m(P, v, rec):
    if v >= 3:
        return None
    from scipy.spatial.distance import squareform
    a = np.abs(P.rdm_array(3))
    return dict(x=[a, np.array([squareform(r) for r in a]), a[0]][v])


@spec('util.file_io.remove_file')
def _s_rmfile(P, v, rec):
    if v >= 1:
        return None
    fn = P.path('to_remove.txt')
    with open(fn, 'w') as f:
        f.write('x')
    return dict(file=fn)


MAX_VARIANTS = 13
AUTO_VARIANTS = 3


# =====================================================================================================
# execution
# =====================================================================================================
@contextlib.contextmanager
def _quiet():
    with warnings.catch_warnings(), np.errstate(all='ignore'), \
            contextlib.redirect_stdout(io.StringIO()), contextlib.redirect_stderr(io.StringIO()):
        warnings.simplefilter('ignore')
        yield


class NotExercised(Exception):
    pass


def _invoke(case, tmp):
    """build pool arguments for `case`; -> (rec, ordered dict of arguments, zero-argument callable of the real function)"""
    rec = recs().get(case['fn'])
    if rec is None:
        raise NotExercised(f"callable {case['fn']} does not exist on this tree")
    P = Pool(case['seed'], case['flavour'], tmp)
    try:
        call, args = build_call(rec, P, case['variant'])
    except Skip as e:
        raise NotExercised(f'skip: {e}')
    if case['flavour'] in SEQ_FLAVOURS:
        call = _seq_call(case, rec, P, call, tmp)
    np.random.seed(1000 + case['seed'])
    return rec, args, call


def _seq_call(case, rec, P, call, tmp):
    """call sequences: an EARLIER call of the same callable precedes the call under test -- 'twice': on the very same
    arguments, 'warm': on other arguments of the same shapes (pool seed + 100).  The caller keeps the earlier result and
    the earlier arguments; `seq.held` = their fingerprints (before, after) the later call."""
    earlier_args = None
    first_call = call
    if case['flavour'] == 'warm':
        first_call, earlier_args = build_call(rec, Pool(case['seed'] + 100, case['flavour'], tmp), case['variant'])

    def seq():
        first = first_call()
        before = (fp(first), fp(earlier_args))
        res = call()
        seq.held = dict(result=(before[0], fp(first)), arguments=(before[1], fp(earlier_args)))
        return res
    seq.held = None
    return seq


def _base(case):
    return {k: case[k] for k in ('fn', 'flavour', 'variant', 'seed')}


_CACHE = {}


def _cached(kind, case, fn):
    key = (kind, json.dumps(_base(case), sort_keys=True))
    if key not in _CACHE:
        if len(_CACHE) > 8:
            _CACHE.clear()
        _CACHE[key] = fn(_base(case))
    return _CACHE[key]


def _collapse(comp):
    """stable component label: sequence positions and digits dropped, cut after the descriptor dictionary"""
    import re
    p = re.sub(r"\['([^']*)'\]", r'[\1]', comp)
    p = re.sub(r'\{(keys|len|type)\}', '', p)
    p = re.sub(r'\[(\d+|\*)\]', '', p)
    p = re.sub(r'\d+', '*', p)
    m = re.search(r'descriptors\]?', p)
    if m:
        p = p[:m.end()]
    return p


def _fp_args(args):
    return {n: fp(a, desc=_is_desc_name(n)) for n, a in args.items()}


def frame_diffs(case):
    """clause 1.  -> ('ok', [(label, description)], info) | ('not-exercised', reason, None)
    info = (kinds of mutable things in the result, kinds in the arguments, result has dict/object content, seconds)"""
    import time
    tmp = tempfile.mkdtemp(prefix='c12_')
    try:
        with _quiet():
            try:
                rec, args, call = _invoke(case, tmp)
            except NotExercised as e:
                return 'not-exercised', str(e), None
            except Exception as e:      # the pool itself could not be built on this tree (constructor / save raised)
                return 'not-exercised', f'pool construction raised {type(e).__name__}: {str(e)[:150]}', None
            before = _fp_args(args)
            t0 = time.time()
            try:
                result = call()
            except Exception as e:   # the generated arguments are not valid for this callable: the property is silent
                return 'not-exercised', f'call raised {type(e).__name__}: {str(e)[:150]}', None
            dt = time.time() - t0
            after = _fp_args(args)
            info = (sorted({k for k, _, _ in _targets(result)}), sorted({k for k, _, _ in _targets(list(args.values()))}),
                    _has_structure(result), dt)
        allowed = MUTATORS.get(rec.qual)
        out, done = [], set()
        for n in args:
            if n == allowed:
                continue
            for comp, desc in fp_diff(before[n], after[n]):
                label = f'{rec.short}:modifies-' + (n if _is_desc_name(n) else _collapse(n + comp))
                if label in done:
                    continue
                done.add(label)
                out.append((label, f'{rec.short}({case["flavour"]},v{case["variant"]}) changed its argument {n}{desc}'))
        held = getattr(call, 'held', None)
        if held is not None and rec.qual not in MUTATORS and rec.qual not in VIEW_BY_CONTRACT:
            # what the caller holds from the EARLIER call: its result, and its arguments when they are other objects ('warm')
            for what in ('result', 'arguments'):
                for comp, desc in fp_diff(*held[what])[:1]:
                    label = f'{rec.short}:later-call-changes-earlier-{what}'
                    out.append((label, f'{rec.short}({case["flavour"]},v{case["variant"]}): the later call changed the {what} of the '
                                       f'earlier call, held by the caller: {what}{desc}'))
        return 'ok', out, info
    finally:
        shutil.rmtree(tmp, ignore_errors=True)


def _has_structure(o, depth=0):
    """does the value contain anything but numbers / arrays (a dict, a list of labels, an rsatoolbox object)?"""
    if isinstance(o, (np.ndarray, str, bytes, int, float, bool, complex, type(None), np.generic)):
        return False
    if isinstance(o, (tuple, list)) and depth < 4:
        return any(_has_structure(x, depth + 1) for x in o) or \
            (isinstance(o, list) and any(isinstance(x, (str, int, float)) for x in o))
    return True


# ---- in-place operations applied to one side ----------------------------------------------------------
def _targets(o, path='', desc=False, out=None, seen=None, depth=0):
    """walk the object graph: -> list of (kind, object, path) with kind in rdms / dataset / array"""
    if out is None:
        out, seen = [], set()
    if depth > 8 or id(o) in seen:
        return out
    if isinstance(o, (str, bytes, int, float, bool, type(None), np.generic)):
        return out
    seen.add(id(o))
    if isinstance(o, np.ndarray):
        out.append(('array', o, path))
        return out
    mro = [c.__name__ for c in type(o).__mro__]
    if 'RDMs' in mro and _is_rsa(o):
        out.append(('rdms', o, path))
    elif 'DatasetBase' in mro and _is_rsa(o):
        out.append(('dataset', o, path))
    if isinstance(o, dict):
        for k, v in o.items():
            if desc and k == 'index':
                continue
            _targets(v, f'{path}[{k!r}]', desc or _is_desc_name(k), out, seen, depth + 1)
    elif isinstance(o, (list, tuple)):
        for i, v in enumerate(o):
            _targets(v, f'{path}[{i}]', desc, out, seen, depth + 1)
    elif _is_rsa(o) and hasattr(o, '__dict__'):
        for k, v in vars(o).items():
            _targets(v, f'{path}.{k}', _is_desc_name(k), out, seen, depth + 1)
    elif type(o).__module__.startswith('scipy.sparse') and isinstance(getattr(o, 'data', None), np.ndarray):
        out.append(('array', o.data, path + '.data'))
    return out


def _scribble(a):
    if not isinstance(a, np.ndarray) or a.size == 0 or not a.flags.writeable:
        return False
    k = a.dtype.kind
    if k in 'fc':
        a[...] = -9876.5
    elif k == 'b':
        a[...] = ~a
    elif k in 'iu':
        a[...] = a ^ 0x55
    elif k == 'U':
        a[...] = 'Z'
    else:
        return False
    return True


def _unsorted_key(d, n):
    for k, v in d.items():
        if k == 'index' or v is None:
            continue
        try:
            vals = list(v)
            if len(vals) == n and n > 1 and not isinstance(vals[0], (list, dict, np.ndarray)):
                if not np.array_equal(np.argsort(vals, kind='stable'), np.arange(n)):
                    return k
        except Exception:
            continue
    return None


MUTS = ('reorder', 'sort_by', 'append', 'dataset-sort_by', 'array-write')
MUT_NEEDS = {'reorder': 'rdms', 'sort_by': 'rdms', 'append': 'rdms', 'dataset-sort_by': 'dataset', 'array-write': 'array'}


def _apply(mut, targets):
    """apply the documented in-place operation `mut` to every applicable target; -> number of applications"""
    from rsatoolbox.rdm import RDMs
    n = 0
    for kind, t, _ in targets:
        try:
            if mut == 'reorder' and kind == 'rdms' and t.n_cond >= 2:
                t.reorder(np.arange(t.n_cond)[::-1])
                n += 1
            elif mut == 'sort_by' and kind == 'rdms' and t.n_cond >= 2:
                k = _unsorted_key(t.pattern_descriptors, t.n_cond)
                if k is not None:
                    t.sort_by(**{k: 'alpha'})
                else:
                    idx = list(t.pattern_descriptors['index'])
                    if len(set(map(str, idx))) != len(idx):
                        continue
                    t.sort_by(index=idx[::-1])
                n += 1
            elif mut == 'append' and kind == 'rdms':
                rd = {}
                for k, v in t.rdm_descriptors.items():
                    if k != 'index':
                        rd[k] = [copy.deepcopy(list(v)[0])]
                extra = RDMs(np.full((1, t.dissimilarities.shape[1]), 7.25), dissimilarity_measure=t.dissimilarity_measure,
                             rdm_descriptors=rd)
                t.append(extra)
                n += 1
            elif mut == 'dataset-sort_by' and kind == 'dataset' and hasattr(t, 'sort_by'):
                k = _unsorted_key(t.obs_descriptors, t.n_obs)
                if k is None:
                    continue
                t.sort_by(k)
                n += 1
            elif mut == 'array-write' and kind == 'array':
                n += bool(_scribble(t))
        except Exception:
            continue
    return n


def fresh_diffs(case, plan=None):
    """clause 2.  plan = list of (direction, mutator) (default: all).
    -> ('ok', [(label, description)], number of in-place operations applied) | ('not-exercised', reason, 0)"""
    rec0 = recs().get(case['fn'])
    if rec0 is None:
        return 'not-exercised', 'no such callable', 0
    if rec0.qual in MUTATORS or rec0.qual in VIEW_BY_CONTRACT:
        return 'not-exercised', 'in-place operation / view by contract: clause 2 not applicable', 0
    if plan is None:
        plan = [(d, m) for d in ('child', 'parent') for m in MUTS]
    out, applied, done = [], 0, set()
    for direction, mut in plan:
        tmp = tempfile.mkdtemp(prefix='c12_')
        try:
            with _quiet():
                try:
                    rec, args, call = _invoke(case, tmp)
                    result = call()
                except NotExercised as e:
                    return 'not-exercised', str(e), 0
                except Exception as e:
                    return 'not-exercised', f'call raised {type(e).__name__}: {str(e)[:150]}', 0
                if result is None or isinstance(result, (str, bytes, int, float, bool, complex, np.generic)):
                    return 'ok', [], 0       # a number / nothing: cannot be aliased
                if direction == 'child':
                    tg = _targets(result)
                    if not tg:
                        continue
                    before = _fp_args(args)
                    k = _apply(mut, tg)
                    after = _fp_args(args)
                    diffs = [(n, c, d) for n in args for c, d in fp_diff(before[n], after[n])]
                else:
                    tg = _targets(list(args.values()))
                    if not tg:
                        continue
                    before = fp(result)
                    k = _apply(mut, tg)
                    after = fp(result)
                    diffs = [('', c, d) for c, d in fp_diff(before, after)]
                applied += k
            groups = {}
            for n, c, d in diffs:
                groups.setdefault(n, []).append((c, d))
            for n, lst in groups.items():
                verb = 'relabels' if all('descriptors' in (n + c) for c, _ in lst) else 'rewrites'
                if direction == 'child':
                    label = f'{rec.short}:child-{mut}-{verb}-parent.{n}'
                    text = (f'{rec.short}({case["flavour"]},v{case["variant"]}): {mut} on the RESULT changed the argument {n}: '
                            + '; '.join(n + d for _, d in lst[:2]))
                else:
                    label = f'{rec.short}:parent-{mut}-{verb}-child{n}'
                    text = (f'{rec.short}({case["flavour"]},v{case["variant"]}): {mut} on the ARGUMENTS changed the result: '
                            + '; '.join('result' + d for _, d in lst[:2]))
                if label not in done:
                    done.add(label)
                    out.append((label, text))
        finally:
            shutil.rmtree(tmp, ignore_errors=True)
    return 'ok', out, applied


def plan_for(info, thorough):
    """which (direction, mutator) pairs can have an effect, given what the first call showed"""
    res_kinds, arg_kinds, structured, _ = info
    plan = []
    for m in MUTS:
        if MUT_NEEDS[m] in res_kinds:
            plan.append(('child', m))
    for m in MUTS:
        if MUT_NEEDS[m] in arg_kinds:
            # reorder / sort_by / append / dataset-sort_by re-bind the data array of the object they are applied to and
            # write only into its dictionaries: a result made of numbers and arrays only cannot be reached by them
            if m != 'array-write' and not structured and not thorough:
                continue
            if not res_kinds and not structured:
                continue
            plan.append(('parent', m))
    return plan


# =====================================================================================================
# oracles
# =====================================================================================================
def _pick(status, diffs, case):
    if status != 'ok':
        return None
    watch = case.get('watch')
    if watch is not None:
        for label, text in diffs:
            if label == watch:
                return text
        return None
    if diffs:
        return ' || '.join(t for _, t in diffs[:4])
    return None


@oracle('C12/frame')
def orc_frame(case):
    """clause 1: every argument's fingerprint is the same before and after the call.
    case: fn (qualified name below rsatoolbox), flavour, variant, seed [, watch = only this label]"""
    st, diffs, _ = _cached('frame', case, frame_diffs)
    return _pick(st, diffs, case)


@oracle('C12/fresh')
def orc_fresh(case):
    """clause 2: result and arguments are independent under each documented in-place operation / array write.
    case as for C12/frame [, plan = list of [direction, mutator]]"""
    plan = case.get('plan')

    def run(base):
        return fresh_diffs(base, [tuple(x) for x in plan] if plan else None)
    st, diffs, _ = _cached('fresh' + json.dumps(plan), case, run)
    return _pick(st, diffs, case)


@oracle('C12/callable')
def orc_callable(case):
    """non-vacuity: a callable that the pool could call when this tier was written can still be called in some variant"""
    q = case['fn']
    rec = recs().get(q)
    if rec is None:
        return None          # removed from the public interface: nothing to check
    why = []
    for fl in FLAVOURS + QUICK_FLAVOURS:
        for v in range(MAX_VARIANTS if q in SPECS else AUTO_VARIANTS):
            st, d, _ = _cached('frame', dict(fn=q, flavour=fl, variant=v, seed=0), frame_diffs)
            if st == 'ok':
                return None
            if 'no such variant' in d:
                break
            why.append(f'{fl},v{v}: {d}')
    return f'{q} cannot be called with any pool argument any more (clauses 1 and 2 unchecked for it): ' + ' | '.join(why[:3])


@oracle('C12/mean-weights')
def orc_mean_weights(case):
    """RDMs.mean(weights) on partial RDMs: weights array, stored weights descriptor, dissimilarities and descriptors of
    the source unchanged bit for bit; and the value is the NaN-ignoring weighted mean (so the check is not vacuous)."""
    from rsatoolbox.rdm import RDMs
    rs = np.random.RandomState(case['seed'])
    n_rdm, n_cond = case['n_rdm'], case['n_cond']
    n_pair = n_cond * (n_cond - 1) // 2
    d = rs.rand(n_rdm, n_pair) + 0.5
    for r, c in case['nan_at']:
        d[r % n_rdm, c % n_pair] = np.nan
    w = (rs.rand(n_rdm, n_pair) + 0.5)
    for r, c in case.get('w_nan_at', []):
        w[r % n_rdm, c % n_pair] = np.nan
    kind = case['weights']
    if kind == 'f64':
        W = w.copy()
    elif kind == 'f64-fortran':
        W = np.asfortranarray(w)
    elif kind == 'f64-view':
        big = np.zeros((n_rdm, n_pair + 2))
        big[:, 1:-1] = w
        W = big[:, 1:-1]
    elif kind == 'f32':
        W = w.astype(np.float32)
        w = W.astype(float)
    elif kind == 'int':
        W = np.round(w * 4).astype(int) + 1
        w = W.astype(float)
    elif kind == 'none':
        W = None
        w = np.ones_like(d)
    elif kind in ('int16', 'uint8'):                     # dimension sweep: further dtypes, units and containers of the weights
        W = (np.round(w * 4) + 1).astype(kind)
        w = W.astype(float)
    elif kind in ('f64-tiny', 'f64-huge'):
        w = w * (1e-20 if kind == 'f64-tiny' else 1e+9)
        W = w.copy()
    elif kind in ('list', 'tuple'):
        W = [list(r) for r in w.tolist()]
        if kind == 'tuple':
            W = tuple(tuple(r) for r in W)
    else:
        raise ValueError(kind)
    d = d * case.get('unit', 1.0)
    by_name = case['by_name']
    rd = {'subj': [f's{i}' for i in range(n_rdm)]}
    if by_name:
        rd['wts'] = W
    rdms = RDMs(d.copy(), dissimilarity_measure='euclidean', rdm_descriptors=rd,
                pattern_descriptors={'conds': [f'c{i}' for i in range(n_cond)]}, descriptors={'roi': 'V1'})
    before_obj = fp(rdms)
    before_w = fp(W)
    with _quiet():
        res = rdms.mean(weights=('wts' if by_name else W))
        if case.get('twice'):       # the call repeated: clause 1 holds for the later call too, and the held result is not changed by it
            first, held = res, fp(res)
            res = rdms.mean(weights=('wts' if by_name else W))
            if fp(first) != held:
                return 'the second mean(weights) changed the result of the first, held by the caller: ' + \
                    '; '.join(t for _, t in fp_diff(held, fp(first))[:2])
    if fp(W) != before_w:
        return f'mean(weights={"name of rdm_descriptor" if by_name else kind + " array"}) modified the weights: ' + \
            '; '.join(t for _, t in fp_diff(before_w, fp(W))[:2])
    if fp(rdms) != before_obj:
        return 'mean(weights) modified its source: ' + '; '.join(t for _, t in fp_diff(before_obj, fp(rdms))[:2])
    got = np.asarray(res.dissimilarities)
    if got.shape != (1, n_pair):
        return f'mean(weights) returned dissimilarities of shape {got.shape}, expected {(1, n_pair)}'
    has_value = (~np.isnan(d * w)).any(axis=0)
    if not np.isfinite(got[0][has_value]).all():      # guards against a vacuous call only (the value itself is C13's)
        return f'mean(weights) is not finite where at least one RDM has a value and a weight: {got[0]}'
    return None


# callables of the unchanged tree that cannot be called successfully with any pool argument, with the reason
EXPECT_NOT_CALLABLE = {
    'data.base.DatasetBase.__eq__': 'abstract: raises NotImplementedError',
    'data.base.DatasetBase.copy': 'abstract: raises NotImplementedError',
    'data.base.DatasetBase.split_obs': 'abstract: raises NotImplementedError',
    'data.base.DatasetBase.split_channel': 'abstract: raises NotImplementedError',
    'data.base.DatasetBase.subset_obs': 'abstract: raises NotImplementedError',
    'data.base.DatasetBase.subset_channel': 'abstract: raises NotImplementedError',
    'model.model.Model.predict': 'abstract: raises NotImplementedError',
    'model.model.Model.predict_rdm': 'abstract: raises NotImplementedError',
    'util.vis_utils.Weighted_MDS.fit': 'installed scikit-learn has no BaseEstimator._validate_data (AttributeError)',
    'util.vis_utils.Weighted_MDS.fit_transform': 'installed scikit-learn has no BaseEstimator._validate_data (AttributeError)',
}

# the callables discovered when this tier was written; one of THESE that can no longer be called with any pool argument is
# reported (C12/callable); a callable not in this list is NEW: swept with the default recipe, a note if the pool cannot call it
KNOWN_CALLABLES = set("""
data.base.DatasetBase.__eq__ data.base.DatasetBase.__init__ data.base.DatasetBase.__repr__
data.base.DatasetBase.__str__ data.base.DatasetBase.copy data.base.DatasetBase.save
data.base.DatasetBase.split_channel data.base.DatasetBase.split_obs data.base.DatasetBase.subset_channel
data.base.DatasetBase.subset_obs data.base.DatasetBase.to_dict data.computations.average_dataset
data.computations.average_dataset_by data.dataset.Dataset.__eq__ data.dataset.Dataset.copy
data.dataset.Dataset.from_df data.dataset.Dataset.get_measurements data.dataset.Dataset.get_measurements_tensor
data.dataset.Dataset.nested_odd_even_split data.dataset.Dataset.odd_even_split data.dataset.Dataset.sort_by
data.dataset.Dataset.split_channel data.dataset.Dataset.split_obs data.dataset.Dataset.subset_channel
data.dataset.Dataset.subset_obs data.dataset.Dataset.to_df data.dataset.TemporalDataset.__eq__
data.dataset.TemporalDataset.__init__ data.dataset.TemporalDataset.__str__ data.dataset.TemporalDataset.bin_time
data.dataset.TemporalDataset.convert_to_dataset data.dataset.TemporalDataset.copy
data.dataset.TemporalDataset.sort_by data.dataset.TemporalDataset.split_channel
data.dataset.TemporalDataset.split_obs data.dataset.TemporalDataset.split_time
data.dataset.TemporalDataset.subset_channel data.dataset.TemporalDataset.subset_obs
data.dataset.TemporalDataset.subset_time data.dataset.TemporalDataset.time_as_channels
data.dataset.TemporalDataset.time_as_observations data.dataset.TemporalDataset.to_dict
data.dataset.dataset_from_dict data.dataset.load_dataset data.dataset.merge_subsets data.noise.cov_from_measurements
data.noise.cov_from_residuals data.noise.cov_from_unbalanced data.noise.prec_from_measurements
data.noise.prec_from_residuals data.noise.prec_from_unbalanced data.ops.merge_datasets
inference.boot_testset.bootstrap_testset inference.boot_testset.bootstrap_testset_pattern
inference.boot_testset.bootstrap_testset_rdm inference.bootstrap.bootstrap_sample
inference.bootstrap.bootstrap_sample_pattern inference.bootstrap.bootstrap_sample_rdm
inference.crossvalsets.sets_k_fold inference.crossvalsets.sets_k_fold_pattern inference.crossvalsets.sets_k_fold_rdm
inference.crossvalsets.sets_leave_one_out_pattern inference.crossvalsets.sets_leave_one_out_rdm
inference.crossvalsets.sets_of_k_pattern inference.crossvalsets.sets_of_k_rdm inference.crossvalsets.sets_random
inference.evaluate.bootstrap_crossval inference.evaluate.crossval inference.evaluate.eval_bootstrap
inference.evaluate.eval_bootstrap_pattern inference.evaluate.eval_bootstrap_rdm
inference.evaluate.eval_dual_bootstrap inference.evaluate.eval_dual_bootstrap_random inference.evaluate.eval_fixed
inference.noise_ceiling.boot_noise_ceiling inference.noise_ceiling.cv_noise_ceiling inference.result.Result.__init__
inference.result.Result.__repr__ inference.result.Result.__str__ inference.result.Result.get_ci
inference.result.Result.get_errorbars inference.result.Result.get_means inference.result.Result.get_model_var
inference.result.Result.get_noise_ceil inference.result.Result.get_sem inference.result.Result.save
inference.result.Result.summary inference.result.Result.test_all inference.result.Result.test_noise
inference.result.Result.test_pairwise inference.result.Result.test_zero inference.result.Result.to_dict
inference.result.load_results inference.result.result_from_dict model.fitter.Fitter.__call__
model.fitter.Fitter.__init__ model.fitter.fit_interpolate model.fitter.fit_mock model.fitter.fit_optimize
model.fitter.fit_optimize_positive model.fitter.fit_regress model.fitter.fit_regress_nn model.fitter.fit_select
model.model.Model.__init__ model.model.Model.fit model.model.Model.predict model.model.Model.predict_rdm
model.model.Model.to_dict model.model.ModelFixed.__init__ model.model.ModelFixed.predict
model.model.ModelFixed.predict_rdm model.model.ModelInterpolate.__init__ model.model.ModelInterpolate.predict
model.model.ModelInterpolate.predict_rdm model.model.ModelSelect.__init__ model.model.ModelSelect.predict
model.model.ModelSelect.predict_rdm model.model.ModelWeighted.__init__ model.model.ModelWeighted.predict
model.model.ModelWeighted.predict_rdm model.model.model_from_dict model.model_family.ModelFamily.__init__
model.model_family.ModelFamily.get_all_family_members model.model_family.ModelFamily.get_family_member
rdm.calc.calc_rdm rdm.calc.calc_rdm_correlation rdm.calc.calc_rdm_crossnobis rdm.calc.calc_rdm_euclidean
rdm.calc.calc_rdm_mahalanobis rdm.calc.calc_rdm_movie rdm.calc.calc_rdm_poisson rdm.calc.calc_rdm_poisson_cv
rdm.calc_unbalanced.calc_one_similarity rdm.calc_unbalanced.calc_rdm_unbalanced rdm.calc_unbalanced.ensure_double
rdm.combine.from_partials rdm.combine.rescale rdm.compare.compare rdm.compare.compare_bures_metric
rdm.compare.compare_bures_similarity rdm.compare.compare_correlation rdm.compare.compare_correlation_cov_weighted
rdm.compare.compare_cosine rdm.compare.compare_cosine_cov_weighted rdm.compare.compare_kendall_tau
rdm.compare.compare_kendall_tau_a rdm.compare.compare_neg_riemannian_distance rdm.compare.compare_rho_a
rdm.compare.compare_spearman rdm.pairs.pairs_by_percentile rdm.rdms.RDMs.__eq__ rdm.rdms.RDMs.__getitem__
rdm.rdms.RDMs.__init__ rdm.rdms.RDMs.__len__ rdm.rdms.RDMs.__repr__ rdm.rdms.RDMs.__str__ rdm.rdms.RDMs.append
rdm.rdms.RDMs.copy rdm.rdms.RDMs.get_matrices rdm.rdms.RDMs.get_vectors rdm.rdms.RDMs.mean rdm.rdms.RDMs.reorder
rdm.rdms.RDMs.save rdm.rdms.RDMs.sort_by rdm.rdms.RDMs.subsample rdm.rdms.RDMs.subsample_pattern
rdm.rdms.RDMs.subset rdm.rdms.RDMs.subset_pattern rdm.rdms.RDMs.to_df rdm.rdms.RDMs.to_dict rdm.rdms.concat
rdm.rdms.get_categorical_rdm rdm.rdms.inverse_permute_rdms rdm.rdms.load_rdm rdm.rdms.permute_rdms
rdm.rdms.rdms_from_dict rdm.transform.geodesic_transform rdm.transform.geotopological_transform
rdm.transform.minmax_transform rdm.transform.positive_transform rdm.transform.rank_transform
rdm.transform.sqrt_transform rdm.transform.transform util.data_utils.extract_dict util.data_utils.get_unique_inverse
util.data_utils.get_unique_unsorted util.descriptor_utils.append_descriptor util.descriptor_utils.bool_index
util.descriptor_utils.check_descriptor_length util.descriptor_utils.check_descriptor_length_error
util.descriptor_utils.desc_eq util.descriptor_utils.dict_to_list util.descriptor_utils.format_descriptor
util.descriptor_utils.num_index util.descriptor_utils.parse_input_descriptor util.descriptor_utils.subset_descriptor
util.file_io.remove_file util.inference_util.all_tests util.inference_util.bootstrap_pair_tests
util.inference_util.default_k_pattern util.inference_util.default_k_rdm util.inference_util.extract_variances
util.inference_util.get_errorbars util.inference_util.input_check_model util.inference_util.nc_tests
util.inference_util.pair_tests util.inference_util.pool_rdm util.inference_util.ranksum_pair_test
util.inference_util.ranksum_value_test util.inference_util.t_test_0 util.inference_util.t_test_nc
util.inference_util.t_tests util.inference_util.zero_tests util.matrix.centering util.matrix.get_v
util.matrix.indicator util.matrix.pairwise_contrast util.matrix.pairwise_contrast_sparse
util.matrix.row_col_indicator_g util.matrix.row_col_indicator_rdm util.matrix.run
util.matrix.square_between_category_binary_mask util.matrix.square_category_binary_mask util.pooling.pool_rdm
util.rdm_utils.add_pattern_index util.rdm_utils.batch_to_matrices util.rdm_utils.batch_to_vectors
util.rdm_utils.category_condition_idxs util.searchlight.evaluate_models_searchlight
util.searchlight.get_searchlight_RDMs util.searchlight.get_volume_searchlight util.vis_utils.Weighted_MDS.__init__
util.vis_utils.Weighted_MDS.fit util.vis_utils.Weighted_MDS.fit_transform util.vis_utils.smacof
util.vis_utils.weight_to_matrices
""".split())

# expensive callables: in the quick tier one flavour and the first two variants only
SLOW = {'inference.evaluate.eval_dual_bootstrap', 'inference.evaluate.crossval', 'inference.boot_testset.bootstrap_testset_rdm',
        'inference.boot_testset.bootstrap_testset', 'inference.boot_testset.bootstrap_testset_pattern',
        'model.fitter.fit_optimize', 'model.fitter.fit_optimize_positive', 'rdm.compare.compare_neg_riemannian_distance',
        'model.model.Model.fit', 'inference.evaluate.eval_dual_bootstrap_random', 'inference.evaluate.bootstrap_crossval'}


def _flavours(rec, thorough):
    if thorough:
        return FLAVOURS
    if rec.qual in SLOW:
        return ('array',)
    return QUICK_FLAVOURS


def sweep(thorough, visit, only=None):
    """enumerate the cases of the sweep; visit(rec, case, status, frame result, fresh result)"""
    exercised = {}
    for q, rec in recs().items():
        if only and only not in q:
            continue
        exercised.setdefault(q, 0)
        nv = MAX_VARIANTS if q in SPECS else AUTO_VARIANTS
        if not thorough and q in SLOW:
            nv = min(nv, 2)
        why = set()
        for seed in ((0, 1) if thorough else (0,)):
            for fl in _flavours(rec, thorough):
                for v in range(nv):
                    if not thorough and q == 'rdm.compare.compare' and COMPARE_METHODS[min(v, 10)] == 'neg_riem_dist' and fl != 'array':
                        continue
                    case = dict(fn=q, flavour=fl, variant=v, seed=seed)
                    st, diffs, info = _cached('frame', case, frame_diffs)
                    if st != 'ok':
                        if 'no such variant' in diffs:
                            break
                        why.add(diffs)
                        continue
                    exercised[q] += 1
                    plan = plan_for(info, thorough)
                    fr = None
                    if plan and q not in MUTATORS and q not in VIEW_BY_CONTRACT:
                        pl = [list(x) for x in plan]
                        fr = (pl,) + _cached('fresh' + json.dumps(pl), case, lambda b: fresh_diffs(b, plan))
                    visit(rec, case, diffs, fr)
        if not exercised[q]:
            exercised[q] = -1
            visit(rec, None, sorted(why), None)
    return exercised


def dim_plan(rec, thorough):
    """the (flavour, variant, both clauses?) triples of the dimension sweep for one callable.
    thorough: every flavour x every variant (two variants for the expensive callables), clauses 1 and 2.
    quick: ONE case per family with both clauses -- the flavour of the family and the variant rotate with the callable (crc
    of its name), so that every callable meets every family and every flavour / variant is met by a share of the callables;
    typed: one integer dtype and float32; sequence: the second flavour with clause 1 only; for the families typed / units /
    containers the other variants of that flavour too, clause 1 only (one call each); typed / units / sizes: clause 2 with the
    array write only.  The quick tier SAMPLES the dimension sweep, thorough is complete."""
    import zlib
    q = rec.qual
    nv = MAX_VARIANTS if q in SPECS else AUTO_VARIANTS
    save = 'filename' in inspect.signature(rec.func).parameters and rec.name == 'save'
    if thorough:
        if q in SLOW:
            nv = min(nv, 2)
        return [(fl, v, True) for fl in DIM_FLAVOURS for v in range(nv) if fl != 'exists' or save]
    i = zlib.crc32(q.encode())
    plan = []
    for j, fam in enumerate(FAMILIES):
        fls = [f for f in DIM_FLAVOURS if DIM_FLAVOURS[f] == fam]
        if fam in ('outfile', 'hashseed'):
            if save and fam == 'outfile':
                plan += [('exists', 2, True), ('exists', 3, True)]
            continue
        if q in SLOW and (i + j) % 3:
            continue
        fl, v0 = fls[(i // 7 + j) % len(fls)], (i // 3 + j) % 3
        if fam == 'typed':          # an integer dtype (rotating) AND float32
            fl = fls[(i // 7 + j) % 3]
        plan.append((fl, v0, True))
        if fam in ('typed', 'units', 'containers') and q in SPECS and q not in SLOW:
            plan += [(fl, v, False) for v in range(min(nv, 6)) if v != v0]
        if fam == 'typed' and q not in SLOW:
            plan.append(('f32', (v0 + 1) % 3, True))
        if fam == 'sequence' and q not in SLOW:      # the other kind of earlier call: clause 1 and the held result / arguments
            plan.append((fls[(i // 7 + j + 1) % len(fls)], v0, False))
    return plan


def dim_sweep(thorough, visit, only=None, flavours=None):
    """the dimension sweep: as `sweep`, over the flavours of DIM_FLAVOURS (seed 0)"""
    n_ok = {}
    for q, rec in recs().items():
        if only and only not in q:
            continue
        dead = set()
        tried = set()
        for fl, v, both in dim_plan(rec, thorough):
            if fl in dead or (flavours and fl not in flavours):
                continue
            case = dict(fn=q, flavour=fl, variant=v, seed=0)
            st, diffs, info = _cached('frame', case, frame_diffs)
            if st != 'ok' and both and not thorough and v:      # quick: this variant does not exist / is rejected -> the first one
                case = dict(fn=q, flavour=fl, variant=0, seed=0)
                st, diffs, info = _cached('frame', case, frame_diffs)
            if (fl, case['variant']) in tried:
                continue
            tried.add((fl, case['variant']))
            if st != 'ok':
                if 'no such variant' in diffs:
                    dead.add(fl)
                continue
            n_ok[fl] = n_ok.get(fl, 0) + 1
            plan = plan_for(info, thorough) if both else []
            if not thorough and DIM_FLAVOURS[fl] in ('typed', 'units', 'sizes'):
                # quick: dtype / unit / size of the DATA: sharing of the data arrays (array-write); the in-place operations
                # on the dictionaries go with the container / group / sequence families
                plan = [x for x in plan if x[1] == 'array-write']
            fr = None
            if plan and q not in MUTATORS and q not in VIEW_BY_CONTRACT:
                pl = [list(x) for x in plan]
                fr = (pl,) + _cached('fresh' + json.dumps(pl), case, lambda b: fresh_diffs(b, plan))
            visit(rec, case, diffs, fr)
    return n_ok


# ---- another PYTHONHASHSEED ------------------------------------------------------------------------------
_HASH = {}


def _hash_key(case):
    return json.dumps(_base(case), sort_keys=True)


def _hash_child():
    """runs in the NEW interpreter: stdin = {quals: [...] | null, cases: [...] | null}; stdout = one JSON line"""
    import sys
    req = json.loads(sys.stdin.read())
    out = []

    def one(case):
        st, diffs, info = frame_diffs(case)
        rec = dict(case=case, status=st, frame=diffs if st == 'ok' else [], why=None if st == 'ok' else diffs, plan=None, fresh=[],
                   applied=0)
        q = case['fn']
        if st == 'ok' and q not in MUTATORS and q not in VIEW_BY_CONTRACT:
            plan = plan_for(info, False)
            if plan:
                fs, fd, k = fresh_diffs(case, plan)
                rec.update(plan=[list(x) for x in plan], fresh=fd if fs == 'ok' else [], applied=k)
        out.append(rec)
        return rec
    for case in req.get('cases') or []:
        one(_base(case))
    for q in req.get('quals') or []:
        r = recs().get(q)
        if r is None:
            continue
        nv = MAX_VARIANTS if q in SPECS else AUTO_VARIANTS
        if q in SLOW:
            nv = min(nv, 2)
        for fl in (('array',) if q in SLOW else ('array', 'negnan')):
            for v in range(nv):
                rec = one(dict(fn=q, flavour=fl, variant=v, seed=0))
                if rec['status'] != 'ok' and 'no such variant' in str(rec['why']):
                    out.pop()
                    break
    sys.stdout.write('\n@@C12HASH@@' + json.dumps(dict(hashseed=os.environ.get('PYTHONHASHSEED'), records=out), default=str) + '\n')


def _hash_start(quals=None, cases=None, hashseed=HASHSEED):
    """start a new interpreter with PYTHONHASHSEED=hashseed that runs the cases (it works while this process goes on)"""
    import subprocess
    import sys
    env = dict(os.environ, PYTHONHASHSEED=str(hashseed), MPLBACKEND='Agg', PYTHONDONTWRITEBYTECODE='1',
               PYTHONPATH=os.pathsep.join(p for p in sys.path if p))
    req = tempfile.TemporaryFile('w+')
    req.write(json.dumps(dict(quals=quals, cases=cases)))
    req.seek(0)
    out = tempfile.TemporaryFile('w+')
    pr = subprocess.Popen([sys.executable, '-c', 'import contracts.C12_c as m; m._hash_child()'], env=env, text=True,
                          stdin=req, stdout=out, stderr=subprocess.PIPE)
    return pr, req, out, hashseed


def _hash_run(quals=None, cases=None, hashseed=HASHSEED, started=None):
    """run the cases in a new interpreter with PYTHONHASHSEED=hashseed; fills _HASH; -> number of records"""
    pr, req, out, hashseed = started or _hash_start(quals, cases, hashseed)
    try:
        _, err = pr.communicate(timeout=1500)
        out.seek(0)
        stdout = out.read()
    finally:
        req.close()
        out.close()
    tail = [ln for ln in stdout.split('\n') if ln.startswith('@@C12HASH@@')]
    if pr.returncode != 0 or not tail:
        raise RuntimeError(f'interpreter with PYTHONHASHSEED={hashseed} failed (rc={pr.returncode}): {err[-400:]}')
    data = json.loads(tail[-1][len('@@C12HASH@@'):])
    if str(data['hashseed']) != str(hashseed):
        raise RuntimeError('the new interpreter did not run under the requested hash seed')
    for r in data['records']:
        _HASH[(hashseed, _hash_key(r['case']))] = r
    return len(data['records'])


@oracle('C12/hashseed')
def orc_hashseed(case):
    """clauses 1 and 2 in a NEW interpreter started with PYTHONHASHSEED = case['hashseed'] (set iteration order differs).
    case: fn, flavour, variant, seed, hashseed, clause = 'frame' | 'fresh' [, watch = only this label]"""
    key = (case['hashseed'], _hash_key(case))
    if key not in _HASH:
        _hash_run(cases=[_base(case)], hashseed=case['hashseed'])
    r = _HASH[key]
    return _pick(r['status'], [tuple(x) for x in r[case['clause']]], case)


# ---- pending triage --------------------------------------------------------------------------------------
# Failures of the dimension sweep on the UNCHANGED tree.  Every case of the dimension sweep is registered under its own input class
# '<label>@<family>' (never under a key of the base sweep).  Registrations listed here are skipped -- the equivalent of
# `if False:  # pending triage: <class>` for a discovered sweep -- until the main session has repaired or recorded them;
# the number of skipped registrations is stated in the domain string of the run.  label -> codes of the families
# (T typed, U units, C containers, G groups, S sizes, Q sequence, O outfile, H hashseed) in which it was observed.
# After triage (main session): nothing is skipped any more.  The nine new kinds were repaired in /repo (850dfad5: rows of
# vector-valued descriptors are copied by subsets / resamples / from_partials; 6fc088e3: extract_variances works on a copy); the
# re-observations of the open base findings in the families of the dimension sweep are listed in known_findings.json under
# '<obligation>|<label>@*' (same callable, argument and in-place operation as the base entry '<obligation>|<label>').
PENDING_NEW = {}
PENDING_REOBSERVED = {}


def _pending(label, family):
    c = FAMILY_CODE[family]
    return c in PENDING_NEW.get(label, '') or c in PENDING_REOBSERVED.get(label, '')


def tier_c_dims(run, thorough):
    """the dimension sweep (DIM_FLAVOURS + another hash seed): clauses 1 and 2 under '<label>@<family>' input classes"""
    bf = Bounded(run, 'C12/frame-dims', 'C12/frame/oracle/arguments-unchanged', '', function='every discovered public callable')
    bi = Bounded(run, 'C12/fresh-dims', 'C12/fresh/oracle/result-source-independent', '', function='every discovered public callable')
    skipped = {}
    n_ops = [0]

    def register(rec, case, diffs, fr, fam, frame_orc, fresh_orc):
        if fam == 'hashseed':
            case = dict(case, clause='frame')
        if not diffs:
            bf.check(frame_orc, case, 'unchanged@' + fam, function=rec.qual)
        for label, _ in diffs:
            if _pending(label, fam):      # pending triage: <label>@<fam>
                skipped[f'{label}@{fam}'] = skipped.get(f'{label}@{fam}', 0) + 1
                continue
            bf.check(frame_orc, dict(case, watch=label), f'{label}@{fam}', function=rec.qual)
        if fr is not None:
            pl, st, fd, k = fr
            n_ops[0] += k
            c2 = dict(case, plan=pl)
            if fam == 'hashseed':
                c2['clause'] = 'fresh'
            if st == 'ok' and not fd:
                bi.check(fresh_orc, c2, 'independent@' + fam, nontrivial=bool(k), function=rec.qual)
            for label, _ in (fd if st == 'ok' else []):
                if _pending(label, fam):  # pending triage: <label>@<fam>
                    skipped[f'{label}@{fam}'] = skipped.get(f'{label}@{fam}', 0) + 1
                    continue
                bi.check(fresh_orc, dict(c2, watch=label), f'{label}@{fam}', function=rec.qual)

    def visit(rec, case, diffs, fr):
        register(rec, case, diffs, fr, DIM_FLAVOURS[case['flavour']], orc_frame, orc_fresh)
    # another hash seed, in a new interpreter (started now, it works while this process runs the pool flavours)
    quals = sorted(recs()) if thorough else [q for q in HASH_QUICK if q in recs()]
    started = _hash_start(quals=quals)
    try:
        n_ok = dim_sweep(thorough, visit)
    except BaseException:
        started[0].kill()
        raise
    n_hash = _hash_run(started=started)
    for (hs, _), r in sorted(_HASH.items()):
        if hs != HASHSEED or r['status'] != 'ok' or r['case']['fn'] not in recs():
            continue
        case = dict(r['case'], hashseed=hs)
        fr = None if r['plan'] is None else (r['plan'], 'ok', [tuple(x) for x in r['fresh']], r['applied'])
        register(recs()[r['case']['fn']], case, [tuple(x) for x in r['frame']], fr, 'hashseed', orc_hashseed, orc_hashseed)
    dom = ('dimension sweep, seed 0: pool flavours ' + ', '.join(f'{fl} ({n_ok.get(fl, 0)} calls)' for fl in DIM_FLAVOURS)
           + (' x every argument variant' if thorough else '; quick: per callable ONE (flavour, variant) per family, rotating with the '
              'name of the callable') + f'; new interpreter with PYTHONHASHSEED={HASHSEED}: '
           + ('every callable' if thorough else f'{len(quals)} callables that iterate over sets of names') + f' ({n_hash} calls), '
           'flavours array / negnan; input classes <label>@<family>')
    if skipped:
        dom += (f'; PENDING TRIAGE: {sum(skipped.values())} failing registrations of {len(skipped)} input classes skipped '
                f'(PENDING_NEW / PENDING_REOBSERVED in contracts/C12_c.py)')
        run.notes.append(f'C12 tier C, dimension sweep: {len(skipped)} failing input classes are pending triage and were NOT '
                         f'registered ({sum(skipped.values())} cases); see PENDING_NEW / PENDING_REOBSERVED in contracts/C12_c.py')
    bf.domain = dom
    bi.domain = dom + f'; in-place operations {list(MUTS)} ({n_ops[0]} applications)'
    bf.done()
    bi.done()
    return [bf, bi]


def tier_c(run, thorough):
    bds = []
    n_rec = len(recs())
    bf = Bounded(run, 'C12/frame', 'C12/frame/oracle/arguments-unchanged', '', function='every discovered public callable')
    bi = Bounded(run, 'C12/fresh', 'C12/fresh/oracle/result-source-independent', '', function='every discovered public callable')
    not_called = {}
    n_ops = [0]

    def visit(rec, case, diffs, fr):
        if case is None:
            not_called[rec.qual] = diffs
            return
        if not diffs:
            bf.check(orc_frame, case, 'unchanged', function=rec.qual)
        for label, _ in diffs:
            bf.check(orc_frame, dict(case, watch=label), label, function=rec.qual)
        if fr is not None:
            pl, st, fd, k = fr
            n_ops[0] += k
            c2 = dict(case, plan=pl)
            if st == 'ok' and not fd:
                bi.check(orc_fresh, c2, 'independent', nontrivial=bool(k), function=rec.qual)
            for label, _ in (fd if st == 'ok' else []):
                bi.check(orc_fresh, dict(c2, watch=label), label, function=rec.qual)
    ex = sweep(thorough, visit)
    unexpected = sorted(q for q in not_called if q not in EXPECT_NOT_CALLABLE)
    n_ok = sum(1 for v in ex.values() if v > 0)
    dom = (f'{n_rec} public callables discovered by introspection of rsatoolbox.{{{",".join(PACKAGES)}}}; {n_ok} called successfully with '
           f'pool arguments ({sum(v for v in ex.values() if v > 0)} calls), {len(not_called)} never callable '
           f'({len(not_called) - len(unexpected)} abstract / environment, listed in EXPECT_NOT_CALLABLE'
           + (f'; NOT COVERED new callables: {unexpected}' if unexpected else '') + '); pool: RDMs 4x5 (5x7 for inference) / Dataset 8x5 / '
           f'TemporalDataset 6x3x4 / 4 model classes / Result / arrays, flavours {list(FLAVOURS) if thorough else list(QUICK_FLAVOURS)} '
           f'(list- vs ndarray-valued descriptors, negative values, NaN pairs, no descriptors), <= {MAX_VARIANTS} argument variants per '
           f'callable, seeds {"0,1" if thorough else "0"}')
    bf.domain = dom
    bi.domain = dom + f'; in-place operations {list(MUTS)} applied to result and to arguments on a fresh call each ({n_ops[0]} applications)'
    bc = Bounded(run, 'C12/callable', 'C12/sweep/oracle/pool-can-call', f'the {len(KNOWN_CALLABLES)} callables known when the tier was '
                 f'written minus {len(EXPECT_NOT_CALLABLE)} abstract / environment-broken ones: callable with some pool variant',
                 exhaustive=True, function='every discovered public callable')
    for q in sorted(KNOWN_CALLABLES - set(EXPECT_NOT_CALLABLE)):
        if q in recs() and ex.get(q, 0) > 0:
            bc.evals += 1
            bc.keys.add(q)
            continue
        bc.check(orc_callable, dict(fn=q), 'no-longer-callable', function=q)
    bc.done()
    bds.append(bc)
    unexpected = [q for q in unexpected if q not in KNOWN_CALLABLES]
    for q in unexpected:
        run.notes.append(f'C12 tier C: discovered callable {q} could not be called with pool arguments: {not_called[q][:2]}')
    bf.done()
    bi.done()
    bds += [bf, bi]

    bm = Bounded(run, 'C12/mean-weights', 'C12/RDMs.mean/oracle/weights-unchanged',
                 'RDMs.mean on 2..3 RDMs x 3..4 conditions; every placement of 1 NaN pair (+ a second fixed one) ; weights None / '
                 'float64 C / Fortran / view / float32 / int, given as array or as name of an rdm_descriptor; weights with and '
                 'without own NaNs; dimension sweep (classes dim-weights-*): weights int16 / uint8 / scaled by 1e-20, 1e+9 / nested '
                 'list / nested tuple, dissimilarities scaled by 1e-20, 1e+9, 1 and 7 RDMs, the call made twice',
                 exhaustive=True, function='RDMs.mean')
    for n_rdm, n_cond in ((2, 3), (3, 4)) if not thorough else ((2, 3), (3, 4), (2, 5)):
        n_pair = n_cond * (n_cond - 1) // 2
        for r in range(n_rdm):
            for c in range(n_pair):
                for kind in ('none', 'f64', 'f64-fortran', 'f64-view', 'f32', 'int'):
                    for by_name in (False, True):
                        if kind == 'none' and by_name:
                            continue
                        for wn in ([], [[r, c]], [[r + 1, c + 1]]):
                            if wn and kind in ('none', 'int'):
                                continue
                            case = dict(seed=7 + r, n_rdm=n_rdm, n_cond=n_cond, nan_at=[[r, c], [0, 1]], weights=kind,
                                        by_name=by_name, w_nan_at=wn)
                            bm.check(orc_mean_weights, case, 'weights-' + kind + ('-by-name' if by_name else ''), function='RDMs.mean')
    # dimension sweep: dtype / unit / container of the weights, unit of the dissimilarities, a single RDM, the call repeated
    for n_rdm, n_cond in ((1, 3), (2, 3), (3, 4)) if not thorough else ((1, 3), (2, 3), (3, 4), (1, 5), (2, 5), (7, 4)):
        n_pair = n_cond * (n_cond - 1) // 2
        for r in range(n_rdm if thorough else 1):
            for c in range(n_pair):
                for kind in ('int16', 'uint8', 'f64-tiny', 'f64-huge', 'list', 'tuple', 'f64', 'none'):
                    for by_name in (False, True):
                        for unit, twice in ((1.0, False), (1e-20, False), (1e+9, False), (1.0, True)):
                            if kind in ('f64', 'none') and unit == 1.0 and not twice and n_rdm in (2, 3) and n_cond < 5:
                                continue       # a case of the base domain above
                            if (kind == 'none' and by_name) or (kind in ('tuple',) and by_name and unit != 1.0):
                                continue
                            case = dict(seed=11 + r, n_rdm=n_rdm, n_cond=n_cond, nan_at=[[r, c], [0, 1]], weights=kind,
                                        by_name=by_name, w_nan_at=[], unit=unit, twice=twice)
                            cls = ('dim-weights-' + kind + ('-by-name' if by_name else '') + ('-single-rdm' if n_rdm == 1 else '')
                                   + ('-twice' if twice else '') + ('' if unit == 1.0 else '-unit%g' % unit))
                            bm.check(orc_mean_weights, case, cls, function='RDMs.mean')
    bm.done()
    bds.append(bm)
    bds += tier_c_dims(run, thorough)
    return bds


def replay(path):
    return replay_file(path)


def dev_survey(thorough=False, only=None):
    """development helper: which callables can be exercised, which labels appear"""
    labels = {}

    def visit(rec, case, diffs, fr):
        if case is None:
            print('NOT CALLED', rec.qual, diffs[:3])
            return
        for label, text in diffs:
            labels.setdefault(label, text)
        if fr is not None and fr[1] == 'ok':
            for label, text in fr[2]:
                labels.setdefault(label, text)
    ex = sweep(thorough, visit, only)
    for k, v in sorted(labels.items()):
        print(k, '\n      ', v[:300])
    print(len(labels), 'labels;', sum(1 for v in ex.values() if v > 0), 'exercised of', len(ex))


def dev_dim_survey(thorough=True, only=None, flavours=None, out=None):
    """development helper: labels per dimension flavour -> dict flavour -> {label: text}"""
    import time
    labels = {}

    def visit(rec, case, diffs, fr):
        d = labels.setdefault(case['flavour'], {})
        for label, text in diffs:
            d.setdefault(label, text)
        if fr is not None and fr[1] == 'ok':
            for label, text in fr[2]:
                d.setdefault(label, text)
    t0 = time.time()
    n_ok = dim_sweep(thorough, visit, only, flavours)
    print('calls per flavour', n_ok, f'{time.time() - t0:.1f}s')
    if out:
        with open(out, 'w') as f:
            json.dump(labels, f, indent=1, sort_keys=True)
    return labels


def dev_pending(thorough=True):
    """development helper: which '<label>@<family>' classes fail on this tree -> {label: family codes}.
    (This is how PENDING_NEW / PENDING_REOBSERVED were produced on the unchanged tree: thorough and quick run, union.)"""
    seen = {}

    class _B:       # stands in for Bounded: records the input class of every failing registration, pending or not
        def __init__(self, *a, **k):
            self.domain = ''

        def check(self, orc, case, input_class=None, nontrivial=True, function=None):
            if case.get('watch') is not None:
                label, fam = input_class.rsplit('@', 1)
                seen.setdefault(label, set()).add(FAMILY_CODE[fam])

        def done(self):
            pass

    class _R:
        notes = []
    g = globals()
    keep = g['Bounded'], g['_pending']
    g['Bounded'], g['_pending'] = _B, (lambda label, fam: False)
    try:
        tier_c_dims(_R(), thorough)
    finally:
        g['Bounded'], g['_pending'] = keep
    order = ''.join(FAMILY_CODE[f] for f in FAMILIES)
    return {k: ''.join(c for c in order if c in v) for k, v in sorted(seen.items())}
