"""C18 -- bounded run-time tier ("tier C"): simulated data reproduce the generating model's RDM.

Real functions exercised: rsatoolbox.simulation.sim.make_design / make_dataset (and through it make_signal),
rsatoolbox.util.matrix.indicator, rsatoolbox.rdm.calc_rdm(method='euclidean'), Model*.predict.
Every expected value is computed here from the property statement with explicit loops (squared distances of the
generating point set, per-condition means, pair counting); repo code is never asked for an expected value.

Clause of the property                                                   oracle
----------------------------------------------------------------------  --------------------------------------------
exact signal + zero noise + no signal channel covariance + n_channel    orc_exact_rdm (tolerance 1e-4 relative to the
>= n_cond + Euclidean-embeddable model RDM  =>  squared-Euclidean RDM   largest target distance; catches every
by condition (calc_rdm AND a loop re-computation from the raw           structural breakage: scaling, factorisation,
measurements) = signal * model.predict(theta); for condition vector     assignment of patterns to conditions ...)
(make_design order, shuffled, unbalanced, arbitrary labels) or explicit
indicator design matrix; all n_part, n_sim, signal, model classes
(ModelFixed from vector / matrix / RDMs, ModelWeighted with theta and
with theta=None, ModelSelect); noise channel covariance present or not
(irrelevant at zero noise)
the same through calc_rdm for a model with a parameter VECTOR            orc_exact_rdm with via='calc_rdm', domain
(ModelWeighted, theta of length 3)                                      C18/exact-rdm-theta-vector (FAILS on the
                                                                        unchanged tree: calc_rdm raises; finding 2 in
                                                                        C18_findings.md, input_class 'theta-vector';
                                                                        the measurements of these models are checked
                                                                        by the loop re-computation in C18/exact-rdm)
the same equality to rounding level (DESIGN: rel. tol 1e-8)             orc_exact_precision  (FAILS on the unchanged
                                                                        tree: finding 1 in C18_findings.md,
                                                                        input_class 'exact-signal-precision')
design vectors list every condition exactly once per partition          orc_design (exhaustive over small sizes)
design / indicator matrices: one column per unique value                orc_indicator (exhaustive over small label seqs)
each dataset carries the condition vector and the simulation            orc_descriptors (all option combinations, also
parameters (signal, noise, model name, theta) as descriptors            outside the exact-RDM premises; the cond_vec
                                                                        descriptor is demanded for 1-D condition
                                                                        vectors only, not for design-matrix input)
same-signal option reuses ONE signal across simulations, the default    orc_same_signal (zero noise: identical /
draws a fresh one per simulation                                        pairwise different measurements; with noise:
                                                                        signal part isolated by a same-seed run with
                                                                        signal=0)
noise term additive; scales with sqrt(requested noise variance);        orc_noise (same-seed runs differing only in
holds for every noise channel covariance                                signal or noise value; data - noise term has
                                                                        the exact RDM; variance level of i.i.d. noise
                                                                        checked statistically, 15 % band, N >= 4000)

Dimension sweeps (function _sweeps; the same oracles on inputs that vary along further dimensions, plus two oracles)
----------------------------------------------------------------------------------------------------------------------
typed data         model RDM stored as int64 / int32 / uint8 / int16 / float32 (integer point sets, so the stored numbers are
                   exact; result = result for the same numbers as float64), 0/1 design matrix stored as bool / int64 / uint8 /
                   float32, signal and noise passed as python int / np.int64 / np.float64, noise covariance as int64 / float32
                   (C18/exact-rdm-typed, C18/exact-precision-typed, C18/noise-sweep, C18/descriptors-sweep)
extreme units      model RDM x {1e-10, 1e-6, 1e6, 1e12, 1e20}, signal strength in {1e-26, 1e-12, 1e6, 1e12, 0}, noise variances
                   1e-26 .. 1e12, signal and noise jointly in units 1e-20 .. 1e12; labels in units 1e-20 / 1e-26 / 1e12
                   (C18/exact-rdm-units, C18/exact-precision-units, C18/noise-sweep, C18/same-signal-sweep, C18/indicator-sweep).
                   Model RDMs in units <= 1e-14 FAIL on the unchanged tree (absolute pivot threshold 1e-15 in make_signal):
                   class 'model-rdm-tiny-units', registered behind `if False:  # pending triage`   [TRIAGED since: every class repaired in /repo, recorded as open finding, or dropped -- DESIGN.md 10.10]
label types        condition vector as int64 / int32 / uint8 / int16 / str / float / floats differing by 2^-40 / floats of the
                   order 1e-20; indicator of int, str, bool, float32 and nearly equal float labels (exhaustive small sequences)
orders             designs 'descending' (blocks, highest first, unequal sizes) and 'interleaved' (first appearance descending,
                   repeated in rotated order) next to shuffled / unbalanced
sizes              n_cond 12 / 16 / 24 (40 thorough) with n_channel = n_cond, n_cond+1, 64; n_part 7; n_sim 5..6; make_design up
                   to 300 conditions / partitions and with numpy integer arguments
call sequences     orc_sequence (C18/call-sequence): inputs unchanged by the call (arrays, dtypes), the same call after the same
                   seed gives identical data, a second model of the same class / name / shape gets ITS OWN RDM, datasets held from
                   an earlier call keep values and descriptors, a call without re-seeding is exact again; make_design twice
environment        orc_fresh (C18/fresh-interpreter): the oracles hold in new interpreters with other PYTHONHASHSEEDs (string
                   labels) and the seeded simulated data equal those of this process
Not applicable to C18: competitor sets (no optimality claim), files / dict order (nothing is read or written).

Assumption used by orc_same_signal(noise>0) and orc_noise: two calls of make_dataset after np.random.seed(s) that differ
ONLY in the numeric value of `signal` (resp. `noise` > 0) consume the global random stream identically.

NOT covered by this tier
* "for all random draws" / all models: seeded samples only (bounded exploration, not a proof); LDL, norm.ppf are opaque.
* The distribution of the noise (normality, independence across rows/channels) beyond its overall variance level; that a
  non-diagonal noise_cov_channel yields exactly that covariance (the property only states additivity and sqrt scaling;
  see the side observation in C18_findings.md); noise_cov_trial and signal_cov_channel (outside the property's premises).
* Non-embeddable model RDMs, n_channel < n_cond with exact signal (outside the premises; only descriptors and the
  same/fresh-signal clause are checked there), n_cond = 1 (empty RDM).
* General (non-indicator) encoding design matrices: "RDM by condition" is only defined for indicator designs.
* use_exact_signal=False: the RDM is then only right in expectation (not observable on bounded runs).
"""
import itertools

import numpy as np

from vf.rt.harness import oracle, Bounded, replay_file, close  # noqa: F401  (replay_file: used by tools/run_c.py)

TOL_STRUCT = 1e-4      # orc_exact_rdm: unchanged tree reaches up to 1.9e-6 on the thorough domain (finding 1); structural errors are O(1e-2..1)
TOL_EXACT = 1e-8       # orc_exact_precision: tolerance stated in DESIGN.md section C18


# ----------------------------------------------------------------------------------------------------------------------
# spec helpers (literal, loop based)
# ----------------------------------------------------------------------------------------------------------------------
def _points(rs, n_cond, kind):
    """point set whose squared Euclidean distances form an embeddable model RDM"""
    if kind == 'generic':
        pts = rs.randn(n_cond, max(1, n_cond - 1))
    elif kind == 'line':                      # rank-1 embedding
        pts = rs.randn(n_cond, 1)
    elif kind == 'lowrank':
        pts = rs.randn(n_cond, max(1, n_cond // 2))
    elif kind == 'highdim':                   # more dimensions than conditions
        pts = rs.randn(n_cond, n_cond + 3)
    elif kind == 'duplicate':                 # two conditions coincide: one zero distance
        pts = rs.randn(n_cond, max(1, n_cond - 1))
        pts[-1] = pts[0]
    elif kind == 'simplex':                   # all distances equal (repeated eigenvalues of G)
        pts = np.eye(n_cond) * (1.0 + rs.rand())
    elif kind == 'scaled':                    # very unequal axes
        pts = rs.randn(n_cond, max(1, n_cond - 1)) * (10.0 ** np.linspace(-2, 1, max(1, n_cond - 1)))
    elif kind == 'integer':                   # integer coordinates: squared distances are integers <= 180 (exact in uint8 ...)
        pts = rs.randint(-3, 4, size=(n_cond, min(5, max(1, n_cond - 1)))).astype(float)
    else:
        raise ValueError(kind)
    return pts


def _sqdist_matrix(pts):
    n = pts.shape[0]
    D = np.zeros((n, n))
    for i in range(n):
        for j in range(n):
            s = 0.0
            for k in range(pts.shape[1]):
                s += (pts[i, k] - pts[j, k]) ** 2
            D[i, j] = s
    return D


def _vec(D, order=None):
    """upper triangle, row by row, of D re-indexed by `order`"""
    n = D.shape[0]
    order = list(range(n)) if order is None else list(order)
    return np.array([D[order[i], order[j]] for i in range(len(order)) for j in range(i + 1, len(order))])


def _unvec(v, n):
    """symmetric n x n matrix with zero diagonal whose upper triangle, row by row, is v"""
    D = np.zeros((n, n))
    k = 0
    for i in range(n):
        for j in range(i + 1, n):
            D[i, j] = D[j, i] = float(v[k])
            k += 1
    return D


def _fmt(v):
    return '[' + ', '.join('%.6g' % float(x) for x in v) + ']'


def _py(v):
    """label as a plain python value: str stays str, every number becomes a float"""
    if isinstance(v, (str, np.str_)):
        return str(v)
    return float(v)


def _spec_rdm_by_condition(data, labels):
    """squared Euclidean distance (per channel) between the per-condition mean patterns; conditions in sorted order"""
    uniq = sorted(set(labels))
    n_ch = data.shape[1]
    means = []
    for u in uniq:
        acc = np.zeros(n_ch)
        cnt = 0
        for t, lab in enumerate(labels):
            if lab == u:
                acc = acc + data[t]
                cnt += 1
        means.append(acc / cnt)
    M = np.zeros((len(uniq), len(uniq)))
    for i in range(len(uniq)):
        for j in range(len(uniq)):
            M[i, j] = sum((means[i][k] - means[j][k]) ** 2 for k in range(n_ch)) / n_ch
    return uniq, M


def _relerr(got, want):
    """max |got - want| relative to the largest |want| (absolute when want is all zero)"""
    got = np.asarray(got, dtype=float)
    want = np.asarray(want, dtype=float)
    if got.shape != want.shape or not np.all(np.isfinite(got)):
        return np.inf
    if want.size == 0:
        return 0.0
    scale = float(np.max(np.abs(want)))
    if scale == 0.0:
        scale = 1.0
    return float(np.max(np.abs(got - want))) / scale


def _labels(case, n_cond, n_part):
    """condition labels of the rows (python list), index of the model condition of each row"""
    from rsatoolbox.simulation import sim
    design = case.get('design', 'vector')
    rs = np.random.RandomState(case['seed'] + 7919)
    if design in ('vector', 'matrix'):
        cond_vec, _ = sim.make_design(n_cond, n_part)
        idx = [int(c) for c in cond_vec]
    elif design in ('shuffled', 'matrix-shuffled'):
        idx = [c for _ in range(n_part) for c in range(n_cond)]
        rs.shuffle(idx)
    elif design == 'unbalanced':              # every condition at least once, different repetition counts
        idx = list(range(n_cond)) + [int(c) for c in rs.randint(0, n_cond, size=n_cond * (n_part - 1) + 2)]
        rs.shuffle(idx)
    elif design == 'labels':                  # arbitrary, non-contiguous, partly negative numeric labels
        idx = [c for _ in range(n_part) for c in range(n_cond)]
        rs.shuffle(idx)
    elif design == 'descending':              # blocks of repeated values, highest condition first, unequal block sizes
        idx = [c for c in range(n_cond - 1, -1, -1) for _ in range(1 + (c + case['seed']) % 3)]
    elif design == 'interleaved':             # first appearance descending, then repeated in another (rotated) order
        idx = list(range(n_cond - 1, -1, -1))
        for r in range(n_part):
            idx += [(c + r + 1) % n_cond for c in range(0, n_cond, 1 + r % 2)]
    else:
        raise ValueError(design)
    lt = case.get('label_type', 'float')
    if lt == 'float':
        if design == 'labels':
            names = sorted(rs.choice(np.arange(-20, 60), size=n_cond, replace=False).tolist())
            names = [n + 0.5 for n in names]
        else:
            names = [float(c) for c in range(n_cond)]
    elif lt == 'str':                         # python / numpy order strings by code point: digits < upper case < lower case
        names = sorted(STR_POOL[i] for i in rs.choice(len(STR_POOL), size=n_cond, replace=False))
    elif lt == 'close-float':                 # distinct values that differ in the last digits only
        names = [1.0 + c * 2.0 ** -40 for c in range(n_cond)]
    elif lt == 'tiny-float':                  # legitimate labels in extreme units
        names = [(c + 1) * 1e-20 for c in range(n_cond)]
    else:                                     # integer dtypes
        if design == 'labels':
            lo, hi = (0, 250) if lt.startswith('uint') else (-20, 100)
            names = sorted(int(n) for n in rs.choice(np.arange(lo, hi), size=n_cond, replace=False))
        else:
            names = list(range(n_cond))
    return [names[i] for i in idx], idx


STR_POOL = ('a', 'B', 'b10', 'b2', 'cond', 'Z', 'aa', '10', '9', 'face', 'Face', 'house', '_x', 'b', 'ab', 'a b', '2', 'z',
            'cond_10', 'cond_9', 'A', 'left', 'right', 'up', 'down', 'x1', 'x01', 'X', 'y', 'tool', 'body', 'cat', 'Dog',
            '0', '00', 'k', 'K', 'q', 'stim3', 'stim12', 'stim1', 'w')


def _label_array(case, labels):
    """the condition vector as the ndarray that is handed to make_dataset"""
    lt = case.get('label_type', 'float')
    if lt in ('float', 'str', 'close-float', 'tiny-float'):
        return np.array(labels)
    return np.array(labels, dtype=lt)


def _typed(case, D):
    """(vector handed to the model constructor, squared-distance matrix that this vector represents).
    rdm_scale: the model RDM in other units (a positive multiple of an embeddable RDM is embeddable);
    rdm_dtype: the vector is stored in that dtype, the represented matrix is what the stored numbers say."""
    if case.get('rdm_scale') is not None:
        D = D * float(case['rdm_scale'])
    v = _vec(D)
    if case.get('rdm_dtype'):
        v = v.astype(case['rdm_dtype'])
        D = _unvec(v.astype(np.float64), D.shape[0])
    return v, D


def _model(case, rs, n_cond):
    """(model, theta, predicted squared-distance MATRIX computed here, name, arrays handed to the constructor)"""
    from rsatoolbox.model import ModelFixed, ModelWeighted, ModelSelect
    from rsatoolbox.rdm import RDMs
    kind = case.get('kind', 'generic')
    mk = case.get('model', 'fixed')
    name = case.get('name') or 'gen-%s-%d' % (mk, case['seed'])
    if mk == 'fixed':
        v, D = _typed(case, _sqdist_matrix(_points(rs, n_cond, kind)))
        return ModelFixed(name, v), None, D, name, [v]
    if mk == 'fixed-matrix':
        v, D = _typed(case, _sqdist_matrix(_points(rs, n_cond, kind)))
        m = D.copy().astype(v.dtype)
        return ModelFixed(name, m), None, D, name, [m]
    if mk == 'fixed-rdms':
        v, D = _typed(case, _sqdist_matrix(_points(rs, n_cond, kind)))
        r = np.array([v])
        return ModelFixed(name, RDMs(r)), None, D, name, [r]
    if mk == 'weighted':                      # non-negative mixture of embeddable RDMs is embeddable
        vs, Ds = zip(*[_typed(case, _sqdist_matrix(_points(rs, n_cond, kind))) for _ in range(3)])
        theta = np.array([0.5, 2.0, 1.25])
        D = np.zeros((n_cond, n_cond))
        for w, Dk in zip(theta, Ds):
            D = D + w * Dk
        r = np.array(vs)
        return ModelWeighted(name, r), theta, D, name, [r]
    if mk == 'weighted-negative':
        # a NEGATIVE weight that keeps the mixture embeddable: all squared distances minus 0.4 (resp. 1.5 of weight 2) times the
        # squared distances along the first coordinate = squared distances of the points with that coordinate shrunk
        pts = _points(rs, n_cond, kind)
        v_all, D_all = _typed(case, _sqdist_matrix(pts))
        v_one, D_one = _typed(case, _sqdist_matrix(pts[:, :1]))
        theta = np.array([1.0, -0.4]) if case['seed'] % 2 else np.array([2.0, -1.5])
        r = np.array([v_all, v_one])
        return ModelWeighted(name, r), theta, theta[0] * D_all + theta[1] * D_one, name, [r]
    if mk == 'weighted-none':                 # theta=None: ModelWeighted predicts the plain sum of its RDMs
        vs, Ds = zip(*[_typed(case, _sqdist_matrix(_points(rs, n_cond, kind))) for _ in range(2)])
        r = np.array(vs)
        return ModelWeighted(name, r), None, Ds[0] + Ds[1], name, [r]
    if mk == 'select':
        vs, Ds = zip(*[_typed(case, _sqdist_matrix(_points(rs, n_cond, kind))) for _ in range(3)])
        theta = 1 + case['seed'] % 2
        r = np.array(vs)
        return ModelSelect(name, r), theta, Ds[theta], name, [r]
    raise ValueError(mk)


def _noise_cov(rs, n_channel, which):
    if which in (None, 'none'):
        return None
    if which == 'identity':
        return np.eye(n_channel)
    if which == 'identity-int':               # the same matrix with integer dtype
        return np.eye(n_channel, dtype=np.int64)
    if which == 'diag-f32':
        return np.diag(0.5 + rs.rand(n_channel) * 2).astype(np.float32)
    if which == 'diag':
        return np.diag(0.5 + rs.rand(n_channel) * 2)
    A = rs.randn(n_channel, n_channel)       # 'full'
    return A @ A.T / n_channel + 0.5 * np.eye(n_channel)


def _build(case, **override):
    """inputs of make_dataset built from the case: (model, theta, cond_vec or design matrix, keyword arguments, info)"""
    rs = np.random.RandomState(case['seed'])
    n_cond, n_channel = case['n_cond'], case['n_channel']
    n_part = case.get('n_part', 1)
    model, theta, D, name, raw = _model(case, rs, n_cond)
    labels, idx = _labels(case, n_cond, n_part)
    cond_vec = _label_array(case, labels)
    if case.get('design', 'vector').startswith('matrix'):
        Z = np.zeros((len(idx), n_cond))
        for t, c in enumerate(idx):
            Z[t, c] = 1.0
        if case.get('z_dtype'):               # the same 0/1 design matrix stored as bool / integer / float32
            Z = Z.astype(case['z_dtype'])
        arg = Z
    else:
        arg = cond_vec
    kw = dict(n_channel=n_channel, n_sim=case.get('n_sim', 1), signal=case.get('signal', 1.0),
              noise=case.get('noise', 0.0), use_exact_signal=case.get('exact', True),
              use_same_signal=case.get('same', False),
              noise_cov_channel=_noise_cov(rs, n_channel, case.get('noise_cov')))
    if case.get('signal_cov'):
        kw['signal_cov_channel'] = _noise_cov(rs, n_channel, case['signal_cov'])
    kw.update(override)
    if case.get('num_type') == 'int':         # integer-valued signal / noise passed as python int (the defaults are ints)
        for key in ('signal', 'noise'):
            if float(kw[key]) == int(kw[key]):
                kw[key] = int(kw[key])
    elif case.get('num_type'):                # numpy scalar types
        for key in ('signal', 'noise'):
            kw[key] = getattr(np, case['num_type'])(kw[key])
    return model, theta, arg, kw, dict(model=model, theta=theta, D=D, name=name, labels=labels, idx=idx, arg=arg, kw=kw,
                                       raw=raw)


def _simulate(case, **override):
    """build inputs from the case, seed the global stream, call the REAL make_dataset"""
    from rsatoolbox.simulation import sim
    model, theta, arg, kw, info = _build(case, **override)
    np.random.seed(case['seed'] % (2 ** 31))
    data = sim.make_dataset(model, theta, arg, **kw)
    return data, info


def _rdm_check(case, tol):
    """shared body of orc_exact_rdm / orc_exact_precision"""
    import rsatoolbox
    from rsatoolbox.data import Dataset
    data, info = _simulate(case)
    n_cond, n_channel = case['n_cond'], case['n_channel']
    signal = float(info['kw']['signal'])
    labels = info['labels']
    n_sim = info['kw']['n_sim']
    if not isinstance(data, list) or len(data) != n_sim:
        return 'expected a list of n_sim=%d datasets, got %s of length %s' % (
            n_sim, type(data).__name__, len(data) if hasattr(data, '__len__') else '?')
    # label -> model condition: i-th smallest label is model condition i (np.unique order of the indicator columns)
    uniq = sorted(set(labels))
    if len(uniq) != n_cond:
        return 'oracle input error: design does not use every condition'
    via = case.get('via', 'both')
    for i, ds in enumerate(data):
        X = np.asarray(ds.measurements)
        if X.shape != (len(labels), n_channel):
            return 'simulation #%d: measurements have shape %r, expected %r' % (i, X.shape, (len(labels), n_channel))
        if not np.all(np.isfinite(X)):
            return 'simulation #%d: non-finite measurements' % i
        # (1) literal recomputation from the raw numbers
        u2, M = _spec_rdm_by_condition(X, labels)
        want = signal * _vec(info['D'])
        err = _relerr(_vec(M), want)
        if via != 'calc_rdm' and not err <= tol:
            return ('simulation #%d: squared-Euclidean RDM by condition recomputed from the measurements differs from '
                    'signal*model RDM: max rel. error %.3g > %.1g (signal=%g, n_cond=%d, n_channel=%d; first entries got %s '
                    'want %s)' % (i, err, tol, signal, n_cond, n_channel, _fmt(_vec(M)[:3]), _fmt(want[:3])))
        if via == 'loops':
            continue
        # (2) through the real RDM estimator
        if case.get('design', 'vector').startswith('matrix'):
            ds2 = Dataset(X.copy(), obs_descriptors={'cond_vec': list(labels)})
        else:
            ds2 = ds
        rdm = rsatoolbox.rdm.calc_rdm(ds2, method='euclidean', descriptor='cond_vec')
        pat = [_py(p) for p in rdm.pattern_descriptors['cond_vec']]
        uniq = [_py(u) for u in uniq]
        if sorted(pat) != uniq:
            return 'simulation #%d: calc_rdm patterns %r are not the conditions %r' % (i, pat, uniq)
        order = [uniq.index(p) for p in pat]
        got = np.asarray(rdm.dissimilarities)
        if got.shape != (1, n_cond * (n_cond - 1) // 2):
            return 'simulation #%d: calc_rdm returned dissimilarities of shape %r' % (i, got.shape)
        want = signal * _vec(info['D'], order)
        err = _relerr(got[0], want)
        if not err <= tol:
            return ('simulation #%d: calc_rdm(euclidean, by cond_vec) differs from signal*model RDM: max rel. error %.3g '
                    '> %.1g (signal=%g, n_cond=%d, n_channel=%d; first entries got %s want %s)'
                    % (i, err, tol, signal, n_cond, n_channel, _fmt(got[0][:3]), _fmt(want[:3])))
    return None


# ----------------------------------------------------------------------------------------------------------------------
# oracles
# ----------------------------------------------------------------------------------------------------------------------
@oracle('C18/exact-rdm')
def orc_exact_rdm(case):
    """exact signal, zero noise, no signal covariance, n_channel >= n_cond, embeddable model: RDM = signal * model RDM"""
    return _rdm_check(case, TOL_STRUCT)


@oracle('C18/exact-precision')
def orc_exact_precision(case):
    """same statement at the rounding-level tolerance of DESIGN.md (1e-8)"""
    return _rdm_check(case, TOL_EXACT)


@oracle('C18/design')
def orc_design(case):
    from rsatoolbox.simulation import sim
    n_cond, n_part = case['n_cond'], case['n_part']
    if case.get('int_type'):                  # sizes given as numpy integers (e.g. taken from a shape or a descriptor array)
        out = sim.make_design(getattr(np, case['int_type'])(n_cond), getattr(np, case['int_type'])(n_part))
    else:
        out = sim.make_design(n_cond, n_part)
    if case.get('twice'):                     # a second call returns the same vectors and does not touch the first result
        keep = [np.array(v, copy=True) for v in out]
        out2 = sim.make_design(n_cond, n_part)
        sim.make_design(n_part + 1, n_cond + 2)
        for a, b, c in zip(out, out2, keep):
            if not (np.array_equal(a, b) and np.array_equal(a, c)):
                return 'make_design(%d, %d) called twice: results differ / first result changed' % (n_cond, n_part)
    if not (isinstance(out, tuple) and len(out) == 2):
        return 'make_design did not return a (cond_vec, part_vec) pair'
    cond_vec, part_vec = (np.asarray(v) for v in out)
    n = n_cond * n_part
    if cond_vec.shape != (n,) or part_vec.shape != (n,):
        return 'vectors have shapes %r / %r, expected (%d,)' % (cond_vec.shape, part_vec.shape, n)
    conds = sorted(set(cond_vec.tolist()))
    parts = sorted(set(part_vec.tolist()))
    if len(conds) != n_cond:
        return '%d distinct conditions instead of %d: %r' % (len(conds), n_cond, conds)
    if len(parts) != n_part:
        return '%d distinct partitions instead of %d: %r' % (len(parts), n_part, parts)
    for p in parts:
        for c in conds:
            cnt = 0
            for t in range(n):
                if part_vec[t] == p and cond_vec[t] == c:
                    cnt += 1
            if cnt != 1:
                return 'condition %r occurs %d times in partition %r (cond_vec=%r part_vec=%r)' % (
                    c, cnt, p, cond_vec.tolist(), part_vec.tolist())
    return None


@oracle('C18/indicator')
def orc_indicator(case):
    from rsatoolbox.util.matrix import indicator
    v = case['labels']
    arr = np.array(v, dtype=case['dtype']) if case.get('dtype') else np.array(v)
    if case.get('scale') is not None:         # the same labels in other units
        v = [x * case['scale'] for x in v]
        arr = arr * case['scale']
    before = arr.copy()
    Z = np.asarray(indicator(arr))
    if not (arr.dtype == before.dtype and np.array_equal(arr, before)):
        return 'indicator(%r) changed its argument to %r' % (v, arr.tolist())
    uniq = sorted(set(v))
    if Z.shape != (len(v), len(uniq)):
        return 'indicator(%r) has shape %r, expected one column per unique value: %r' % (v, Z.shape, (len(v), len(uniq)))
    for t in range(len(v)):
        for j, u in enumerate(uniq):
            want = 1.0 if v[t] == u else 0.0
            if Z[t, j] != want:
                return 'indicator(%r)[%d,%d] = %r, expected %r (column %d <-> value %r)' % (v, t, j, Z[t, j], want, j, u)
    return None


@oracle('C18/descriptors')
def orc_descriptors(case):
    from rsatoolbox.data import Dataset
    data, info = _simulate(case)
    kw = info['kw']
    if not isinstance(data, list) or len(data) != kw['n_sim']:
        return 'expected a list of %d datasets' % kw['n_sim']
    for i, ds in enumerate(data):
        if not isinstance(ds, Dataset):
            return 'simulation #%d is a %s, not a Dataset' % (i, type(ds).__name__)
        if np.asarray(ds.measurements).shape != (len(info['labels']), case['n_channel']):
            return 'simulation #%d: measurements shape %r' % (i, np.asarray(ds.measurements).shape)
        if info['arg'].ndim == 1:
            od = ds.obs_descriptors
            if 'cond_vec' not in od:
                return 'simulation #%d: no obs_descriptor cond_vec (has %r)' % (i, sorted(od))
            got = np.asarray(od['cond_vec'])
            if got.shape != (len(info['labels']),) or [_py(g) for g in got] != [_py(x) for x in info['labels']]:
                return 'simulation #%d: obs_descriptor cond_vec %r is not the condition vector %r' % (
                    i, got.tolist(), info['labels'])
        des = ds.descriptors
        for key in ('signal', 'noise', 'model', 'theta'):
            if key not in des:
                return 'simulation #%d: descriptor %r missing (has %r)' % (i, key, sorted(des))
        if des['signal'] != kw['signal']:
            return 'simulation #%d: descriptor signal=%r, requested %r' % (i, des['signal'], kw['signal'])
        if des['noise'] != kw['noise']:
            return 'simulation #%d: descriptor noise=%r, requested %r' % (i, des['noise'], kw['noise'])
        if des['model'] != info['name']:
            return 'simulation #%d: descriptor model=%r, model name %r' % (i, des['model'], info['name'])
        th = info['theta']
        if th is None:
            if des['theta'] is not None:
                return 'simulation #%d: descriptor theta=%r, passed None' % (i, des['theta'])
        elif not np.array_equal(np.asarray(des['theta']), np.asarray(th)):
            return 'simulation #%d: descriptor theta=%r, passed %r' % (i, des['theta'], th)
    return None


@oracle('C18/same-signal')
def orc_same_signal(case):
    """same=True: one signal for all simulations; same=False: a fresh signal per simulation.
    noise == 0: the measurements ARE the signal part.  noise > 0: signal part = run(signal) - run(signal=0) of two runs from
    the same seed (the second consists of the noise term alone, additivity is orc_noise's business)."""
    data, info = _simulate(case)
    n_sim = info['kw']['n_sim']
    if len(data) != n_sim:
        return 'expected %d datasets, got %d' % (n_sim, len(data))
    parts = [np.asarray(d.measurements, dtype=float) for d in data]
    if info['kw']['noise'] != 0:
        pure, _ = _simulate(case, signal=0.0)
        parts = [a - np.asarray(b.measurements, dtype=float) for a, b in zip(parts, pure)]
    scale = max(1e-300, max(float(np.max(np.abs(p))) for p in parts))
    # patterns of an exact signal have squared distances signal * D, i.e. entries of the order sqrt(signal * max D)
    ref = min(1.0, float(np.sqrt(float(info['kw']['signal']) * max(1e-300, float(np.max(info['D']))))))
    # exact signal in 2 channels for 2 conditions: row-centred 2-channel patterns are 1-dimensional, the exact signal is
    # determined up to sign, so two fresh draws legitimately coincide with probability 1/2 -> "fresh" is not observable
    degenerate = info['kw']['use_exact_signal'] and case['n_cond'] == 2 and case['n_channel'] <= 2
    for i in range(n_sim):
        if not scale > 1e-6 * ref:
            return 'signal part of the simulations is zero although signal=%g' % info['kw']['signal']
        for j in range(i + 1, n_sim):
            diff = float(np.max(np.abs(parts[i] - parts[j]))) / scale
            if case.get('same') and diff > 1e-9:
                return ('use_same_signal=True: simulations #%d and #%d do not carry the same signal (max rel. difference '
                        '%.3g, signal=%g)' % (i, j, diff, info['kw']['signal']))
            if not case.get('same') and not degenerate and diff < 1e-3:
                return ('use_same_signal=False: simulations #%d and #%d carry the same signal (max rel. difference %.3g), '
                        'no fresh draw' % (i, j, diff))
    return None


@oracle('C18/noise')
def orc_noise(case):
    """data = signal part + noise part; noise part does not depend on the signal and is proportional to sqrt(noise)."""
    v1, v2, s = case['noise'], case['noise2'], case['signal']
    A, info = _simulate(case)                                    # signal s, noise v1
    B, _ = _simulate(case, signal=0.0)                           # noise v1 alone
    C, _ = _simulate(case, noise=v2)                             # signal s, noise v2
    E, _ = _simulate(case, signal=0.0, noise=v2)                 # noise v2 alone
    for i in range(len(A)):
        a, b, c, e = (np.asarray(x[i].measurements, dtype=float) for x in (A, B, C, E))
        if not (np.all(np.isfinite(a)) and np.all(np.isfinite(b))):
            return 'simulation #%d: non-finite measurements' % i
        nscale = max(float(np.max(np.abs(b))), 1e-300)
        if not float(np.max(np.abs(b))) > 1e-6 * np.sqrt(v1):
            return 'simulation #%d: no noise although noise=%g' % (i, v1)
        # sqrt scaling:  eps(v1) / sqrt(v1) == eps(v2) / sqrt(v2)
        d = float(np.max(np.abs(b * np.sqrt(v2) - e * np.sqrt(v1)))) / (nscale * np.sqrt(v2))
        if d > 1e-9:
            ratio = float(np.sqrt(np.sum(e ** 2) / np.sum(b ** 2)))
            return ('simulation #%d: noise term does not scale with sqrt(noise): |eps(%g)|/|eps(%g)| = %.6g, expected '
                    'sqrt(%g/%g) = %.6g' % (i, v2, v1, ratio, v2, v1, np.sqrt(v2 / v1)))
        # additivity: the signal part (data - noise part) is the same whatever the noise level ...
        sa, sc = a - b, c - e
        sscale = max(float(np.max(np.abs(sa))), float(np.max(np.abs(a))), 1e-300)
        d = float(np.max(np.abs(sa - sc))) / sscale
        if d > 1e-9:
            return ('simulation #%d: data - noise term depends on the noise level (max rel. difference %.3g between '
                    'noise=%g and noise=%g): noise is not additive' % (i, d, v1, v2))
        # ... and it is the exact signal: its RDM by condition is signal * model RDM
        if case.get('exact', True) and case['n_channel'] >= case['n_cond'] and not case.get('signal_cov'):
            _, M = _spec_rdm_by_condition(sa, info['labels'])
            err = _relerr(_vec(M), s * _vec(info['D']))
            if not err <= TOL_STRUCT:
                return ('simulation #%d: (data - noise term) has RDM != signal*model RDM (max rel. error %.3g, signal=%g, '
                        'noise=%g): noise is not simply added to the signal' % (i, err, s, v1))
        # variance level of i.i.d. noise (no / identity covariance): sample variance within 15 %, mean within 6 sigma
        if case.get('noise_cov') in (None, 'none', 'identity') and b.size >= 4000:
            var = float(np.mean(b ** 2))
            if not (0.85 * v1 <= var <= 1.15 * v1):
                return 'simulation #%d: noise term has mean square %.4g for requested noise variance %g (N=%d)' % (
                    i, var, v1, b.size)
            if abs(float(np.mean(b))) > 6 * np.sqrt(v1 / b.size):
                return 'simulation #%d: noise term has mean %.4g (N=%d, noise=%g)' % (i, float(np.mean(b)), b.size, v1)
    return None


def _loop_rdm_error(X, labels, D, signal):
    """rel. error of the RDM by condition recomputed with loops from the measurements X against signal * D"""
    _, M = _spec_rdm_by_condition(np.asarray(X, dtype=float), labels)
    return _relerr(_vec(M), float(signal) * _vec(D))


def _snapshot(model, theta, arg, kw, raw):
    """deep copies of everything that is handed to make_dataset"""
    snap = dict(arg=np.array(arg, copy=True), raw=[np.array(r, copy=True) for r in raw],
                theta=None if theta is None else np.array(theta, copy=True),
                rdm=np.array(model.rdm, copy=True), name=model.name,
                obj=np.array(model.rdm_obj.dissimilarities, copy=True))
    for key in ('noise_cov_channel', 'signal_cov_channel'):
        if kw.get(key) is not None:
            snap[key] = np.array(kw[key], copy=True)
    snap['scalars'] = {k: (type(v), v) for k, v in kw.items() if not isinstance(v, np.ndarray)}
    return snap


def _same_array(a, b):
    a, b = np.asarray(a), np.asarray(b)
    return a.dtype == b.dtype and a.shape == b.shape and bool(np.array_equal(a, b))


def _inputs_changed(snap, model, theta, arg, kw, raw):
    """None, or the name of the input that no longer has the value / dtype it had before the call"""
    if not _same_array(snap['arg'], arg):
        return 'cond_vec / design matrix'
    for a, b in zip(snap['raw'], raw):
        if not _same_array(a, b):
            return 'array the model was built from'
    if (theta is None) != (snap['theta'] is None) or (theta is not None and not _same_array(snap['theta'], theta)):
        return 'theta'
    if not _same_array(snap['rdm'], model.rdm) or not _same_array(snap['obj'], model.rdm_obj.dissimilarities):
        return 'model RDM'
    if model.name != snap['name']:
        return 'model name'
    for key in ('noise_cov_channel', 'signal_cov_channel'):
        if key in snap and not _same_array(snap[key], kw[key]):
            return key
    for k, (t, v) in snap['scalars'].items():
        if type(kw[k]) is not t or kw[k] != v:
            return 'keyword ' + k
    return None


@oracle('C18/call-sequence')
def orc_sequence(case):
    """call protocol: (1) inputs are unchanged after the call; (2) the same call after the same seed gives identical data;
    (3) a call with ANOTHER model of the same class, NAME and shape (same n_cond, n_channel, design size) gives the RDM of THAT
    model (nothing may be remembered per shape or per name); (4) datasets returned earlier keep their values and descriptors while the library is called
    again; (5) a further call for the first model without re-seeding has the exact RDM again."""
    from rsatoolbox.simulation import sim
    model, theta, arg, kw, info = _build(case)
    caseB = dict(case, seed=case['seed'] + 1, kind=case.get('kindB', case.get('kind', 'generic')), name=info['name'])
    if 'signalB' in case:
        caseB['signal'] = case['signalB']
    modelB, thetaB, argB, kwB, infoB = _build(caseB)
    snap = _snapshot(model, theta, arg, kw, info['raw'])
    s = case['seed'] % (2 ** 31)
    premises = kw['noise'] == 0 and kw['use_exact_signal'] and case['n_channel'] >= case['n_cond'] and not case.get('signal_cov')
    np.random.seed(s)
    d1 = sim.make_dataset(model, theta, arg, **kw)
    ch = _inputs_changed(snap, model, theta, arg, kw, info['raw'])
    if ch:
        return 'make_dataset changed its input: %s' % ch
    X1 = [np.array(d.measurements, copy=True) for d in d1]
    des1 = [{k: (None if v is None else np.array(v, copy=True)) for k, v in d.descriptors.items()} for d in d1]
    obs1 = [{k: np.array(v, copy=True) for k, v in d.obs_descriptors.items()} for d in d1]
    if premises:
        for i, X in enumerate(X1):
            err = _loop_rdm_error(X, info['labels'], info['D'], kw['signal'])
            if not err <= TOL_STRUCT:
                return 'first call, simulation #%d: RDM differs from signal*model RDM (max rel. error %.3g)' % (i, err)
    # (2) same seed, same call
    np.random.seed(s)
    d2 = sim.make_dataset(model, theta, arg, **kw)
    if len(d2) != len(d1):
        return 'second identical call returned %d datasets, the first %d' % (len(d2), len(d1))
    for i, (a, X) in enumerate(zip(d2, X1)):
        if not np.array_equal(np.asarray(a.measurements), X):
            return ('the same call after the same np.random.seed gives other data: simulation #%d differs by %.3g'
                    % (i, float(np.max(np.abs(np.asarray(a.measurements) - X)))))
    # (3) other content, same shapes
    np.random.seed(s + 17)
    dB = sim.make_dataset(modelB, thetaB, argB, **kwB)
    if premises:
        for i, d in enumerate(dB):
            err = _loop_rdm_error(d.measurements, infoB['labels'], infoB['D'], kwB['signal'])
            if not err <= TOL_STRUCT:
                return ('call for a second model of the same shape (after a call for another model), simulation #%d: RDM differs '
                        'from signal*model RDM of the second model (max rel. error %.3g)' % (i, err))
    # (5) first model again, stream not re-seeded
    d3 = sim.make_dataset(model, theta, arg, **kw)
    if premises:
        for i, d in enumerate(d3):
            err = _loop_rdm_error(d.measurements, info['labels'], info['D'], kw['signal'])
            if not err <= TOL_STRUCT:
                return ('third call (first model again, no re-seeding), simulation #%d: RDM differs from signal*model RDM '
                        '(max rel. error %.3g)' % (i, err))
    # (4) what the caller holds from the first call
    for i, (d, X, des, obs) in enumerate(zip(d1, X1, des1, obs1)):
        if not np.array_equal(np.asarray(d.measurements), X):
            return 'dataset #%d returned by the first call changed while the library was called again' % i
        if sorted(d.descriptors) != sorted(des):
            return 'descriptors of dataset #%d of the first call changed: %r' % (i, sorted(d.descriptors))
        for k, v in des.items():
            now = d.descriptors[k]
            if (v is None) != (now is None) or (v is not None and not np.array_equal(np.asarray(now), v)):
                return 'descriptor %r of dataset #%d of the first call changed from %r to %r' % (k, i, v, now)
        for k, v in obs.items():
            if not np.array_equal(np.asarray(d.obs_descriptors[k]), v):
                return 'obs_descriptor %r of dataset #%d of the first call changed' % (k, i)
    ch = _inputs_changed(snap, model, theta, arg, kw, info['raw'])
    if ch:
        return 'make_dataset changed its input: %s' % ch
    return None


_FRESH_CHILD = r"""
import json, sys, warnings
warnings.simplefilter('ignore')
import numpy as np
import contracts.C18_c as T
from vf.rt.harness import ORACLES
out = []
for name, case in json.load(sys.stdin):
    try:
        r = ORACLES[name](case)
    except Exception as e:
        r = 'exception %s: %s' % (type(e).__name__, e)
    m = None
    if 'n_channel' in case:
        try:
            data, _ = T._simulate(case)
            m = [np.asarray(d.measurements, dtype=float).tolist() for d in data]
        except Exception as e:
            r = r or 'exception %s: %s' % (type(e).__name__, e)
    out.append([r, m])
print('C18-CHILD-RESULT ' + json.dumps(out))
"""


@oracle('C18/fresh-interpreter')
def orc_fresh(case):
    """environment: the oracles of case['batch'] = [[oracle name, case], ...] hold as well in a NEW interpreter started with
    PYTHONHASHSEED = case['hashseed'], and the simulated data (seeded global stream) are the same as in this process"""
    import json
    import os
    import subprocess
    import sys
    env = dict(os.environ)
    env['PYTHONHASHSEED'] = str(case['hashseed'])
    env['PYTHONPATH'] = os.pathsep.join(q for q in sys.path if q)
    env['PYTHONDONTWRITEBYTECODE'] = '1'
    proc = subprocess.run([sys.executable, '-c', _FRESH_CHILD], input=json.dumps(case['batch']), capture_output=True,
                          text=True, env=env, timeout=600)
    line = [ln for ln in proc.stdout.splitlines() if ln.startswith('C18-CHILD-RESULT ')]
    if proc.returncode != 0 or not line:
        return 'interpreter with PYTHONHASHSEED=%s failed (exit %s): %s' % (case['hashseed'], proc.returncode,
                                                                            proc.stderr.strip()[-400:])
    results = json.loads(line[-1][len('C18-CHILD-RESULT '):])
    for (name, sub), (r, m) in zip(case['batch'], results):
        if r is not None:
            return 'with PYTHONHASHSEED=%s: %s on %s: %s' % (case['hashseed'], name, json.dumps(sub)[:300], r)
        if m is not None:
            here, _ = _simulate(sub)
            for i, (a, b) in enumerate(zip(here, m)):
                a = np.asarray(a.measurements, dtype=float)
                b = np.asarray(b, dtype=float)
                if a.shape != b.shape or _relerr(b, a) > 1e-12:
                    return ('with PYTHONHASHSEED=%s: simulation #%d of %s differs from the one computed in this process '
                            '(same seed of the global stream)' % (case['hashseed'], i, json.dumps(sub)[:300]))
    return None


# ----------------------------------------------------------------------------------------------------------------------
# domains
# ----------------------------------------------------------------------------------------------------------------------
KINDS = ('generic', 'line', 'lowrank', 'highdim', 'duplicate', 'simplex', 'scaled')
DESIGNS = ('vector', 'matrix', 'shuffled', 'matrix-shuffled', 'unbalanced', 'labels')
MODELS = ('fixed', 'fixed-matrix', 'fixed-rdms', 'weighted', 'select', 'weighted-none')
SIGNALS = (1.0, 4.0, 0.25, 2.5, 1e-3, 300.0)
NOISE_COVS = ('none', 'identity', 'diag', 'full')


def _cls(case):
    if case['n_channel'] == case['n_cond']:
        return 'n_channel==n_cond'
    return 'same-signal' if case.get('same') else 'fresh-signal'


def tier_c(run, thorough):
    bds = []

    # ---- design vectors -------------------------------------------------------------------------------------------
    nc_max, np_max = (12, 8) if thorough else (8, 6)
    bd = Bounded(run, 'C18/design', 'C18/make_design/oracle/each-condition-once-per-partition',
                 'all n_cond in 1..%d x n_part in 1..%d' % (nc_max, np_max), exhaustive=True, function='make_design')
    for n_cond in range(1, nc_max + 1):
        for n_part in range(1, np_max + 1):
            bd.check(orc_design, dict(n_cond=n_cond, n_part=n_part), 'design', function='make_design')
    bd.done()
    bds.append(bd)

    # ---- indicator ------------------------------------------------------------------------------------------------
    L_max = 6 if thorough else 5
    bd = Bounded(run, 'C18/indicator', 'C18/indicator/oracle/one-column-per-unique-value',
                 'all label sequences of length 1..%d over the values {-1.5, 0, 2, 7} (not necessarily all used)' % L_max,
                 exhaustive=True, function='indicator')
    vals = (-1.5, 0.0, 2.0, 7.0)
    for L in range(1, L_max + 1):
        for seq in itertools.product(vals, repeat=L):
            bd.check(orc_indicator, dict(labels=list(seq)), 'numeric-labels', function='indicator')
    bd.done()
    bds.append(bd)

    # ---- exact signal: RDM = signal * model RDM -------------------------------------------------------------------
    nc_hi, ch_hi, n_seed = (9, 18, 8) if thorough else (6, 12, 1)
    bd = Bounded(run, 'C18/exact-rdm', 'C18/make_dataset/oracle/exact-signal-rdm-equals-signal-times-model',
                 'n_cond in 2..%d x n_channel in n_cond..%d x %d embeddable point-set kinds x %d seed(s), options drawn by a '
                 'seeded pseudo-random choice per case: design kind (make_design vector / indicator matrix / shuffled / '
                 'unbalanced / arbitrary labels), model class (%d), n_part in 1..3, n_sim in 1..3, signal in %r, same-signal '
                 'on/off, noise covariance none/identity/diag/full; plus a block n_cond x design kind x same on/off with '
                 'n_sim=3, signal != 1, n_channel in n_cond..n_cond+2; noise=0, exact signal, rel. tol %.0e'
                 % (nc_hi, ch_hi, len(KINDS), n_seed, len(MODELS), SIGNALS, TOL_STRUCT), function='make_dataset')

    def check_rdm(case):
        fn = 'make_signal' if case['n_channel'] == case['n_cond'] else 'make_dataset'
        if case['model'] in ('weighted', 'weighted-negative'):
            # vector-valued theta: calc_rdm of the simulated dataset is a finding of its own (domain C18/exact-rdm-theta-vector
            # below, C18_findings.md); here the numerical claim is checked on the raw measurements only
            bd.check(orc_exact_rdm, dict(case, via='loops'), _cls(case), function=fn)
        else:
            bd.check(orc_exact_rdm, case, _cls(case), function=fn)

    # a ModelWeighted with a negative weight (still Euclidean-embeddable)
    for seed in range(4 if thorough else 2):
        for n_cond in (3, 5):
            check_rdm(dict(seed=700 + seed, n_cond=n_cond, n_channel=n_cond + seed % 2, kind='generic', model='weighted-negative',
                           n_part=2, n_sim=1, signal=(1.0, 2.5)[seed % 2], same=bool(seed % 2), design=('shuffled', 'descending')[seed % 2]))
    k = 0
    for seed in range(n_seed):
        for n_cond in range(2, nc_hi + 1):
            for n_channel in range(n_cond, ch_hi + 1):
                for kind in KINDS:
                    k += 1
                    ch = np.random.RandomState(4242 + k)
                    case = dict(seed=1000 * seed + k, n_cond=n_cond, n_channel=n_channel, kind=kind,
                                design=DESIGNS[ch.randint(len(DESIGNS))], model=MODELS[ch.randint(len(MODELS))],
                                n_part=1 + int(ch.randint(3)), n_sim=1 + int(ch.randint(3)),
                                signal=SIGNALS[ch.randint(len(SIGNALS))], same=bool(ch.randint(2)),
                                noise_cov=NOISE_COVS[ch.randint(len(NOISE_COVS))])
                    if case['design'] == 'unbalanced' and case['n_part'] == 1:
                        case['n_part'] = 2
                    check_rdm(case)
    for n_cond in range(2, nc_hi + 1):
        for j, design in enumerate(DESIGNS):
            for same in (True, False):
                k += 1
                case = dict(seed=50000 + k, n_cond=n_cond, n_channel=n_cond + (j % 3), kind=KINDS[k % len(KINDS)],
                            design=design, model=MODELS[k % len(MODELS)], n_part=2 if design == 'unbalanced' else 1 + k % 3,
                            n_sim=3, signal=SIGNALS[1 + k % (len(SIGNALS) - 1)], same=same, noise_cov='none')
                check_rdm(case)
    bd.done()
    bds.append(bd)

    # ---- calc_rdm of data simulated with a parameter VECTOR (known finding on the unchanged tree) ----------------------
    bd = Bounded(run, 'C18/exact-rdm-theta-vector', 'C18/make_dataset/oracle/calc-rdm-of-data-simulated-with-vector-theta',
                 'ModelWeighted with 3 component RDMs and theta = (0.5, 2, 1.25); n_cond in 3..5 x n_channel in {n_cond, 9} x '
                 'design vector / shuffled; noise=0, exact signal; RDM through calc_rdm only, rel. tol %.0e' % TOL_STRUCT,
                 function='make_dataset')
    k = 0
    for n_cond in range(3, 6):
        for n_channel in (n_cond, 9):
            for design in ('vector', 'shuffled'):
                k += 1
                bd.check(orc_exact_rdm, dict(seed=7000 + k, n_cond=n_cond, n_channel=n_channel, kind='generic', design=design,
                                             model='weighted', n_part=2, n_sim=1 + k % 2, signal=2.5, same=False,
                                             noise_cov='none', via='calc_rdm'), 'theta-vector', function='make_dataset')
    bd.done()
    bds.append(bd)

    # ---- the same at rounding-level tolerance (known finding on the unchanged tree) -------------------------------------
    bd = Bounded(run, 'C18/exact-precision', 'C18/make_signal/oracle/exact-signal-to-rounding-precision',
                 'n_cond in 3..6 x n_channel in {n_cond, n_cond+1, 12} x generic point sets, make_design vector, 2 partitions, '
                 'signal 2.5, noise=0, exact signal, rel. tol %.0e (DESIGN.md)' % TOL_EXACT, function='make_signal')
    for n_cond in range(3, 7):
        for n_channel in (n_cond, n_cond + 1, 12):
            bd.check(orc_exact_precision, dict(seed=77 + n_cond * 20 + n_channel, n_cond=n_cond, n_channel=n_channel,
                                               kind='generic', design='vector', model='fixed', n_part=2, n_sim=1,
                                               signal=2.5), 'exact-signal-precision', function='make_signal')
    bd.done()
    bds.append(bd)

    # ---- descriptors ----------------------------------------------------------------------------------------------------
    bd = Bounded(run, 'C18/descriptors', 'C18/make_dataset/oracle/descriptors-carry-cond-vec-and-parameters',
                 'n_cond in 2..5, n_channel in {2, n_cond, 9}; all 5 model classes x designs x exact on/off x same on/off; '
                 'noise in {0, 0.7}, signal in {1, 2.5, 0}, with/without noise and signal channel covariance (cycled); '
                 'n_sim in 1..3', function='make_dataset')
    k = 0
    for n_cond in range(2, 6):
        for n_channel in sorted({2, n_cond, 9}):
            for model in MODELS:
                for design in DESIGNS:
                    for exact in (True, False):
                        for same in (True, False):
                            k += 1
                            if not thorough and k % 3:
                                continue
                            case = dict(seed=k, n_cond=n_cond, n_channel=n_channel, kind=KINDS[k % len(KINDS)], model=model,
                                        design=design, exact=exact, same=same, n_part=2 + k % 2, n_sim=1 + k % 3,
                                        signal=(1.0, 2.5, 0.0)[k % 3], noise=(0.0, 0.7)[(k // 3) % 2],
                                        noise_cov=NOISE_COVS[(k // 2) % 4])
                            if (k // 5) % 3 == 0 and n_channel >= n_cond:
                                case['signal_cov'] = ('diag', 'full')[(k // 15) % 2]
                            bd.check(orc_descriptors, case, 'design-matrix' if design.startswith('matrix') else 'cond-vector',
                                     function='make_dataset')
    bd.done()
    bds.append(bd)

    # ---- same signal / fresh signal -------------------------------------------------------------------------------------
    bd = Bounded(run, 'C18/same-signal', 'C18/make_dataset/oracle/same-signal-reused-default-fresh',
                 'n_cond in 2..5, n_channel in {n_cond-1 (>=2), n_cond, 10}, n_sim in 2..4, same on/off x exact on/off x '
                 'noise in {0, 0.5} x signal in {1, 4, 0.25}; signal covariance none/full (cycled); %d seed(s)'
                 % (2 if thorough else 1), function='make_dataset')
    k = 0
    for seed in range(2 if thorough else 1):
        for n_cond in range(2, 6):
            for n_channel in sorted({max(2, n_cond - 1), n_cond, 10}):
                for same in (True, False):
                    for exact in (True, False):
                        for noise in (0.0, 0.5):
                            k += 1
                            case = dict(seed=300 + k, n_cond=n_cond, n_channel=n_channel, kind=KINDS[k % len(KINDS)],
                                        model=MODELS[k % len(MODELS)], design=DESIGNS[k % len(DESIGNS)],
                                        n_part=2 if DESIGNS[k % len(DESIGNS)] == 'unbalanced' else 1 + k % 2,
                                        n_sim=2 + k % 3, signal=(1.0, 4.0, 0.25)[k % 3], same=same, exact=exact, noise=noise,
                                        noise_cov=NOISE_COVS[(k // 3) % 4])
                            if case['kind'] == 'duplicate' and n_cond == 2:     # all-zero model RDM: no signal to compare
                                case['kind'] = 'generic'
                            if (k // 4) % 3 == 0 and n_channel >= n_cond:
                                case['signal_cov'] = 'full'
                            bd.check(orc_same_signal, case, ('same' if same else 'fresh') + (',noise' if noise else ',noise=0'),
                                     function='make_dataset')
    bd.done()
    bds.append(bd)

    # ---- additive noise, sqrt scaling -----------------------------------------------------------------------------------
    bd = Bounded(run, 'C18/noise', 'C18/make_dataset/oracle/noise-additive-and-sqrt-scaled',
                 'n_cond in 2..5, n_channel in {n_cond, 8}; (noise, noise2) in {(1,4), (0.3,2), (9,0.01)}; signal in {1, 2.5}; '
                 'noise covariance none/identity/diag/full; same on/off; n_sim 2; plus variance level on 4 large i.i.d. runs '
                 '(>= 4000 samples, 15 %% band)', function='make_dataset')
    k = 0
    for n_cond in range(2, 6):
        for n_channel in sorted({n_cond, 8}):
            for (v1, v2) in ((1.0, 4.0), (0.3, 2.0), (9.0, 0.01)):
                for nc_ in NOISE_COVS:
                    k += 1
                    if not thorough and k % 2:
                        continue
                    case = dict(seed=900 + k, n_cond=n_cond, n_channel=n_channel, kind=KINDS[k % len(KINDS)],
                                model=MODELS[k % len(MODELS)], design=DESIGNS[k % len(DESIGNS)],
                                n_part=2 if DESIGNS[k % len(DESIGNS)] == 'unbalanced' else 1 + k % 3, n_sim=2,
                                signal=(1.0, 2.5)[k % 2], same=bool((k // 2) % 2), noise=v1, noise2=v2, noise_cov=nc_)
                    bd.check(orc_noise, case, 'noise-cov-' + nc_, function='make_dataset')
    for j, (v1, nc_) in enumerate(((1.0, 'none'), (4.0, 'none'), (0.09, 'identity'), (25.0, 'none'))):
        case = dict(seed=990 + j, n_cond=4, n_channel=100, kind='generic', model='fixed', design='vector', n_part=10,
                    n_sim=1, signal=1.0, noise=v1, noise2=2 * v1, noise_cov=nc_)
        bd.check(orc_noise, case, 'noise-variance-level', function='make_dataset')
    bd.done()
    bds.append(bd)
    _sweeps(run, thorough, bds)
    return bds


# ----------------------------------------------------------------------------------------------------------------------
# dimension sweeps: typed data, extreme units, containers / label types, orders, sizes, call sequences, environment
# ----------------------------------------------------------------------------------------------------------------------
DESIGNS2 = DESIGNS + ('descending', 'interleaved')
LABEL_TYPES = ('int64', 'str', 'uint8', 'float', 'int16', 'close-float', 'int32', 'tiny-float')
RDM_DTYPES = ('int64', 'int32', 'uint8', 'int16', 'float32', None)
Z_DTYPES = (None, 'bool', 'int64', 'float32', 'uint8')
NUM_TYPES = (None, 'int', 'int64', 'float64')
OB_DESIGN = 'C18/make_design/oracle/each-condition-once-per-partition'
OB_INDIC = 'C18/indicator/oracle/one-column-per-unique-value'
OB_RDM = 'C18/make_dataset/oracle/exact-signal-rdm-equals-signal-times-model'
OB_PREC = 'C18/make_signal/oracle/exact-signal-to-rounding-precision'
OB_DESC = 'C18/make_dataset/oracle/descriptors-carry-cond-vec-and-parameters'
OB_SAME = 'C18/make_dataset/oracle/same-signal-reused-default-fresh'
OB_NOISE = 'C18/make_dataset/oracle/noise-additive-and-sqrt-scaled'
OB_SEQ = 'C18/make_dataset/oracle/call-sequence-inputs-unchanged-results-stable-nothing-remembered'
OB_FRESH = 'C18/make_dataset/oracle/same-result-in-new-interpreter-with-other-hash-seed'


def _np_part(design, k):
    return 2 if design == 'unbalanced' else 1 + k % 3


def _sweeps(run, thorough, bds):
    # ---- make_design: sizes beyond the exhaustive block, numpy integer arguments, repeated calls -----------------------
    sizes = [(1, 300), (300, 1), (130, 2), (50, 3), (3, 50), (17, 13), (2, 64)] + ([(200, 2), (7, 90), (31, 31)] if thorough else [])
    bd = Bounded(run, 'C18/design-sweep', OB_DESIGN,
                 'sizes (n_cond, n_part) in %r; numpy integer arguments int64/int32/uint8/int16 for 4 sizes; the call repeated '
                 '(same result, first result untouched) for 6 sizes' % (sizes,), function='make_design')
    for n_cond, n_part in sizes:
        bd.check(orc_design, dict(n_cond=n_cond, n_part=n_part), 'design-large', function='make_design')
    for it in ('int64', 'int32', 'uint8', 'int16'):
        for n_cond, n_part in ((3, 2), (5, 4), (1, 1), (2, 7)):
            bd.check(orc_design, dict(n_cond=n_cond, n_part=n_part, int_type=it), 'design-numpy-int-arguments',
                     function='make_design')
    for n_cond, n_part in ((1, 1), (3, 2), (2, 3), (5, 5), (1, 6), (9, 4)):
        bd.check(orc_design, dict(n_cond=n_cond, n_part=n_part, twice=True), 'design-called-twice', function='make_design')
    bd.done()
    bds.append(bd)

    # ---- indicator: label dtypes, strings, nearly equal values, extreme units ------------------------------------------
    L = 5 if thorough else 4
    bd = Bounded(run, 'C18/indicator-sweep', OB_INDIC,
                 'all label sequences of length 1..%d over: {-3,0,2,7} as int64 / int16, {0,2,7,255} as uint8, the strings '
                 '{b,a,B,10,9}, {True,False} as bool, the floats {1, 1+2^-40, 1-2^-40, 1+2^-52}, {0.5,1.5,-2} as float32; all '
                 'sequences of length 3 over {-1.5,0,2,7} in units 1e-20 / 1e-26 / 1e12; argument unchanged by the call' % L,
                 exhaustive=True, function='indicator')
    pools = (('int64', (-3, 0, 2, 7), 'int-labels'), ('int16', (-3, 0, 2, 7), 'int-labels'),
             ('uint8', (0, 2, 7, 255), 'int-labels'), (None, ('b', 'a', 'B', '10', '9'), 'str-labels'),
             ('bool', (True, False), 'bool-labels'),
             (None, (1.0, 1.0 + 2.0 ** -40, 1.0 - 2.0 ** -40, 1.0 + 2.0 ** -52), 'nearly-equal-labels'),
             ('float32', (0.5, 1.5, -2.0), 'float32-labels'))
    for dt, vals, cls in pools:
        for n in range(1, L + 1):
            for seq in itertools.product(vals, repeat=n):
                case = dict(labels=list(seq))
                if dt:
                    case['dtype'] = dt
                bd.check(orc_indicator, case, cls, function='indicator')
    for sc in (1e-20, 1e-26, 1e12):
        for seq in itertools.product((-1.5, 0.0, 2.0, 7.0), repeat=3):
            bd.check(orc_indicator, dict(labels=list(seq), scale=sc), 'labels-extreme-units', function='indicator')
    bd.done()
    bds.append(bd)

    # ---- exact RDM: typed model RDMs, label types, design-matrix dtypes, int / numpy scalars for signal and noise ---------
    nc_hi = 7 if thorough else 5
    bd = Bounded(run, 'C18/exact-rdm-typed', OB_RDM,
                 'n_cond in 2..%d x model RDM stored as %r (integer point sets: the stored numbers are exact) x %d model classes; '
                 'cycled: condition labels as %r, designs %r, 0/1 design matrix stored as %r, signal (1, 4, 300, 2.5, 0.25) and '
                 'noise 0 passed as python float / python int / np.int64 / np.float64, n_channel in n_cond + {0, 1, 4}; every '
                 'case at rel. tol %.0e and, under the obligation %s, at %.0e; plus float32 / unscaled generic point sets at %.0e'
                 % (nc_hi, RDM_DTYPES, len(MODELS), LABEL_TYPES, DESIGNS2, Z_DTYPES, TOL_STRUCT, OB_PREC, TOL_EXACT, TOL_STRUCT),
                 function='make_dataset')
    bdp = Bounded(run, 'C18/exact-precision-typed', OB_PREC,
                  'the cases of C18/exact-rdm-typed whose model RDM consists of exactly representable integers, rel. tol %.0e'
                  % TOL_EXACT, function='make_signal')
    k = 0
    for n_cond in range(2, nc_hi + 1):
        for dt in RDM_DTYPES:
            for model in MODELS:
                k += 1
                design = DESIGNS2[k % len(DESIGNS2)]
                lt = LABEL_TYPES[(k // 2) % len(LABEL_TYPES)]
                case = dict(seed=61000 + k, n_cond=n_cond, n_channel=n_cond + (0, 1, 4)[k % 3], kind='integer', design=design,
                            model=model, n_part=_np_part(design, k), n_sim=1 + k % 2,
                            signal=(1.0, 4.0, 300.0, 2.5, 0.25)[k % 5], same=bool((k // 3) % 2), noise_cov='none', label_type=lt)
                if dt:
                    case['rdm_dtype'] = dt
                if design.startswith('matrix') and Z_DTYPES[k % len(Z_DTYPES)]:
                    case['z_dtype'] = Z_DTYPES[k % len(Z_DTYPES)]
                if NUM_TYPES[(k // 5) % len(NUM_TYPES)]:
                    case['num_type'] = NUM_TYPES[(k // 5) % len(NUM_TYPES)]
                if model == 'weighted':
                    case['via'] = 'loops'
                cls = 'rdm-dtype=%s,labels=%s' % (dt or 'float64', lt)
                bd.check(orc_exact_rdm, case, cls, function='make_dataset')
                bdp.check(orc_exact_precision, case, cls, function='make_signal')
    for n_cond in range(2, nc_hi + 1):             # continuous RDMs: float32 storage, all label types
        for j, lt in enumerate(LABEL_TYPES):
            k += 1
            design = DESIGNS2[(k + j) % len(DESIGNS2)]
            case = dict(seed=62000 + k, n_cond=n_cond, n_channel=n_cond + k % 2, kind=KINDS[k % len(KINDS)], design=design,
                        model=MODELS[k % len(MODELS)], n_part=_np_part(design, k), n_sim=1, signal=2.5, same=False,
                        noise_cov='none', label_type=lt)
            if j % 2:
                case['rdm_dtype'] = 'float32'
            if case['model'] == 'weighted':
                case['via'] = 'loops'
            bd.check(orc_exact_rdm, case, 'rdm-dtype=%s,labels=%s' % (case.get('rdm_dtype', 'float64'), lt),
                     function='make_dataset')
    bd.done()
    bdp.done()
    bds.extend([bd, bdp])

    # ---- exact RDM: extreme but legitimate units of the model RDM and of the signal strength ------------------------------
    scales = (1e-6, 1e-10, 1e6, 1e12, 1e20)
    signals = (1.0, 1e-26, 1e-12, 1e6, 1e12)
    ukinds = ('generic', 'simplex', 'highdim', 'line', 'lowrank', 'duplicate')
    bd = Bounded(run, 'C18/exact-rdm-units', OB_RDM,
                 'model RDM in units %r (and 1) x signal strength in %r, n_cond in (2, 3, 5), n_channel in n_cond + {0, 2}, point '
                 'sets %r, model classes / designs cycled; signal strength 0 (3 cases); rel. tol %.0e and (obligation %s) %.0e'
                 % (scales, signals, ukinds, TOL_STRUCT, OB_PREC, TOL_EXACT), function='make_dataset')
    bdp = Bounded(run, 'C18/exact-precision-units', OB_PREC, 'the cases of C18/exact-rdm-units with signal > 0 at rel. tol %.0e'
                  % TOL_EXACT, function='make_signal')
    k = 0

    def unit_case(k, n_cond, sc, sig):
        design = DESIGNS2[k % len(DESIGNS2)]
        case = dict(seed=63000 + k, n_cond=n_cond, n_channel=n_cond + 2 * (k % 2), kind=ukinds[k % len(ukinds)], design=design,
                    model=MODELS[k % len(MODELS)], n_part=_np_part(design, k), n_sim=1 + k % 2, signal=sig, same=bool(k % 2),
                    noise_cov='none')
        if sc is not None:
            case['rdm_scale'] = sc
        if case['model'] == 'weighted':
            case['via'] = 'loops'
        return case

    for n_cond in (2, 3, 5):
        for sc in scales + (None,):
            for sig in signals:
                if sc is None and sig == 1.0:
                    continue
                k += 1
                case = unit_case(k, n_cond, sc, sig)
                bd.check(orc_exact_rdm, case, 'extreme-units', function='make_dataset')
                bdp.check(orc_exact_precision, case, 'extreme-units', function='make_signal')
    for n_cond in (2, 3, 5):
        k += 1
        bd.check(orc_exact_rdm, unit_case(k, n_cond, None, 0.0), 'signal-zero', function='make_dataset')
    if True:   # repaired in /repo 088a0e02 (was pending triage): model-rdm-tiny-units
        # a model RDM whose entries are of the order 1e-14 or smaller (an embeddable RDM in small units): make_signal discards
        # every pivot of the second-moment matrix below the ABSOLUTE threshold 1e-15, the simulated data are (partly) zero
        # (9 of these 12 cases fail on the unchanged tree, the 1e-14 ones only partly; units 1e-12 fail for point sets with one short axis)
        for n_cond in (2, 3, 5):
            for sc in (1e-14, 1e-16, 1e-20, 1e-26):
                k += 1
                bd.check(orc_exact_rdm, dict(unit_case(k, n_cond, sc, 1.0), kind='generic'), 'model-rdm-tiny-units',
                         function='make_signal')
    bd.done()
    bdp.done()
    bds.extend([bd, bdp])

    # ---- exact RDM: sizes beyond the quick block -------------------------------------------------------------------------
    big = (12, 16, 24) + ((40,) if thorough else ())
    bd = Bounded(run, 'C18/exact-rdm-sizes', OB_RDM,
                 'n_cond in %r x n_channel in {n_cond, n_cond+1, 64 (120 for n_cond=40)} x (n_part, n_sim) in {(1, 5), (7, 1)}, '
                 'designs / label types / model classes cycled, rel. tol %.0e' % (big, TOL_STRUCT), function='make_dataset')
    k = 0
    for n_cond in big:
        for n_channel in (n_cond, n_cond + 1, 120 if n_cond == 40 else 64):
            for n_part, n_sim in ((1, 5), (7, 1)):
                k += 1
                design = DESIGNS2[k % len(DESIGNS2)]
                if design in ('unbalanced',) and n_part == 1:
                    design = 'shuffled'
                case = dict(seed=64000 + k, n_cond=n_cond, n_channel=n_channel, kind=KINDS[k % len(KINDS)], design=design,
                            model=MODELS[k % len(MODELS)], n_part=n_part, n_sim=n_sim, signal=SIGNALS[k % len(SIGNALS)],
                            same=bool(k % 2), noise_cov=NOISE_COVS[k % 4], label_type=LABEL_TYPES[k % len(LABEL_TYPES)])
                if case['model'] == 'weighted':
                    case['via'] = 'loops'
                bd.check(orc_exact_rdm, case, 'many-conditions', function='make_signal' if n_channel == n_cond else 'make_dataset')
    bd.done()
    bds.append(bd)

    # ---- descriptors: label types, int / numpy scalars, extreme values of signal and noise -------------------------------
    bd = Bounded(run, 'C18/descriptors-sweep', OB_DESC,
                 'n_cond in 2..4 x label types %r x signal / noise as python float, int, np.int64, np.float64 x (signal, noise) in '
                 '{(1, 0), (4, 9), (1e-20, 1e-26), (1e12, 1e6), (300, 0)}; designs (incl. descending / interleaved), model '
                 'classes, exact / same options cycled' % (LABEL_TYPES,), function='make_dataset')
    k = 0
    for n_cond in range(2, 5):
        for lt in LABEL_TYPES:
            for nt in NUM_TYPES:
                k += 1
                if not thorough and k % 2:
                    continue
                sig, noi = ((1.0, 0.0), (4.0, 9.0), (1e-20, 1e-26), (1e12, 1e6), (300.0, 0.0))[k % 5]
                design = DESIGNS2[k % len(DESIGNS2)]
                case = dict(seed=65000 + k, n_cond=n_cond, n_channel=(2, n_cond, 9)[k % 3], kind=KINDS[k % len(KINDS)],
                            model=MODELS[k % len(MODELS)], design=design, exact=bool(k % 2), same=bool((k // 2) % 2),
                            n_part=_np_part(design, k), n_sim=1 + k % 3, signal=sig, noise=noi,
                            noise_cov=NOISE_COVS[(k // 2) % 4], label_type=lt)
                if nt:
                    case['num_type'] = nt
                bd.check(orc_descriptors, case, 'labels=%s' % lt, function='make_dataset')
    bd.done()
    bds.append(bd)

    # ---- same / fresh signal: units, more simulations, label types -------------------------------------------------------
    units = (1e-20, 1e-12, 1e6, 1e12)
    bd = Bounded(run, 'C18/same-signal-sweep', OB_SAME,
                 'signal and noise variance both in units %r (signal in {1, 4, 0.25} x unit, noise in {0, 0.5} x unit), model RDM in '
                 'units {1, 1e-6, 1e6}; n_cond in 2..4, n_channel in {n_cond, 10}, n_sim in 2..6, same on/off; label types, designs, '
                 'int-typed signal cycled' % (units,), function='make_dataset')
    k = 0
    for n_cond in range(2, 5):
        for n_channel in (n_cond, 10):
            for u in units:
                for same in (True, False):
                    for noise in (0.0, 0.5):
                        k += 1
                        if not thorough and k % 2 == (n_cond % 2):
                            continue
                        design = DESIGNS2[k % len(DESIGNS2)]
                        case = dict(seed=66000 + k, n_cond=n_cond, n_channel=n_channel, kind=('generic', 'simplex', 'highdim')[k % 3],
                                    model=MODELS[k % len(MODELS)], design=design, n_part=_np_part(design, k), n_sim=2 + k % 5,
                                    signal=(1.0, 4.0, 0.25)[k % 3] * u, same=same, exact=bool((k // 2) % 2) or n_channel == 10,
                                    noise=noise * u, noise_cov=NOISE_COVS[(k // 3) % 4],
                                    label_type=LABEL_TYPES[k % len(LABEL_TYPES)])
                        if k % 3 == 0:
                            case['rdm_scale'] = (1e-6, 1e6)[(k // 3) % 2]
                        if u >= 1e6 and k % 4 == 0:
                            case['num_type'] = 'int'
                        bd.check(orc_same_signal, case, ('same' if same else 'fresh') + ',extreme-units', function='make_dataset')
    bd.done()
    bds.append(bd)

    # ---- noise: extreme variances, int-typed variances, typed covariance matrices ----------------------------------------
    pairs = ((1e-20, 1e-12), (1e12, 1e8), (1e-26, 4e-26), (1e6, 1e-6), (4, 9), (1, 16))
    covs = NOISE_COVS + ('identity-int', 'diag-f32')
    bd = Bounded(run, 'C18/noise-sweep', OB_NOISE,
                 '(noise, noise2) in %r (the last two passed as python int), signal in {1, 2.5} and in {1, 2.5} x noise; noise '
                 'covariance in %r; n_cond in 2..4, n_channel in {n_cond, 8}; label types / designs / models cycled; variance level '
                 'of i.i.d. noise for noise in {1e-16, 1e10, 4 (int)} on >= 4000 samples' % (pairs, covs), function='make_dataset')
    k = 0
    for n_cond in range(2, 5):
        for n_channel in sorted({n_cond, 8}):
            for (v1, v2) in pairs:
                for nc_ in covs:
                    k += 1
                    if not thorough and k % 3:
                        continue
                    design = DESIGNS2[k % len(DESIGNS2)]
                    case = dict(seed=67000 + k, n_cond=n_cond, n_channel=n_channel, kind=('generic', 'simplex', 'highdim')[k % 3],
                                model=MODELS[k % len(MODELS)], design=design, n_part=_np_part(design, k), n_sim=2,
                                signal=(1.0, 2.5)[k % 2] * (v1 if (k // 2) % 2 else 1.0), same=bool((k // 2) % 2), noise=v1,
                                noise2=v2, noise_cov=nc_, label_type=LABEL_TYPES[k % len(LABEL_TYPES)])
                    if isinstance(v1, int):
                        case['num_type'] = 'int'
                    bd.check(orc_noise, case, 'noise-extreme-units' if isinstance(v1, float) else 'noise-int-typed',
                             function='make_dataset')
    for j, (v1, nc_, nt) in enumerate(((1e-16, 'none', None), (1e10, 'identity', None), (4, 'identity-int', 'int'))):
        case = dict(seed=67900 + j, n_cond=4, n_channel=100, kind='generic', model='fixed', design='vector', n_part=10,
                    n_sim=1, signal=1.0, noise=v1, noise2=3 * v1, noise_cov=nc_)
        if nt:
            case['num_type'] = nt
        bd.check(orc_noise, case, 'noise-variance-level', function='make_dataset')
    bd.done()
    bds.append(bd)

    # ---- call sequences ------------------------------------------------------------------------------------------------------
    n_seed = 2 if thorough else 1
    bd = Bounded(run, 'C18/call-sequence', OB_SEQ,
                 'n_cond in 2..5 x n_channel in {n_cond, n_cond+3} x same on/off x noise in {0, 0.5}, %d seed(s); per case four '
                 'calls: model A, model A again after the same seed, model B of the same class, name and shape (other point '
                 'set, other signal strength), model A without re-seeding; designs (incl. design matrices of other dtypes), label types, model '
                 'classes, typed model RDMs and noise covariances cycled' % n_seed, function='make_dataset')
    k = 0
    for seed in range(n_seed):
        for n_cond in range(2, 6):
            for n_channel in (n_cond, n_cond + 3):
                for same in (True, False):
                    for noise in (0.0, 0.5):
                        k += 1
                        design = DESIGNS2[k % len(DESIGNS2)]
                        case = dict(seed=68000 + 100 * seed + k, n_cond=n_cond, n_channel=n_channel,
                                    kind=('generic', 'integer', 'highdim')[k % 3], kindB=('simplex', 'generic', 'line')[k % 3],
                                    model=MODELS[k % len(MODELS)], design=design, n_part=_np_part(design, k), n_sim=1 + k % 3,
                                    signal=(2.5, 4.0)[k % 2], signalB=0.25, same=same, noise=noise,
                                    noise_cov=NOISE_COVS[k % 4], label_type=LABEL_TYPES[k % len(LABEL_TYPES)])
                        if k % 3 == 1:            # stored dtype: both models from integer point sets (other seed = other content)
                            case['rdm_dtype'] = ('int64', 'uint8', 'float32')[(k // 3) % 3]
                            case['kindB'] = 'integer'
                        if design.startswith('matrix'):
                            case['z_dtype'] = Z_DTYPES[1 + k % 4]
                        bd.check(orc_sequence, case, 'call-sequence' + (',noise' if noise else ',noise=0'), function='make_dataset')
    bd.done()
    bds.append(bd)

    # ---- environment: new interpreter, other PYTHONHASHSEED ----------------------------------------------------------------
    import os
    hashseeds = (1, 2, 3, 31337, 4294967295) if thorough else (1, 31337)
    batch = []
    k = 0
    for lt in ('str', 'str', 'str', 'int64', 'float', 'str', 'close-float', 'str'):
        k += 1
        design = ('shuffled', 'descending', 'interleaved', 'labels', 'unbalanced', 'labels', 'shuffled', 'matrix-shuffled')[k - 1]
        batch.append(['C18/exact-rdm', dict(seed=69000 + k, n_cond=3 + k % 4, n_channel=3 + k % 4 + k % 2, kind='generic',
                                            design=design, model=('fixed', 'select', 'weighted-none', 'fixed-rdms')[k % 4],
                                            n_part=2, n_sim=1 + k % 2, signal=2.5, same=bool(k % 2), noise_cov='none',
                                            label_type=lt)])
    batch.append(['C18/descriptors', dict(seed=69100, n_cond=4, n_channel=5, kind='generic', model='select', design='shuffled',
                                          exact=True, same=False, n_part=2, n_sim=2, signal=2.5, noise=0.7, noise_cov='diag',
                                          label_type='str')])
    batch.append(['C18/same-signal', dict(seed=69101, n_cond=4, n_channel=6, kind='generic', model='fixed', design='labels',
                                          exact=True, same=True, n_part=2, n_sim=3, signal=4.0, noise=0.5, noise_cov='none',
                                          label_type='str')])
    for seq in (['b', 'a', 'B', 'a'], ['9', '10', '9', 'b2', 'b10'], ['z', 'Z', 'y', 'Y', 'z'], ['cond_10', 'cond_9', 'cond_10']):
        batch.append(['C18/indicator', dict(labels=seq)])
    bd = Bounded(run, 'C18/fresh-interpreter', OB_FRESH,
                 'new interpreters with PYTHONHASHSEED in %s (this process: %s), each running %d cases (exact RDM with string / '
                 'integer / float labels in shuffled, descending, interleaved, unbalanced order, descriptors, same signal, string '
                 'indicator) and returning the simulated data, which must equal those of this process'
                 % (list(hashseeds), os.environ.get('PYTHONHASHSEED', 'unset'), len(batch)), function='make_dataset')
    for hs in hashseeds:
        bd.check(orc_fresh, dict(hashseed=hs, batch=batch), 'other-hash-seed', function='make_dataset')
    bd.done()
    bds.append(bd)
