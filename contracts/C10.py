"""C10 -- RDM container operations never change which value belongs to which pair."""
import z3

from vf.pyvc.values import V, SV, Obj, SeqV, CaseV, ArrV, DictV, Undecided, fresh_name
from vf.pyvc.api import FuncCheck
from contracts.common import new_engine, finish_engine
from contracts._wrap import z3_lemma, finish, replay  # noqa

LEVEL = 'other'
RU = 'rsatoolbox.util.rdm_utils.'


def lemmas(run):
    """K0: the condensed (scipy squareform / triu_indices) order is a bijection from pairs p<q<n onto [0, n(n-1)/2),
    increasing in lexicographic order; row offsets C(p) = p*n - p(p+1)/2."""
    f = []
    n, p, q, p2, q2 = z3.Ints('n p q p2 q2')
    tri2 = lambda a, b: 2 * n * a - a * (a + 1) + 2 * (b - a - 1)        # twice the condensed index
    dom = lambda a, b: z3.And(0 <= a, a < b, b < n)
    f.append(z3_lemma(run, 'C10/lemma/K0-condensed-index-in-range',
                      z3.Implies(dom(p, q), z3.And(tri2(p, q) >= 0, tri2(p, q) < n * (n - 1))),
                      doc='0 <= tri(n,p,q) < n(n-1)/2 for 0 <= p < q < n'))
    f.append(z3_lemma(run, 'C10/lemma/K0-condensed-index-lexicographically-increasing',
                      z3.Implies(z3.And(dom(p, q), dom(p2, q2), z3.Or(p < p2, z3.And(p == p2, q < q2))), tri2(p, q) < tri2(p2, q2)),
                      doc='(p,q) <lex (p2,q2) => tri(p,q) < tri(p2,q2): the index is injective, hence (with the range) a bijection'))
    f.append(z3_lemma(run, 'C10/lemma/K0-row-offsets',
                      z3.Implies(z3.And(0 <= p, p + 1 < n), tri2(p + 1, p + 2) - tri2(p, p + 1) == 2 * (n - 1 - p)),
                      doc='row p of the condensed form holds n-1-p entries'))
    # order-isomorphism used by subset_pattern: keeping the pairs whose two conditions are kept enumerates the condensed
    # order of the sub-matrix (monotone re-indexing r: kept conditions -> ranks)
    r = z3.Function('rank', z3.IntSort(), z3.IntSort())
    a, b, c, d = z3.Ints('a b c d')
    mono = z3.ForAll([a, b], z3.Implies(a < b, r(a) < r(b)))
    f.append(z3_lemma(run, 'C10/lemma/kept-pairs-keep-their-relative-order',
                      z3.Implies(z3.And(a < b, c < d, z3.Or(a < c, z3.And(a == c, b < d))),
                                 z3.Or(r(a) < r(c), z3.And(r(a) == r(c), r(b) < r(d)))),
                      assumptions=[mono],
                      doc='a strictly monotone re-indexing of conditions preserves the lexicographic order of pairs'))
    return f


def check_size_recovery(run, E):
    """K1: the number of conditions is recovered from the vector length for EVERY size"""
    for fn, arg in (('_get_n_from_reduced_vectors', 'array'), ('_get_n_from_length', 'int')):
        ck = FuncCheck(E, run, 'C10', RU + fn, '')

        def mk(E, arg=arg):
            m = z3.Int('m')
            n = z3.Int('n')
            if arg == 'array':
                x = E.sym_val('x', tag='ndarray')
                x.shape = (z3.Int('n_rdm'), m)
                return [x], {}, [m >= 0, n >= 1, 2 * m == n * (n - 1)]
            return [SV(m, 'int')], {}, [m >= 0, n >= 1, 2 * m == n * (n - 1)]

        def post(ck, E, args, kw, p, fn=fn):
            n, m = z3.Int('n'), z3.Int('m')
            res = E.as_int(p.value)
            ck.ensure('post/n-recovered-for-every-size-with-at-least-two-conditions', z3.Implies(n >= 2, res == n))
            if fn == '_get_n_from_reduced_vectors':
                ck.ensure('post/empty-vector-means-one-condition', z3.Implies(m == 0, res == 1))
        ck.execute(mk, post=post, allow_raise=lambda *a: None)
        yield ck


def run(run):
    fails = lemmas(run)
    E = new_engine(run)
    for ck in check_size_recovery(run, E):
        fails += ck.failed
    finish_engine(E, run)
    finish(run, fails, 'C10')
    run.explanation = ('lemma layer (z3): condensed-index bijection and order-isomorphism of kept pairs; engine A: size recovery from the '
                       'vector length for every size (exact sqrt/ceil assumed below 2^52); bounded tier: model-based operation histories '
                       'against an abstract view with ghost ids')
