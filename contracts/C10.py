"""C10 -- RDM container operations never change which value belongs to which pair."""
import z3

from vf.pyvc.values import V, SV, Obj, SeqV, CaseV, ArrV, DictV, Undecided, fresh_name
from vf.pyvc.api import FuncCheck
from contracts.common import new_engine, finish_engine
from contracts._wrap import z3_lemma, finish, replay  # noqa

LEVEL = 'other'
RU = 'rsatoolbox.util.rdm_utils.'


def lemmas(run):
    """K0: the condensed (scipy squareform / triu_indices) order is a bijection from pairs p<q<n onto [0, n(n-1)/2),
    increasing in lexicographic order; row offsets C(p) = p*n - p(p+1)/2."""
    f = []
    n, p, q, p2, q2 = z3.Ints('n p q p2 q2')
    tri2 = lambda a, b: 2 * n * a - a * (a + 1) + 2 * (b - a - 1)        # twice the condensed index
    dom = lambda a, b: z3.And(0 <= a, a < b, b < n)
    f.append(z3_lemma(run, 'C10/lemma/K0-condensed-index-in-range',
                      z3.Implies(dom(p, q), z3.And(tri2(p, q) >= 0, tri2(p, q) < n * (n - 1))),
                      doc='0 <= tri(n,p,q) < n(n-1)/2 for 0 <= p < q < n'))
    f.append(z3_lemma(run, 'C10/lemma/K0-condensed-index-lexicographically-increasing',
                      z3.Implies(z3.And(dom(p, q), dom(p2, q2), z3.Or(p < p2, z3.And(p == p2, q < q2))), tri2(p, q) < tri2(p2, q2)),
                      doc='(p,q) <lex (p2,q2) => tri(p,q) < tri(p2,q2): the index is injective, hence (with the range) a bijection'))
    f.append(z3_lemma(run, 'C10/lemma/K0-row-offsets',
                      z3.Implies(z3.And(0 <= p, p + 1 < n), tri2(p + 1, p + 2) - tri2(p, p + 1) == 2 * (n - 1 - p)),
                      doc='row p of the condensed form holds n-1-p entries'))
    # order-isomorphism used by subset_pattern: keeping the pairs whose two conditions are kept enumerates the condensed
    # order of the sub-matrix (monotone re-indexing r: kept conditions -> ranks)
    r = z3.Function('rank', z3.IntSort(), z3.IntSort())
    a, b, c, d = z3.Ints('a b c d')
    mono = z3.ForAll([a, b], z3.Implies(a < b, r(a) < r(b)))
    f.append(z3_lemma(run, 'C10/lemma/kept-pairs-keep-their-relative-order',
                      z3.Implies(z3.And(a < b, c < d, z3.Or(a < c, z3.And(a == c, b < d))),
                                 z3.Or(r(a) < r(c), z3.And(r(a) == r(c), r(b) < r(d)))),
                      assumptions=[mono],
                      doc='a strictly monotone re-indexing of conditions preserves the lexicographic order of pairs'))
    return f


def check_size_recovery(run, E):
    """K1: the number of conditions is recovered from the vector length for EVERY size"""
    for fn, arg in (('_get_n_from_reduced_vectors', 'array'), ('_get_n_from_length', 'int')):
        ck = FuncCheck(E, run, 'C10', RU + fn, '')

        def mk(E, arg=arg):
            m = z3.Int('m')
            n = z3.Int('n')
            if arg == 'array':
                x = E.sym_val('x', tag='ndarray')
                x.shape = (z3.Int('n_rdm'), m)
                return [x], {}, [m >= 0, n >= 1, 2 * m == n * (n - 1)]
            return [SV(m, 'int')], {}, [m >= 0, n >= 1, 2 * m == n * (n - 1)]

        def post(ck, E, args, kw, p, fn=fn):
            n, m = z3.Int('n'), z3.Int('m')
            res = E.as_int(p.value)
            ck.ensure('post/n-recovered-for-every-size-with-at-least-two-conditions', z3.Implies(n >= 2, res == n))
            if fn == '_get_n_from_reduced_vectors':
                ck.ensure('post/empty-vector-means-one-condition', z3.Implies(m == 0, res == 1))
        ck.execute(mk, post=post, allow_raise=lambda *a: None)
        yield ck


DU = 'rsatoolbox.util.descriptor_utils.'


def _in_value(E, x, value, case):
    """x (z3 V term) is one of the requested values: x == value, or x == value[i] for some i"""
    if case == 'scalar':
        return x == E.toV(value)
    i = z3.Int(fresh_name('vi'))
    return z3.Exists([i], z3.And(i >= 0, i < value.zlen(), x == E.toV(E.seq_elem(value, i))))


def check_selection_helpers(run, E, pid='C10', fns=('bool_index', 'num_index'), gathers=True):
    """K6 / K7: bool_index, num_index, extract_dict, subset_descriptor -- for ALL descriptor columns (hashable scalars,
    duplicates allowed), all value lists / scalars and all index sequences.  (Other properties that depend on a helper
    discharge its contract in their own run: pid / fns / gathers select what is generated and under which property.)"""
    E.inline |= {DU + 'bool_index'}       # num_index is verified with the body of bool_index (itself under contract above)
    for fn in fns:
        for case in ('scalar', 'list'):
            ck = FuncCheck(E, run, pid, DU + fn, f'value={case}')

            def mk(E, case=case):
                desc = E.sym_list('desc', etag='scalar')
                value = E.sym_list('value', etag='scalar') if case == 'list' else E.sym_val('value', tag='scalar')
                return [desc, value], {}, []

            def post(ck, E, args, kw, p, fn=fn, case=case):
                desc, value = args
                n = desc.zlen()
                res = p.value
                ok = isinstance(res, SeqV)
                ck.ensure('post/returns-a-1d-array', z3.BoolVal(ok), structure=True, note=repr(res))
                if not ok:
                    return
                t = z3.Int(fresh_name('t'))
                if fn == 'bool_index':
                    ck.ensure('post/one-flag-per-entry', res.zlen() == n)
                    flag = E._zb(E.truth(E.seq_elem(res, t)))
                    ck.ensure('post/flag-is-set-exactly-where-the-descriptor-has-a-requested-value',
                              z3.Implies(z3.And(t >= 0, t < n), flag == _in_value(E, E.toV(E.seq_elem(desc, t)), value, case)))
                else:
                    L = res.zlen()
                    st = E.as_int(E.seq_elem(res, t))
                    in_t = z3.And(t >= 0, t < L)
                    ck.ensure('post/indices-are-entries-with-a-requested-value',
                              z3.Implies(in_t, z3.And(st >= 0, st < n, _in_value(E, E.toV(E.seq_elem(desc, st)), value, case))))
                    j = z3.Int(fresh_name('j'))
                    pj = res.inv(j) if res.inv is not None else None
                    ck.ensure('post/every-entry-with-a-requested-value-is-listed', z3.BoolVal(False) if pj is None else z3.Implies(
                        z3.And(j >= 0, j < n, _in_value(E, E.toV(E.seq_elem(desc, j)), value, case)),
                        z3.And(pj >= 0, pj < L, E.as_int(E.seq_elem(res, pj)) == j)))
                    t2 = z3.Int(fresh_name('t'))
                    ck.ensure('post/each-once-in-original-order',
                              z3.Implies(z3.And(in_t, t2 > t, t2 < L), E.as_int(E.seq_elem(res, t2)) > st))
            ck.execute(mk, post=post, allow_raise=lambda *a: None)
            yield ck
    for qual in (('rsatoolbox.util.data_utils.extract_dict', DU + 'subset_descriptor') if gathers else ()):
        ck = FuncCheck(E, run, pid, qual, 'indices=sequence')
        hold = {}

        def mk(E):
            a, b = E.sym_list('col_a', etag='scalar'), E.sym_list('col_b', etag='scalar')
            idx = E.lib['numpy.random.randint'](E, 0, SV(a.length, 'int'), size=SV(z3.Int('n_idx'), 'int'))   # ANY in-range indices
            idx.kind = 'list'
            hold.update(a=a, b=b, idx=idx)
            return [DictV({'a': a, 'b': b}), idx], {}, [a.length == b.length, z3.Int('n_idx') >= 0]

        def post(ck, E, args, kw, p):
            res = p.value
            ok = isinstance(res, DictV) and set(res.d) == {'a', 'b'}
            ck.ensure('post/every-key-is-kept', z3.BoolVal(ok), note=repr(res))
            if not ok:
                return
            idx = hold['idx']
            t = z3.Int(fresh_name('t'))
            in_t = z3.And(t >= 0, t < idx.zlen())
            for key in ('a', 'b'):
                col = E.as_seq(res.d[key])
                ck.ensure(f'post/column-{key}-has-one-entry-per-index', col.zlen() == idx.zlen())
                ck.ensure(f'post/column-{key}-entry-t-is-the-source-entry-at-index-t',
                          z3.Implies(in_t, E.veq(E.seq_elem(col, t), E.seq_elem(hold[key], E.as_int(E.seq_elem(idx, t))))))
            # the source dictionary is not modified (frame)
            src = args[0]
            ck.ensure('frame/source-dictionary-unchanged', z3.BoolVal(src.d['a'] is hold['a'] and src.d['b'] is hold['b']))
        ck.execute(mk, post=post, allow_raise=lambda *a: None)
        yield ck


def check_subset(run, E, pid='C10'):
    """RDMs.subset(by, value): exactly the RDMs whose descriptor is a requested value, each once, in source order; the
    dissimilarity rows and EVERY rdm descriptor gathered by that same index sequence; other fields are the source's"""
    from contracts.C09 import _self_rdms
    E.inline |= {DU + 'bool_index', DU + 'num_index', 'rsatoolbox.util.data_utils.extract_dict'}
    for case in ('scalar', 'list'):
        ck = FuncCheck(E, run, pid, 'rsatoolbox.rdm.rdms.RDMs.subset', f'value={case}')
        hold = {}

        def mk(E, case=case):
            self_, desc, idx = _self_rdms(E)
            value = E.sym_list('value', etag='scalar') if case == 'list' else E.sym_val('value', tag='scalar')
            hold.update(desc=desc, idx=idx)
            return [self_, 'k', value], {}, [idx.length == desc.length]

        def post(ck, E, args, kw, p, case=case):
            self_, _, value = args
            desc, idx = hold['desc'], hold['idx']
            n = desc.length
            res = p.value
            d = res.fields.get('dissimilarities') if isinstance(res, Obj) else None
            ok = (isinstance(d, SV) and d.app is not None and d.app[0] == 'getitem' and d.app[1][0] is self_.fields['dissimilarities']
                  and isinstance(d.app[1][1], tuple) and len(d.app[1][1]) == 2 and isinstance(d.app[1][1][0], SeqV)
                  and d.app[1][1][1] == slice(None, None, None))
            ck.ensure('post/dissimilarities-are-rows-of-the-source-selected-by-an-index-sequence', z3.BoolVal(bool(ok)), structure=True,
                      note=f'dissimilarities: {d!r}')
            if not ok:
                return
            sel = d.app[1][1][0]
            L = sel.zlen()
            t = z3.Int(fresh_name('t'))
            in_t = z3.And(t >= 0, t < L)
            st = E.as_int(E.seq_elem(sel, t))
            ck.ensure('post/every-kept-rdm-has-a-requested-value',
                      z3.Implies(in_t, z3.And(st >= 0, st < n, _in_value(E, E.toV(E.seq_elem(desc, st)), value, case))))
            j = z3.Int(fresh_name('j'))
            pj = sel.inv(j) if sel.inv is not None else None
            ck.ensure('post/every-rdm-with-a-requested-value-is-kept', z3.BoolVal(False) if pj is None else z3.Implies(
                z3.And(j >= 0, j < n, _in_value(E, E.toV(E.seq_elem(desc, j)), value, case)),
                z3.And(pj >= 0, pj < L, E.as_int(E.seq_elem(sel, pj)) == j)))
            t2 = z3.Int(fresh_name('t'))
            ck.ensure('post/each-once-in-source-order', z3.Implies(z3.And(in_t, t2 > t, t2 < L), E.as_int(E.seq_elem(sel, t2)) > st))
            rd = res.fields.get('rdm_descriptors')
            okd = isinstance(rd, DictV) and set(rd.d) == {'index', 'k'}
            ck.ensure('post/all-descriptor-keys-are-kept', z3.BoolVal(bool(okd)))
            if okd:
                for key, src in (('index', idx), ('k', desc)):
                    col = E.as_seq(rd.d[key])
                    ck.ensure(f'post/descriptor-{key}-has-one-entry-per-kept-rdm', col.zlen() == L)
                    ck.ensure(f'post/descriptor-{key}-is-gathered-by-the-same-indices',
                              z3.Implies(in_t, E.veq(E.seq_elem(col, t), E.seq_elem(src, st))))
            for f in ('descriptors', 'pattern_descriptors', 'dissimilarity_measure'):
                ck.ensure_eq(f'post/{f}-are-the-sources', res.fields.get(f), self_.fields[f])
        ck.execute(mk, post=post, allow_raise=lambda *a: None)
        yield ck


def run(run):
    fails = lemmas(run)
    E = new_engine(run)
    for ck in check_size_recovery(run, E):
        fails += ck.failed
    for ck in check_selection_helpers(run, E):
        fails += ck.failed
    for ck in check_subset(run, E):
        fails += ck.failed
    finish_engine(E, run)
    finish(run, fails, 'C10')
    run.explanation = ('lemma layer (z3): condensed-index bijection and order-isomorphism of kept pairs; engine A: size recovery from the '
                       'vector length for every size (exact sqrt/ceil assumed below 2^52); bounded tier: model-based operation histories '
                       'against an abstract view with ghost ids')
