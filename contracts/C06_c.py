"""C06 (bounded run-time tier, "tier C") -- reported uncertainties and p-values are coherent with the evaluations.

All expected values are computed here from the property statement by literal loops / scipy.stats primitives; repo code
is only used to build inputs (ModelFixed, RDMs, Result) and as the thing under test.

Conventions of the spec side
* models i = 0..M-1, pairs (i, j) with i < j in row-major order (the order of `Result.diff_var`);
* stored covariance V: 0-D (one model), 1-D (diagonal), 2-D, or a 3-stack (two-factor, rdm, pattern bootstrap);
  with two extra rows/columns for the lower / upper noise ceiling iff its last extent differs from M;
* contrasts of one matrix V: model_i = V_ii, diff_ij = V_ii + V_jj - 2 V_ij, ceil_ib = V_ii - 2 V_{i,M+b} + V_{M+b,M+b}
  (without ceiling rows the ceiling is a fixed number: ceil_ib = V_ii);
* documented factor c = n/(n-1), n = min of the given n_rdm / n_pattern, the one given, c = 1 if none is given;
* NaN-aware mean of model i = sum / count over all non-NaN entries of evaluations[:, i];
* "NaN samples": whole bootstrap samples (index along axis 0) that are NaN for all models (the only way the evaluation
  routines produce NaN), optionally also a whole index of one trailing axis (a NaN fold for all samples and models).
  On these patterns nested and flat NaN-aware means coincide, so the spec mean is unambiguous.

Clause of the property                                                        oracle
---------------------------------------------------------------------------  -----------------------------------------
fixed evaluation: SEM and pairwise / against-zero / against-ceiling p-values  C06/fixed-t (orc_fixed_t): eval_fixed on
  = classical paired / one-sample one-sided / one-sample two-sided t of the     seeded RDMs; scipy.stats.ttest_rel /
  per-subject evaluations; covariance = cov(ddof=0)/n with factor n/(n-1)       ttest_1samp and literal formulas; per-subject
                                                                                evaluations re-computed for cosine / corr
model_var, diff_var, noise_ceil_var are the contrasts of the stored           C06/contrasts (orc_contrasts): scalar / vector /
  covariance with the documented n/(n-1) factor                                 matrix (PSD, and symmetric with all entries
                                                                                distinct = pure index plumbing), with /
                                                                                without ceiling rows, Result(...) and
                                                                                extract_variances(...)
dual bootstrap: never above the two-factor variance, never below a corrected  C06/dual-bounds (orc_dual_bounds): 3-stacks,
  single-factor variance that is itself below it                                n_rdm / n_pattern down to 2, None
  (+ the combination formula documented in _dual_bootstrap, beyond the          C06/dual-formula (orc_dual_formula)
  statement; kept apart so that it can be judged separately)
p-values of the t-tests are those of the reported variances, the NaN-aware    C06/t-coherence (orc_t_coherence): 2..5-D arrays
  means and dof (coherence in general); test_all == the three single tests      with NaN samples / folds
all p-values in [0,1], pairwise symmetric, unit diagonal                      C06/p-range (orc_p_range): t-test, bootstrap,
                                                                                ranksum through Result.test_* and the
                                                                                wrappers all_tests / pair_tests / ...
bootstrap tests (docstring of bootstrap_pair_tests: two-sided, ties left      C06/bootstrap-formulas (orc_bootstrap_formulas) in the
  out, 1/N added; a pair tied in ALL samples is treated like the diagonal:      domains C06/bootstrap-pairwise and
  p = 1); zero / ceiling tests within [count/N, (count+1)/N] and [0,1]          C06/bootstrap-zero-ceiling (incl. (2, N) ceilings)
rank-sum tests = Wilcoxon signed-rank tests of the NaN-aware per-subject      C06/ranksum (orc_ranksum): scipy.stats.wilcoxon
  evaluations                                                                   on differences + exact enumeration of all
                                                                                2^n sign patterns (n <= 9, no ties)
t-tests: larger effect at equal variance never yields a larger p-value        C06/monotone (orc_monotone)
model means are the NaN-aware averages (2..5-D)                               C06/means (orc_means)
standard errors non-negative (also for a negative stored variance), CI        C06/sem-ci (orc_sem_ci)
  = mean -/+ sem * t quantile, lo <= mean <= hi (t); lo <= hi and at most
  cut*(N+1) samples outside on either side (bootstrap, NaN-free, enough samples)
permuting the models permutes every output (variances, means, SEM, CI, all    C06/equivariance (orc_equivariance): EVERY
  p-values of all three test types; bootstrap samples with partial ties)        permutation of 2..4 models

every output depends on the inputs of its own Result / call only: same call      C06/call-sequence (orc_call_sequence), class
  twice bit-identical, held outputs unchanged by later calls, no input is           call-sequence of C06/fixed-t (eval_fixed on another
  modified (also read-only arrays), no state shared between Results / calls of      data set of the same shape before, same call twice)
  the same shape
a new interpreter with another PYTHONHASHSEED gives bit-identical outputs         C06/hashseed (orc_hashseed)

Sweeps (round 4; `_sweeps`, optional keys of the case dicts, see `_vary` / `_layout` / `_fixed_inputs`).  The expected values are
always computed from the float64 values of what the library is given, so every sweep is either the same clause on other inputs or
a metamorphic relation that the clause implies (dtype promotion: integer / float32 typed input = same values as float64;
positive scaling: evaluations and ceiling x u, covariance x u^2 => variances x u^2, means / SEM / CI x u, p-values unchanged):
  units        evaluations x 1e-26 .. 1e12 (covariance x unit^2); eval_fixed: data and model RDMs scaled independently 1e-26 .. 1e12
  typed data   evaluations int64 / int16 / uint8 / float32; covariance int64 / int32 / int16 / uint8 / float32; RDM vectors of data
               and models int64 / int16 / uint8 / float32
  containers   models as tuple / single Model; noise ceiling as list / tuple; scalar variance as np.float64; n_rdm / n_pattern / dof
               as np.int64 / np.int32 / float / np.float64; Fortran-ordered, strided, negatively strided and read-only arrays
  repeats      all models with the same name; two identical subjects; an extra str rdm descriptor with repeated values
  sizes        single-element trailing dimensions ((1,), (1,1), (3,1), (1,4), (1,1,1)), 1 and 2 samples, 1..4 subjects for rank-sum,
               3 conditions and 21..30 subjects x 6..8 models for eval_fixed, 6..13 models for the contrasts
  competitors  dual bootstrap: zero stacks, single-factor = two-factor exactly, exactly additive factors, single-factor variance
               within 1e-9 .. 3e-6 (relative) above / below the two-factor one; eval_fixed: models that differ by 1e-2 / 1e-4 only,
               noise levels 1e-3 / 1e-5
  sequences / environment   see C06/call-sequence and C06/hashseed above

Pending triage (fail on the unchanged tree; registrations behind `if False:  # pending triage: <class>` in `_sweeps`)   [TRIAGED since: every class repaired in /repo, recorded as open finding, or dropped -- DESIGN.md 10.10]
  near-identical-models(diff-variance<eps)       DROPPED after triage (expectation below the rounding error of the covariance contrast)
  tiny-units(variance<eps)                       evaluations in units of 1e-9 .. 1e-12: t-test p-values are not those of the reported
                                                 variances (clamp max(var, eps)), whereas get_sem / get_ci scale correctly
  bootstrap-ceiling-per-sample,evaluations>2-D   test_noise('bootstrap') / test_all('bootstrap') raise ValueError for (N, M, k..)
                                                 evaluations with a (2, N) or (2, N, k..) ceiling (= every bootstrap_crossval /
                                                 eval_dual_bootstrap result)
  uint8-covariance-contrast-overflow             uint8 covariance whose ceiling contrast exceeds 255: wrap-around in the input dtype

Known / found on the unchanged tree (own input_class each, see C06_findings.md)
  bootstrap-nc-2xN:nc_tests, bootstrap-nc-2xN:all_tests   ValueError for a per-sample (2, N) noise ceiling, N != 2
  bootstrap-pair-all-tied                                  0/0 -> NaN p-value
  bootstrap-zero-all-nonpositive:zero_tests / :all_tests   p = (N+1)/N > 1
  bootstrap-nc-all-above:nc_tests / :all_tests             p = (N+1)/N > 1
  bootstrap-pairwise,nan-samples                           NaN samples counted as 'not smaller': p depends on model order
  nan-single-model                                         get_means drops samples by model 0 only

NOT covered by this tier
* "for all inputs": everything here is bounded (seeded arrays, small shapes; exhaustive only over the permutations of
  2..4 models within each seeded case).
  The all-reals identities are the business of engines A / B / L (DESIGN C06).
* correctness of scipy.stats distributions (assumed, as in DESIGN).
* rank-sum tests with NaN folds (scipy propagates NaN) and bootstrap p-values with NaN samples (NaN samples are counted
  in N): the statement fixes no formula for them; see observations in C06_findings.md.
* shape of the bootstrap zero / ceiling p-values for > 2-D evaluations (one value per trailing entry, not per model); with a
  per-sample ceiling they raise (pending class above).
* variance below machine eps (clamp max(var, eps) in the t-tests): the normal classes are built with variances >> eps; the cases
  below eps are the pending classes above.
* cv_method 'fixed' / 'crossvalidation' means for arrays that are not 3-D with a single leading sample.
* eval_fixed with a single RDM (no variance, tests raise) and with identical models (difference variance 0: the classical
  t statistic is undefined, the repo clamps the variance at eps).
* bootstrap confidence intervals with NaN samples or with fewer than 1/cut - 1 samples (np.quantile gives NaN).
"""
import functools
import itertools
import math
import warnings

import numpy as np
import scipy.stats as sst

from vf.rt.harness import oracle, Bounded, close

TESTS = ('t-test', 'bootstrap', 'ranksum')
BOOT_CV = ('bootstrap', 'bootstrap_rdm', 'bootstrap_pattern', 'dual_bootstrap', 'bootstrap_crossval')


def _quiet(fn):
    @functools.wraps(fn)
    def wrapper(case):
        with warnings.catch_warnings():
            warnings.simplefilter('ignore')
            with np.errstate(all='ignore'):
                return fn(case)
    return wrapper


# ----------------------------------------------------------------------------------------------------------------------
# spec side
# ----------------------------------------------------------------------------------------------------------------------
def _pairs(n):
    return [(i, j) for i in range(n) for j in range(i + 1, n)]


def _spec_factor(n_rdm, n_pattern):
    ns = [n for n in (n_rdm, n_pattern) if n is not None]
    if not ns:
        return 1.0
    n = min(ns)
    return n / (n - 1)


def _full_matrix(V):
    """0-D / 1-D / 2-D covariance input as a full matrix (1-D: independent evaluations)"""
    V = np.asarray(V, dtype=float)
    if V.ndim == 0:
        return V.reshape(1, 1)
    if V.ndim == 1:
        F = np.zeros((len(V), len(V)))
        for i, v in enumerate(V):
            F[i, i] = v
        return F
    return V


def _spec_contrasts(F, M, nc):
    """(model, diff, ceil) contrasts of ONE full matrix, by explicit loops"""
    mv = np.array([F[i, i] for i in range(M)])
    dv = np.array([F[i, i] + F[j, j] - 2 * F[i, j] for i, j in _pairs(M)])
    if nc:
        cv = np.array([[F[i, i] - 2 * F[i, M + b] + F[M + b, M + b] for b in (0, 1)] for i in range(M)])
    else:
        cv = np.array([[F[i, i], F[i, i]] for i in range(M)])
    return mv, dv.reshape(len(_pairs(M))), cv.reshape(M, 2)


def _spec_mean(E):
    """NaN-aware mean per model over everything but the model axis"""
    out = []
    for i in range(E.shape[1]):
        vals = [float(x) for x in np.asarray(E[:, i]).ravel() if not math.isnan(x)]
        out.append(sum(vals) / len(vals) if vals else float('nan'))
    return np.array(out)


def _spec_nanmean(x):
    vals = [float(v) for v in np.asarray(x).ravel() if not math.isnan(v)]
    return sum(vals) / len(vals)


def _same(a, b, rtol=1e-9, atol=1e-12):
    a = np.asarray(a, dtype=float)
    b = np.asarray(b, dtype=float)
    return a.shape == b.shape and bool(np.allclose(a, b, rtol=rtol, atol=atol, equal_nan=True))


def _fmt(x):
    return np.array2string(np.asarray(x, dtype=float), precision=6, threshold=40).replace('\n', ' ')


def _p_problem(name, p, shape=None):
    """range / NaN check of a p-value array"""
    p = np.asarray(p, dtype=float)
    if shape is not None and p.shape != shape:
        return f'{name}: shape {p.shape}, expected {shape}'
    if np.isnan(p).any():
        return f'{name}: NaN p-value(s) {_fmt(p)}'
    if (p < -1e-12).any() or (p > 1 + 1e-12).any():
        return f'{name}: p-value(s) outside [0,1]: {_fmt(p)} (min {p.min()!r}, max {p.max()!r})'
    return None


def _sym_problem(name, pp, M):
    r = _p_problem(name, pp, (M, M))
    if r:
        return r
    if not np.array_equal(pp, pp.T) and not _same(pp, pp.T, 1e-12, 1e-14):
        return f'{name}: pairwise p-values not symmetric: {_fmt(pp)}'
    if not _same(np.diag(pp), np.ones(M), 0, 1e-12):
        return f'{name}: diagonal of the pairwise p-values is {_fmt(np.diag(pp))}, expected 1'
    return None


# ----------------------------------------------------------------------------------------------------------------------
# input builders (deterministic from the case)
# ----------------------------------------------------------------------------------------------------------------------
def _models(n, names=None):
    from rsatoolbox.model import ModelFixed
    return [ModelFixed('m%d' % (i if names is None else names[i]), np.arange(6.) + (i if names is None else names[i]))
            for i in range(n)]


def _psd(rs, n, scale):
    a = rs.randn(n, 3 * n)
    return scale * (a @ a.T) / (3 * n)


def _mk_cov(rs, kind, M, nc, scale=0.004):
    n = M + (2 if nc else 0)
    if kind == 'scalar':
        return np.array(scale * (0.5 + rs.rand()))
    if kind == 'vector':
        return scale * (0.5 + rs.rand(n))
    if kind == 'matrix':
        return _psd(rs, n, scale)
    if kind == 'sentinel':
        # symmetric, all entries distinct, NOT positive definite (negative contrasts occur): tests pure index plumbing
        vals = rs.permutation(n * (n + 1) // 2) + 1.0
        S = np.zeros((n, n))
        k = 0
        for i in range(n):
            for j in range(i, n):
                S[i, j] = S[j, i] = vals[k] * (1 + 0.01 * k)
                k += 1
        return S
    if kind == 'negative':
        # a stored "covariance" whose first model variance is negative (only the SEM clause is examined on it)
        V = _psd(rs, n, scale)
        V[0, 0] = -V[0, 0] - scale
        return V
    if kind == 'stack':
        base = _psd(rs, n, scale)
        return np.array([base, 0.5 * base + 0.1 * _psd(rs, n, scale), 0.3 * base + 0.1 * _psd(rs, n, scale)])
    raise ValueError(kind)


def _mk_evals(rs, N, M, tail, nan='none', ties=False):
    """evaluations N x M x tail.  Sample 0 is always valid, positive, below every ceiling and different for all models
    (so that no bootstrap test saturates and no pair is tied in all samples)."""
    shape = (N, M) + tuple(tail)
    centre = (0.3 + 0.12 * rs.randn(M)).reshape((1, M) + (1,) * len(tail))
    if ties:
        grid = np.arange(-2, 5) / 6.0
        E2 = rs.choice(grid, size=(N, M))
        for j in range(1, M):       # make model j equal to model j-1 in about a third of the samples
            eq = rs.rand(N) < 0.35
            E2[eq, j] = E2[eq, j - 1]
        E = np.empty(shape)
        E[...] = E2.reshape((N, M) + (1,) * len(tail))
        if tail:                    # per-fold offsets common to all models keep the ties of the sample means
            E = E + 0.01 * rs.randint(-3, 4, size=(N, 1) + tuple(tail))
    else:
        E = centre + 0.2 * rs.randn(*shape)
    E[0] = (0.05 + 0.02 * np.arange(M)).reshape((M,) + (1,) * len(tail))
    nan_samples = []
    if nan in ('samples', 'both') and N >= 4:
        k = 1 + rs.randint(max(1, (N - 3) // 2))
        nan_samples = sorted((1 + rs.permutation(N - 1)[:k]).tolist())
        E[nan_samples] = np.nan
    if nan in ('folds', 'both') and tail and max(tail) >= 2:
        axes = [a for a, n in enumerate(tail) if n >= 2]
        ax = axes[rs.randint(len(axes))]
        idx = [slice(None)] * E.ndim
        idx[2 + ax] = rs.randint(tail[ax])
        E[tuple(idx)] = np.nan
    return E, nan_samples


def _mk_nc(rs, N, shape, nan_samples=(), k=2, level=0.6):
    """noise ceiling: '1d' -> (2,), '2d' -> (2, N), '3d' -> (2, N, k); lower around `level`, upper 0.1 above"""
    if shape == '1d':
        lo = level + 0.03 * rs.randn()
        return np.array([lo, lo + 0.1])
    if shape == '2d':
        lo = level + 0.03 * rs.randn(N)
        nc = np.array([lo, lo + 0.1])
    else:
        lo = level + 0.03 * rs.randn(N, k)
        nc = np.array([lo, lo + 0.1])
    for s in nan_samples:
        nc[:, s] = np.nan
    return nc


# ---- swept dimensions (all optional keys of a case; absent = the plain float64 / C-contiguous / unit 1 input) -------------
#   unit      positive factor: evaluations and ceiling * unit, covariance * unit^2 (other physical units of the same data)
#   edtype    dtype of the evaluation array ('int64', 'int16', 'uint8': rounded values, NaN-free cases only; 'float32')
#   vdtype    dtype of the covariance input ('float32'; integer dtypes only where the builder makes integer-valued matrices)
#   layout    memory layout of every array input: 'F' (Fortran order), 'strided' (every second element of a larger buffer),
#             'reversed' (negative strides), 'readonly' (writeable=False: any in-place write by the library raises)
#   ntype     type of n_rdm / n_pattern / dof: 'np' (np.int64), 'np32', 'float', 'npfloat'
#   mcontainer / nccontainer   models as 'tuple' / 'single' (one Model, not in a list); ceiling as 'list' / 'tuple'
#   names     'dup': all models carry the same name (no output may be keyed by the name)
# The expected values are always computed from the float64 values of what was handed to the library.
def _layout(a, layout):
    a = np.asarray(a)
    if not layout or layout == 'C' or a.ndim == 0:
        return a.copy()
    if layout == 'F':
        return np.asfortranarray(a.copy())
    if layout == 'strided':
        big = np.full(tuple(2 * n for n in a.shape), 77, dtype=a.dtype)
        view = big[tuple(slice(None, None, 2) for _ in a.shape)]
        view[...] = a
        return view
    if layout == 'reversed':
        rev = a[tuple(slice(None, None, -1) for _ in a.shape)].copy()
        return rev[tuple(slice(None, None, -1) for _ in a.shape)]
    if layout == 'readonly':
        b = a.copy()
        b.setflags(write=False)
        return b
    raise ValueError(layout)


def _vary(case, E, nc, V):
    """apply unit / edtype / vdtype of the case; returns plain (C-contiguous) arrays of the values the library will get"""
    unit = case.get('unit', 1.0)
    if unit != 1.0:
        E, nc = E * unit, nc * unit
        V = None if V is None else V * unit ** 2
    edt = case.get('edtype')
    if edt:
        if edt != 'float32':
            if np.isnan(E).any():
                raise ValueError('integer evaluations cannot hold NaN samples (case design)')
            info = np.iinfo(edt)
            E = np.clip(np.round(np.abs(E) if info.min == 0 else E), info.min, info.max)
        E = E.astype(edt)
    vdt = case.get('vdtype')
    if vdt and V is not None:
        V = V.astype(vdt)
    return E, nc, V


def _ntyped(x, ntype):
    if x is None or not ntype:
        return x
    return {'np': np.int64, 'np32': np.int32, 'float': float, 'npfloat': np.float64}[ntype](x)


def _contained(models, nc, case):
    mc, ncc = case.get('mcontainer'), case.get('nccontainer')
    if mc == 'tuple':
        models = tuple(models)
    elif mc == 'single':
        (models,) = models
    if ncc == 'list':
        nc = np.asarray(nc).tolist()
    elif ncc == 'tuple':
        nc = tuple(np.asarray(nc).tolist())
    return models, nc


def _units(case):
    """(unit, rtol, atol factor) for comparisons of quantities in the units of the evaluations"""
    f32 = case.get('edtype') == 'float32'
    return case.get('unit', 1.0), (1e-5 if f32 else 1e-9), (1e6 if f32 else 1.0)


def _vtol(case, V):
    """(rtol, atol) for comparisons of variances"""
    if case.get('vdtype') == 'float32':
        return 1e-5, 1e-5 * float(np.abs(np.asarray(V, dtype=float)).max())
    return 1e-9, 1e-12 * case.get('unit', 1.0) ** 2


def _build(case):
    """Result + everything it was built from"""
    from rsatoolbox.inference import Result
    rs = np.random.RandomState(case['seed'])
    M, N, tail = case['M'], case['N'], tuple(case.get('tail', ()))
    nc_rows = case.get('ncrows', True)
    E, nan_samples = _mk_evals(rs, N, M, tail, case.get('nan', 'none'), case.get('ties', False))
    nc = _mk_nc(rs, N, case.get('ncshape', '1d'), nan_samples, k=(tail[-1] if tail else 2), level=case.get('nclevel', 0.6))
    V = _mk_cov(rs, case.get('cov', 'matrix'), M, nc_rows, case.get('scale', 0.004))
    E, nc, V = _vary(case, E, nc, V)
    kw = dict(dof=case.get('dof', 5), n_rdm=case.get('n_rdm'), n_pattern=case.get('n_pattern'))
    lay, nt = case.get('layout'), case.get('ntype')
    models, nc_in = _contained(_models(M, names=[0] * M if case.get('names') == 'dup' else None), _layout(nc, lay), case)
    res = Result(models, _layout(E, lay), 'corr', case.get('cvm', 'bootstrap'), nc_in, variances=_layout(V, lay),
                 **{k: _ntyped(v, nt) for k, v in kw.items()})
    return res, E, nc, V, kw


# ----------------------------------------------------------------------------------------------------------------------
# oracles
# ----------------------------------------------------------------------------------------------------------------------
def _fixed_inputs(case):
    """models, a factory of the data RDMs, and the float64 values (model vectors, data) that eval_fixed gets.
    Swept: dscale / mscale (units of data and models), dtype (integer-valued or float32 RDM vectors), near (competitor models
    close to model 0), dupsubj (two identical subjects), rdmdesc (extra, repeated str rdm descriptor), layout"""
    from rsatoolbox.rdm import RDMs
    from rsatoolbox.model import ModelFixed
    rs = np.random.RandomState(case['seed'])
    n, C, M = case['n_rdm'], case['n_cond'], case['M']
    P = C * (C - 1) // 2
    truth = 0.2 + rs.rand(P)
    data = np.abs(truth + case.get('noise', 0.5) * rs.randn(n, P)) + 0.01
    vecs = [np.abs(truth + (0.2 + 0.5 * k) * rs.randn(P)) + 0.01 for k in range(M)]
    near = case.get('near')
    if near:
        vecs = [vecs[0]] + [vecs[0] + near * k * (0.5 + rs.rand(P)) for k in range(1, M)]
    if case.get('dupsubj') and n >= 3:
        data[1] = data[0]
    data = data * case.get('dscale', 1.0)
    vecs = [v * case.get('mscale', 1.0) for v in vecs]
    dt = case.get('dtype')
    if dt:
        if dt != 'float32':
            data, vecs = np.round(data * 20 + 1), [np.round(v * 20 + 1) for v in vecs]
        data, vecs = data.astype(dt), [v.astype(dt) for v in vecs]
    lay = case.get('layout')
    desc = {'subj': [('b', 'a', 'c')[s % 3] for s in range(n)]} if case.get('rdmdesc') else None
    if case.get('index_repeats'):
        # a stack as it comes out of a resample / selection: its 'index' descriptor has repeated values and gaps (every RDM is
        # still one subject of the classical across-subject statistics)
        desc = dict(desc or {}, index=[(0, 0, 2, 5, 5, 5, 7, 9, 9, 11, 12, 12)[s % 12] for s in range(n)])
    models = [ModelFixed('m%d' % k, _layout(v, lay)) for k, v in enumerate(vecs)]
    return (models, lambda: RDMs(_layout(data, lay), rdm_descriptors=desc),
            [np.asarray(v, dtype=float) for v in vecs], np.asarray(data, dtype=float))


@oracle('C06/fixed-t')
@_quiet
def orc_fixed_t(case):
    """eval_fixed: SEM, variances and the three t-tests are the classical across-subject statistics"""
    from rsatoolbox.inference import eval_fixed
    n, C, M, method = case['n_rdm'], case['n_cond'], case['M'], case['method']
    P = C * (C - 1) // 2
    models, mk_data, vecs, data = _fixed_inputs(case)
    degenerate = case.get('degenerate', 1e-10)
    pr = case.get('prtol', 1e-7)     # looser only where the difference variance is a small fraction of the variances
    model_arg = models[0] if case.get('mcontainer') == 'single' else (tuple(models) if case.get('mcontainer') == 'tuple' else models)
    if case.get('sequence'):
        # another data set of the same shape first: the result for `data` must not depend on what was evaluated before
        other = _fixed_inputs(dict(case, seed=case['seed'] + 7919))
        eval_fixed(model_arg, other[1](), method=method)
    rdms = mk_data()
    res = eval_fixed(model_arg, rdms, method=method)
    if not np.array_equal(np.asarray(rdms.dissimilarities, dtype=float), data):
        return 'eval_fixed modified the data RDMs'
    for k, m in enumerate(models):
        if not np.array_equal(np.asarray(m.rdm, dtype=float).ravel(), vecs[k]):
            return f'eval_fixed modified the RDM of model {k}'
    if case.get('sequence'):
        held = {nm: np.asarray(v) for nm, v in (('evaluations', res.evaluations), ('model_var', res.model_var),
                                                ('diff_var', res.diff_var), ('noise_ceil_var', res.noise_ceil_var),
                                                ('test_pairwise', res.test_pairwise()), ('test_zero', res.test_zero()),
                                                ('test_noise', res.test_noise()), ('sem', res.get_sem()))}
        snap = {nm: v.copy() for nm, v in held.items()}
        res2 = eval_fixed(model_arg, mk_data(), method=method)
        for nm, v in (('evaluations', res2.evaluations), ('model_var', res2.model_var), ('diff_var', res2.diff_var),
                      ('noise_ceil_var', res2.noise_ceil_var), ('test_pairwise', res2.test_pairwise()),
                      ('test_zero', res2.test_zero()), ('test_noise', res2.test_noise()), ('sem', res2.get_sem())):
            if not np.array_equal(np.asarray(v), snap[nm], equal_nan=True):
                return f'the same eval_fixed call twice: {nm} differs: {_fmt(snap[nm])} then {_fmt(v)}'
            if not np.array_equal(held[nm], snap[nm], equal_nan=True):
                return f'{nm} held from the first eval_fixed call changed when eval_fixed was called again'
    if case.get('roundtrip'):
        # the Result as the caller gets it back after saving and loading (dictionary form / HDF5 file): the same statistics
        from rsatoolbox.inference.result import result_from_dict
        if case['roundtrip'] == 'dict':
            res = result_from_dict(res.to_dict())
        else:
            import os
            import tempfile
            from rsatoolbox.inference import load_results
            with tempfile.TemporaryDirectory() as td:
                res.save(os.path.join(td, 'res.hdf5'), file_type='hdf5')
                res = load_results(os.path.join(td, 'res.hdf5'), file_type='hdf5')
    e = np.asarray(res.evaluations)
    if e.shape != (1, M, n):
        return f'evaluations have shape {e.shape}, expected (1, {M}, {n})'
    e = e[0]
    if method in ('cosine', 'corr'):
        for k in range(M):
            for s in range(n):
                x, y = vecs[k], data[s]
                if method == 'corr':
                    x, y = x - sum(x) / P, y - sum(y) / P
                want = sum(x * y) / math.sqrt(sum(x * x) * sum(y * y))
                if abs(want - e[k, s]) > (1e-5 if case.get('dtype') == 'float32' else 1e-9):
                    return f'evaluation of model {k} on subject {s}: {e[k, s]!r}, literal {method} gives {want!r}'
    if res.dof != n - 1:
        return f'dof {res.dof}, expected n_rdm - 1 = {n - 1}'
    mean = np.array([sum(e[k]) / n for k in range(M)])
    s2 = np.array([sum((e[k] - mean[k]) ** 2) / (n - 1) for k in range(M)])
    if s2.min() < degenerate:
        return None         # degenerate sample (no classical t statistic)
    if not _same(res.get_means(), mean):
        return f'get_means {_fmt(res.get_means())} != across-subject means {_fmt(mean)}'
    vr, va = case.get('vrtol', 1e-9), case.get('vatol', 1e-12)
    if not _same(res.get_sem(), np.sqrt(s2 / n), vr, va):
        return f'get_sem {_fmt(res.get_sem())} != s/sqrt(n) = {_fmt(np.sqrt(s2 / n))}'
    if not _same(res.model_var, s2 / n, vr, va):
        return f'model_var {_fmt(res.model_var)} != s^2/n = {_fmt(s2 / n)}'
    dvar = []
    for i, j in _pairs(M):
        d = e[i] - e[j]
        dm = sum(d) / n
        dvar.append(sum((d - dm) ** 2) / (n - 1) / n)
    if not _same(res.diff_var, np.array(dvar).reshape(len(dvar)), vr, va):
        return f'diff_var {_fmt(res.diff_var)} != var(e_i - e_j)/n = {_fmt(dvar)}'
    if not _same(res.noise_ceil_var, np.array([s2 / n, s2 / n]).T, vr, va):
        return f'noise_ceil_var {_fmt(res.noise_ceil_var)} != s^2/n per model (fixed ceiling)'
    ncl = _spec_nanmean(np.asarray(res.noise_ceiling)[0])
    pp, pz, pn = res.test_pairwise(), res.test_zero(), res.test_noise()
    want_pp = np.ones((M, M))
    for (i, j), dv in zip(_pairs(M), dvar):
        if dv < min(1e-12, degenerate):
            return None
        p_sc = sst.ttest_rel(e[i], e[j]).pvalue
        t = (mean[i] - mean[j]) / math.sqrt(dv)
        p_lit = 2 * sst.t.sf(abs(t), n - 1)
        if abs(p_sc - p_lit) > 1e-9:
            return f'spec self-check failed: ttest_rel {p_sc} vs literal {p_lit}'
        want_pp[i, j] = want_pp[j, i] = p_sc
    if not _same(pp, want_pp, pr, 1e-9):
        return f'test_pairwise {_fmt(pp)} != paired t-tests (scipy.stats.ttest_rel) {_fmt(want_pp)}'
    want_pz = np.array([sst.ttest_1samp(e[k], 0.0, alternative='greater').pvalue for k in range(M)])
    lit_pz = np.array([sst.t.sf(mean[k] / math.sqrt(s2[k] / n), n - 1) for k in range(M)])
    if not _same(want_pz, lit_pz, pr, 1e-9):
        return 'spec self-check failed: ttest_1samp(greater) vs literal'
    if not _same(pz, want_pz, pr, 1e-9):
        return f'test_zero {_fmt(pz)} != one-sided one-sample t-tests against 0 {_fmt(want_pz)}'
    want_pn = np.array([sst.ttest_1samp(e[k], ncl).pvalue for k in range(M)])
    if not _same(pn, want_pn, pr, 1e-9):
        return (f'test_noise {_fmt(pn)} != two-sided one-sample t-tests against the lower noise ceiling {ncl!r}: '
                f'{_fmt(want_pn)}')
    a = res.test_all()
    for nm, got, want in (('pairwise', a[0], want_pp), ('zero', a[1], want_pz), ('noise', a[2], want_pn)):
        if not _same(got, want, pr, 1e-9):
            return f'test_all {nm} {_fmt(got)} != classical {_fmt(want)}'
    return None


def _expected_variances(V, M, nc, n_rdm, n_pattern):
    c = _spec_factor(n_rdm, n_pattern)
    mv, dv, cv = _spec_contrasts(_full_matrix(V), M, nc)
    return c * mv, c * dv, c * cv


@oracle('C06/contrasts')
@_quiet
def orc_contrasts(case):
    """scalar / vector / matrix covariance -> contrasts with the n/(n-1) factor"""
    from rsatoolbox.inference import Result
    from rsatoolbox.util.inference_util import extract_variances
    rs = np.random.RandomState(case['seed'])
    M, nc, kind = case['M'], case['ncrows'], case['cov']
    n_rdm, n_pattern = case.get('n_rdm'), case.get('n_pattern')
    V = _mk_cov(rs, kind, M, nc, 1.0)
    vdt = case.get('vdtype')
    if vdt and vdt != 'float32':
        # integer-valued covariance; 'small' keeps every contrast (and every intermediate) inside the range of the dtype
        V = np.round((np.abs(V) if vdt.startswith('uint') else V) * case.get('vmul', 4))
        V = np.clip(V, np.iinfo(vdt).min, np.iinfo(vdt).max)
    V = np.asarray(_vary(case, np.zeros(1), np.zeros(1), V)[2])
    if case.get('container') == 'npfloat':
        V = np.float64(V)       # numpy scalar (what np.var returns) instead of a 0-D array
    else:
        V = _layout(V, case.get('layout'))
    keep = np.array(V, dtype=float)
    want = _expected_variances(keep, M, nc, n_rdm, n_pattern)
    nt = case.get('ntype')
    if case['route'] == 'Result':
        E = rs.randn(5, M)
        res = Result(_models(M), E, 'corr', 'bootstrap', np.array([0.5, 0.6]), variances=V, dof=3,
                     n_rdm=_ntyped(n_rdm, nt), n_pattern=_ntyped(n_pattern, nt))
        got = (res.model_var, res.diff_var, res.noise_ceil_var)
    else:
        got = extract_variances(V, nc, _ntyped(n_rdm, nt), _ntyped(n_pattern, nt))
    if not np.array_equal(np.asarray(V, dtype=float), keep):
        return 'the covariance input was modified'
    vr, va = _vtol(case, keep)
    for nm, g, w in zip(('model_var', 'diff_var', 'noise_ceil_var'), got, want):
        g = np.asarray(g, dtype=float)
        if g.shape != w.shape:
            return f'{nm}: shape {g.shape}, expected {w.shape}'
        if not _same(g, w, vr, va):
            return (f'{nm} = {_fmt(g)} is not the contrast of the stored covariance times n/(n-1) = '
                    f'{_spec_factor(n_rdm, n_pattern)!r}: expected {_fmt(w)}')
    return None


def _dual_inputs(case):
    rs = np.random.RandomState(case['seed'])
    M, nc = case['M'], case['ncrows']
    n = M + (2 if nc else 0)
    mode = case['mode']
    base = _psd(rs, n, 1.0)
    if mode == 'scaled':
        s1, s2 = case['s1'], case['s2']
        V = np.array([base, s1 * base, s2 * base])
    elif mode == 'mixed':
        s1, s2 = case['s1'], case['s2']
        V = np.array([base, s1 * base + 0.2 * _psd(rs, n, 1.0), s2 * base + 0.2 * _psd(rs, n, 1.0)])
    elif mode == 'zero':    # trivial competitor: no variance at all
        V = np.zeros((3, n, n))
    elif mode == 'additive':    # the two single-factor estimates add up to the two-factor one exactly (binary fractions)
        s1 = case['s1']
        V = np.array([base, s1 * base, base - s1 * base])
    elif mode == 'nearcap':     # close competitor: the corrected rdm-bootstrap variance is (1 + s1) x the two-factor variance
        cr = 1.0 if case.get('n_rdm') is None or case.get('n_pattern') is None else case['n_rdm'] / (case['n_rdm'] - 1)
        V = np.array([base, (1 + case['s1']) / cr * base, case['s2'] * base])
    else:   # three unrelated covariance estimates (noisy bootstrap): single factors above and below the two-factor one
        V = np.array([base, _psd(rs, n, case.get('s1', 1.0)), _psd(rs, n, case.get('s2', 1.0))])
    vdt = case.get('vdtype')
    if vdt and vdt != 'float32':
        V = np.round(V * 40)        # integer-valued stack
    V = np.asarray(_vary(case, np.zeros(1), np.zeros(1), V)[2])
    return rs, V


def _dual_outputs(case, rs, V):
    from rsatoolbox.inference import Result
    from rsatoolbox.util.inference_util import extract_variances
    M, nc = case['M'], case['ncrows']
    n_rdm, n_pattern = case.get('n_rdm'), case.get('n_pattern')
    if case['route'] == 'Result':
        E = rs.randn(6, M, 2)
        res = Result(_models(M), E, 'corr', 'dual_bootstrap', np.array([0.5, 0.6]), variances=_layout(V, case.get('layout')),
                     dof=2, n_rdm=n_rdm, n_pattern=n_pattern)
        return (res.model_var, res.diff_var, res.noise_ceil_var), res.get_sem()
    got = extract_variances(_layout(V, case.get('layout')), nc, n_rdm, n_pattern)
    return got, None


@oracle('C06/dual-bounds')
@_quiet
def orc_dual_bounds(case):
    """3-stack: v <= two-factor variance; v >= corrected single-factor variance whenever that is itself <= two-factor"""
    M, nc = case['M'], case['ncrows']
    n_rdm, n_pattern = case.get('n_rdm'), case.get('n_pattern')
    rs, V = _dual_inputs(case)
    got, sem = _dual_outputs(case, rs, V)
    V = np.asarray(V, dtype=float)
    u2 = case.get('unit', 1.0) ** 2
    rel = 1e-5 if case.get('vdtype') == 'float32' else 1e-12
    parts = [_spec_contrasts(V[k], M, nc) for k in range(3)]
    if n_rdm is None or n_pattern is None:
        cr = cp = 1.0
    else:
        cr, cp = n_rdm / (n_rdm - 1), n_pattern / (n_pattern - 1)
    for k, nm in enumerate(('model_var', 'diff_var', 'noise_ceil_var')):
        g = np.asarray(got[k], dtype=float)
        v0, a, b = parts[0][k], cr * parts[1][k], cp * parts[2][k]
        if g.shape != v0.shape:
            return f'{nm}: shape {g.shape}, expected {v0.shape}'
        if np.isnan(g).any():
            return f'{nm}: NaN in {_fmt(g)}'
        tol = rel * np.maximum(float(np.abs(V).max()) if rel > 1e-12 else u2, np.abs(v0))
        over = g > v0 + tol
        if over.any():
            ix = tuple(np.argwhere(over)[0])
            return (f'{nm}{list(ix)} = {g[ix]!r} exceeds the two-factor bootstrap variance {v0[ix]!r} '
                    f'(corrected rdm {a[ix]!r}, pattern {b[ix]!r}; n_rdm={n_rdm}, n_pattern={n_pattern})')
        for lab, c in (('rdm', a), ('pattern', b)):
            under = (c <= v0 + tol) & (g < c - tol)
            if under.any():
                ix = tuple(np.argwhere(under)[0])
                return (f'{nm}{list(ix)} = {g[ix]!r} is below the corrected {lab}-bootstrap variance {c[ix]!r} '
                        f'although that is below the two-factor variance {v0[ix]!r}')
    if sem is not None:
        if (np.asarray(sem) < 0).any() or np.isnan(sem).any():
            return f'get_sem {_fmt(sem)} negative / NaN'
        if (np.asarray(sem, dtype=float) ** 2 > parts[0][0] * (1 + max(1e-9, rel)) + 1e-15 * u2).any():
            return f'get_sem^2 {_fmt(np.asarray(sem) ** 2)} exceeds the two-factor model variance {_fmt(parts[0][0])}'
    return None


@oracle('C06/dual-formula')
@_quiet
def orc_dual_formula(case):
    """documented combination (docstring / comments of _dual_bootstrap): raw = 2(v_r + v_p) - v_0 without n's,
    c_r v_r + c_p v_p - c_r c_p (v_0 - v_r - v_p) with both n's; then raised to both single-factor terms, then capped"""
    M, nc = case['M'], case['ncrows']
    n_rdm, n_pattern = case.get('n_rdm'), case.get('n_pattern')
    rs, V = _dual_inputs(case)
    got, _ = _dual_outputs(case, rs, V)
    V = np.asarray(V, dtype=float)
    vr, va = _vtol(case, V)
    parts = [_spec_contrasts(V[k], M, nc) for k in range(3)]
    for k, nm in enumerate(('model_var', 'diff_var', 'noise_ceil_var')):
        v0, v1, v2 = parts[0][k], parts[1][k], parts[2][k]
        if n_rdm is None or n_pattern is None:
            a, b = v1, v2
            raw = 2 * (v1 + v2) - v0
        else:
            cr, cp = n_rdm / (n_rdm - 1), n_pattern / (n_pattern - 1)
            a, b = cr * v1, cp * v2
            raw = a + b - cr * cp * (v0 - v1 - v2)
        want = np.minimum(np.maximum(np.maximum(raw, a), b), v0)
        if not _same(got[k], want, vr, va):
            return f'{nm} = {_fmt(got[k])}, documented dual-bootstrap combination gives {_fmt(want)}'
    return None


def _spec_t_pvalues(means, mv, dv, cv, ncl, dof):
    M = len(means)
    pp = np.ones((M, M))
    for (i, j), v in zip(_pairs(M), dv):
        t = (means[i] - means[j]) / math.sqrt(v)
        pp[i, j] = pp[j, i] = 2 * sst.t.sf(abs(t), dof)
    pz = np.array([sst.t.sf(means[i] / math.sqrt(mv[i]), dof) for i in range(M)])
    pn = np.array([2 * sst.t.sf(abs(means[i] - ncl) / math.sqrt(cv[i][0]), dof) for i in range(M)])
    return pp, pz, pn


@oracle('C06/t-coherence')
@_quiet
def orc_t_coherence(case):
    """t-test p-values == t distribution tails of (NaN-aware mean effect) / sqrt(reported variance) with the stored dof"""
    from rsatoolbox.util import inference_util as iu
    res, E, nc, V, kw = _build(case)
    M = case['M']
    means = _spec_mean(E)
    mv, dv, cv = (np.asarray(x, dtype=float) for x in (res.model_var, res.diff_var, res.noise_ceil_var))
    u2 = case.get('unit', 1.0) ** 2
    if case.get('cov') != 'stack':
        want = _expected_variances(V, M, case.get('ncrows', True), kw['n_rdm'], kw['n_pattern'])
        vr, va = _vtol(case, V)
        for nm, g, w in zip(('model_var', 'diff_var', 'noise_ceil_var'), (mv, dv, cv), want):
            if not _same(g, w, vr, va):
                return f'{nm} {_fmt(g)} != contrast of the stored covariance {_fmt(w)}'
    if min(mv.min(), cv.min(), dv.min() if len(dv) else u2) < 1e-10 * u2:
        return None
    ncl = _spec_nanmean(nc[0])
    want = _spec_t_pvalues(means, mv, dv, cv, ncl, kw['dof'])
    got = (res.test_pairwise('t-test'), res.test_zero('t-test'), res.test_noise('t-test'))
    names = ('test_pairwise', 'test_zero', 'test_noise')
    pr, pa = (1e-3, 1e-5) if case.get('edtype') == 'float32' else (1e-7, 1e-9)
    for nm, g, w in zip(names, got, want):
        if not _same(g, w, pr, pa):
            return (f'{nm} {_fmt(g)} != t-tail of the mean effect over sqrt(reported variance), dof={kw["dof"]}: '
                    f'{_fmt(w)} (means {_fmt(means)}, lower ceiling {ncl!r}, model_var {_fmt(mv)})')
    for nm, g, w in zip(names, res.test_all('t-test'), want):
        if not _same(g, w, pr, pa):
            return f'test_all/{nm} {_fmt(g)} != {_fmt(w)}'
    for nm, g, w in zip(names, res.test_all(), want):
        if not _same(g, w, pr, pa):
            return f'test_all() default/{nm} {_fmt(g)} != {_fmt(w)}'
    lay = case.get('layout')
    direct = iu.all_tests(_layout(E, lay), _layout(nc, lay), 't-test', model_var=mv, diff_var=dv, noise_ceil_var=cv,
                          dof=_ntyped(kw['dof'], case.get('ntype')))
    for nm, g, w in zip(names, direct, want):
        if not _same(g, w, pr, pa):
            return f'all_tests/{nm} {_fmt(g)} != {_fmt(w)}'
    return None


@oracle('C06/p-range')
@_quiet
def orc_p_range(case):
    """all p-values in [0,1] (no NaN), pairwise symmetric with unit diagonal; Result.test_* == wrappers == test_all"""
    from rsatoolbox.util import inference_util as iu
    res, E, nc, V, kw = _build(case)
    M = case['M']
    for tt in case['tests']:
        trio = (res.test_pairwise(tt), res.test_zero(tt), res.test_noise(tt))
        r = _sym_problem(f'{tt}/test_pairwise', trio[0], M)
        if r:
            return r
        for nm, p in (('test_zero', trio[1]), ('test_noise', trio[2])):
            p = np.asarray(p)
            if p.shape[0] != M:
                return f'{tt}/{nm}: leading extent {p.shape}, expected {M} models'
            r = _p_problem(f'{tt}/{nm}', p)
            if r:
                return r
        allp = res.test_all(tt)
        lay = case.get('layout')
        wr = (iu.pair_tests(_layout(E, lay), tt, res.diff_var, kw['dof']),
              iu.zero_tests(_layout(E, lay), tt, res.model_var, kw['dof']),
              iu.nc_tests(_layout(E, lay), _layout(nc, lay), tt, res.noise_ceil_var, kw['dof']))
        for nm, a, b, c in zip(('pairwise', 'zero', 'noise'), trio, allp, wr):
            if not _same(a, b, 1e-12, 1e-14):
                return f'{tt}: test_{nm} {_fmt(a)} != test_all {_fmt(b)}'
            if not _same(a, c, 1e-12, 1e-14):
                return f'{tt}: test_{nm} {_fmt(a)} != wrapper on the same arrays {_fmt(c)}'
    return None


def _boot_case_arrays(case):
    """2-D..5-D NaN-free bootstrap evaluations with the requested tie structure + ceiling"""
    rs = np.random.RandomState(case['seed'])
    M, N, tail = case['M'], case['N'], tuple(case.get('tail', ()))
    E, _ = _mk_evals(rs, N, M, tail, 'none', case.get('ties', False))
    special = case.get('special')
    if special == 'pair-all-tied':
        E[:, 1] = E[:, 0]
    elif special == 'zero-all-nonpositive':
        E[:, 0] = -np.abs(E[:, 0]) - 0.01
    elif special == 'nc-all-above':
        E[:, 0] = np.abs(E[:, 0]) + 2.0
    nc = _mk_nc(rs, N, case.get('ncshape', '1d'))
    E, nc, _ = _vary(case, E, nc, None)
    return rs, E, nc


def _call_boot(case, E, nc, which):
    """which in pairwise / zero / noise / all; route Result or wrapper"""
    from rsatoolbox.inference import Result
    from rsatoolbox.util import inference_util as iu
    M = case['M']
    if case.get('route', 'Result') == 'Result':
        V = _psd(np.random.RandomState(1), M + 2, 0.004)
        res = Result(_models(M), _layout(E, case.get('layout')), 'corr', 'bootstrap', _layout(nc, case.get('layout')),
                     variances=V, dof=3, n_rdm=4)
        return dict(pairwise=lambda: res.test_pairwise('bootstrap'), zero=lambda: res.test_zero('bootstrap'),
                    noise=lambda: res.test_noise('bootstrap'), all=lambda: res.test_all('bootstrap'))[which]()
    lay = case.get('layout')
    return dict(pairwise=lambda: iu.pair_tests(_layout(E, lay), 'bootstrap'), zero=lambda: iu.zero_tests(_layout(E, lay), 'bootstrap'),
                noise=lambda: iu.nc_tests(_layout(E, lay), _layout(nc, lay), 'bootstrap'),
                all=lambda: iu.all_tests(_layout(E, lay), _layout(nc, lay), 'bootstrap'))[which]()


def _spec_boot_pair(E2):
    """docstring of bootstrap_pair_tests: two-sided = 2 * smaller proportion among the untied samples, 1/N added"""
    N, M = E2.shape
    pp = np.ones((M, M))
    for i, j in _pairs(M):
        less = sum(1 for s in range(N) if E2[s, i] < E2[s, j])
        more = sum(1 for s in range(N) if E2[s, i] > E2[s, j])
        if less + more == 0:
            # the two models are indistinguishable in every sample: same situation as a model against itself, for
            # which the statement demands 1 (unit diagonal)
            pp[i, j] = pp[j, i] = 1.0
            continue
        q = min(less, more) / (less + more)
        pp[i, j] = pp[j, i] = (N - 1) / N * 2 * q + 1 / N
    return pp


def _bracket_problem(name, p, counts, N):
    """a one-sided bootstrap p-value with 'one added' must lie in [count/N, (count+1)/N] and in [0,1]"""
    p = np.asarray(p, dtype=float)
    r = _p_problem(name, p, (len(counts),))
    if r:
        return r
    for i, c in enumerate(counts):
        if not (c / N - 1e-12 <= p[i] <= (c + 1) / N + 1e-12):
            return f'{name}[{i}] = {p[i]!r} with {c} of {N} samples against the hypothesis: expected within [{c / N}, {(c + 1) / N}]'
    return None


@oracle('C06/bootstrap-formulas')
@_quiet
def orc_bootstrap_formulas(case):
    rs, E, nc = _boot_case_arrays(case)
    M, N = case['M'], case['N']
    E2 = np.asarray(E, dtype=float)
    while E2.ndim > 2:
        E2 = E2.mean(axis=-1)
    which = case.get('which', 'pairwise')
    if which == 'pairwise':
        pp = _call_boot(case, E, nc, 'pairwise')
        r = _sym_problem('bootstrap/pairwise', pp, M)
        if r:
            return r
        want = _spec_boot_pair(E2)
        if not _same(pp, want, 1e-12, 1e-13):
            return f'bootstrap pairwise p {_fmt(pp)} != two-sided tie-corrected proportion {_fmt(want)}'
        return None
    if which == 'zero':
        pz = _call_boot(case, E, nc, 'zero')
        counts = [sum(1 for s in range(N) if E[s, i] <= 0) for i in range(M)]
        return _bracket_problem('bootstrap/zero', pz, counts, N)
    # noise ceiling, constant (2,) or per-sample (2, N)
    lower = np.asarray(nc[0], dtype=float).reshape(-1)
    if lower.size == 1:
        lower = np.full(N, lower[0])
    counts = [sum(1 for s in range(N) if E[s, i] >= lower[s]) for i in range(M)]
    if which == 'noise':
        pn = _call_boot(case, E, nc, 'noise')
        return _bracket_problem('bootstrap/noise', pn, counts, N)
    pp, pz, pn = _call_boot(case, E, nc, 'all')
    r = _sym_problem('bootstrap/all/pairwise', pp, M)
    if r:
        return r
    if not _same(pp, _spec_boot_pair(E2), 1e-12, 1e-13):
        return f'all_tests bootstrap pairwise p {_fmt(pp)} != {_fmt(_spec_boot_pair(E2))}'
    r = _bracket_problem('bootstrap/all/zero', pz, [sum(1 for s in range(N) if E[s, i] <= 0) for i in range(M)], N)
    return r or _bracket_problem('bootstrap/all/noise', pn, counts, N)


def _exact_signed_rank_p(d):
    """two-sided exact Wilcoxon signed-rank p-value by enumerating all sign patterns (no zeros, no tied |d|)"""
    n = len(d)
    order = sorted(range(n), key=lambda k: abs(d[k]))
    rank = [0] * n
    for r, k in enumerate(order):
        rank[k] = r + 1
    w = sum(rank[k] for k in range(n) if d[k] > 0)
    le = ge = 0
    for signs in itertools.product((0, 1), repeat=n):
        s = sum(r for r, sg in zip(range(1, n + 1), signs) if sg)
        le += s <= w
        ge += s >= w
    return min(1.0, 2 * min(le, ge) / 2 ** n)


@oracle('C06/ranksum')
@_quiet
def orc_ranksum(case):
    """rank-sum wrappers == Wilcoxon signed-rank tests on the NaN-aware per-subject evaluations"""
    res, E, nc, V, kw = _build(case)
    M, N, S = case['M'], case['N'], case['tail'][0]
    D = np.nanmean(E, axis=0)      # numpy's summation order, so that exact ties between subjects stay exact ties
    lit = np.array([[_spec_nanmean(E[:, i, s]) for s in range(S)] for i in range(M)])
    if not _same(D, lit, 1e-12, 1e-14):
        return 'spec self-check failed: per-subject NaN-aware means'
    ncl = _spec_nanmean(nc[0])
    exact = S <= 9 and not case.get('ties', False)

    def wil(d):
        p = sst.wilcoxon(d).pvalue
        if exact and len(set(np.abs(d).tolist())) == len(d) and (d != 0).all():
            pe = _exact_signed_rank_p(list(d))
            if abs(pe - p) > 1e-12:
                raise AssertionError(f'spec self-check failed: scipy wilcoxon {p} vs enumeration {pe}')
        return p
    want_pp = np.ones((M, M))
    for i, j in _pairs(M):
        want_pp[i, j] = want_pp[j, i] = wil(D[i] - D[j])
    want_pz = np.array([wil(D[i]) for i in range(M)])
    want_pn = np.array([wil(D[i] - ncl) for i in range(M)])
    got = (res.test_pairwise('ranksum'), res.test_zero('ranksum'), res.test_noise('ranksum'))
    for nm, g, w in zip(('test_pairwise', 'test_zero', 'test_noise'), got, (want_pp, want_pz, want_pn)):
        if not _same(g, w, 1e-10, 1e-12):
            return f'ranksum {nm} {_fmt(g)} != Wilcoxon signed-rank p-values of the per-subject evaluations {_fmt(w)}'
    r = _sym_problem('ranksum/test_pairwise', got[0], M)
    if r:
        return r
    for nm, g, w in zip(('pairwise', 'zero', 'noise'), res.test_all('ranksum'), (want_pp, want_pz, want_pn)):
        if not _same(g, w, 1e-10, 1e-12):
            return f'ranksum test_all/{nm} {_fmt(g)} != {_fmt(w)}'
    return None


@oracle('C06/monotone')
@_quiet
def orc_monotone(case):
    """t-tests: at equal variance and dof a larger effect never yields a larger p-value"""
    from rsatoolbox.inference import Result
    from rsatoolbox.util import inference_util as iu
    rs = np.random.RandomState(case['seed'])
    M, N, tail, dof = case['M'], case['N'], tuple(case.get('tail', ())), case['dof']
    E, _ = _mk_evals(rs, N, M, tail, case.get('nan', 'none'))
    nc = _mk_nc(rs, N, '1d')
    V = _psd(rs, M + 2, case.get('scale', 0.004))
    E, nc, V = _vary(case, E, nc, V)
    unit = case.get('unit', 1.0)
    tgt = case['target']
    other = (tgt + 1) % M
    deltas = sorted(d * unit for d in case['deltas'])
    base = _spec_mean(E)
    ncl = float(nc[0])
    rows = []
    for d in deltas:
        Ed = np.array(E, dtype=float)
        Ed[:, tgt] += d
        if case.get('edtype') and case['edtype'] != 'float32':
            Ed = np.round(Ed).astype(case['edtype'])
        if case['route'] == 'Result':
            res = Result(_models(M), Ed, 'corr', 'bootstrap', nc.copy(), variances=V.copy(), dof=dof, n_rdm=6, n_pattern=9)
            pp, pz, pn = res.test_pairwise(), res.test_zero(), res.test_noise()
        else:
            mv, dv, cv = iu.extract_variances(V.copy(), True, 6, 9)
            pp, pz, pn = iu.t_tests(Ed, dv, dof), iu.t_test_0(Ed, mv, dof), iu.t_test_nc(Ed, cv[:, 0], ncl, dof)
        for nm, p in (('pairwise', pp), ('zero', pz), ('noise', pn)):
            r = _p_problem(f'delta={d}: {nm}', p)
            if r:
                return r
        rows.append((d, pp, pz, pn))
    tol = 1e-13
    # against zero: one-sided, effect = mean
    for (d0, _, pz0, _), (d1, _, pz1, _) in zip(rows, rows[1:]):
        if pz1[tgt] > pz0[tgt] + tol:
            return (f'test against 0: mean {base[tgt] + d1!r} > {base[tgt] + d0!r} at equal variance but p rises '
                    f'{pz0[tgt]!r} -> {pz1[tgt]!r}')
        for k in range(M):
            if k != tgt and pz1[k] != pz0[k]:
                return f'test against 0 of model {k} changed ({pz0[k]!r} -> {pz1[k]!r}) when only model {tgt} was shifted'
    # pairwise and ceiling: two-sided, effect = |difference|
    for nm, eff, pick in (('pairwise', lambda d: abs(base[tgt] + d - base[other]), lambda r: r[1][tgt, other]),
                          ('noise ceiling', lambda d: abs(base[tgt] + d - ncl), lambda r: r[3][tgt])):
        seq = sorted(((eff(r[0]), pick(r), r[0]) for r in rows), key=lambda x: x[0])
        for (e0, p0, d0), (e1, p1, d1) in zip(seq, seq[1:]):
            if e1 > e0 * (1 + 1e-9) + 1e-12 * unit and p1 > p0 + tol:
                return (f'{nm} test: |effect| {e1!r} (shift {d1}) > {e0!r} (shift {d0}) at equal variance but '
                        f'p {p1!r} > {p0!r}')
    return None


@oracle('C06/means')
@_quiet
def orc_means(case):
    """get_means == NaN-aware average per model"""
    from rsatoolbox.inference import Result
    rs = np.random.RandomState(case['seed'])
    M, N, tail = case['M'], case['N'], tuple(case.get('tail', ()))
    nan = case.get('nan', 'none')
    E, nan_samples = _mk_evals(rs, N, M, tail, 'none' if nan == 'single-model' else nan)
    if nan == 'single-model':
        s, k = case['nan_sample'], case['nan_model']
        E[s, k] = np.nan
    nc = _mk_nc(rs, N, '1d')
    V = _psd(rs, M + 2, 0.004)
    E, nc, V = _vary(case, E, nc, V)
    lay = case.get('layout')
    res = Result(_models(M), _layout(E, lay), 'corr', case['cvm'], _layout(nc, lay), variances=_layout(V, lay), dof=3, n_rdm=4)
    got = np.asarray(res.get_means(), dtype=float)
    want = _spec_mean(E)
    if got.shape != want.shape:
        return f'get_means has shape {got.shape}, expected one value per model ({M},)'
    u, rt, af = _units(case)
    if not _same(got, want, rt, 1e-12 * af * u):
        return f'get_means {_fmt(got)} != NaN-aware averages of the evaluations {_fmt(want)} (cv_method {case["cvm"]})'
    return None


@oracle('C06/sem-ci')
@_quiet
def orc_sem_ci(case):
    """sem >= 0 and = sqrt(max(model variance, 0)); t CI: mean -/+ sem * t quantile, lo <= mean <= hi;
    bootstrap CI: lo <= hi, not more than cut*(N+1) samples outside on either side"""
    res, E, nc, V, kw = _build(case)
    M, N = case['M'], case['N']
    sem = np.asarray(res.get_sem(), dtype=float)
    mv = np.asarray(res.model_var, dtype=float)
    if sem.shape != (M,):
        return f'get_sem has shape {sem.shape}, expected ({M},)'
    if np.isnan(sem).any() or (sem < 0).any():
        return f'get_sem {_fmt(sem)} has negative / NaN entries (model_var {_fmt(mv)})'
    want = np.array([math.sqrt(v) if v > 0 else 0.0 for v in mv])
    u, rt, af = _units(case)
    if not _same(sem, want, 1e-6 if case.get('vdtype') == 'float32' else 1e-9, 1e-12 * u):
        return f'get_sem {_fmt(sem)} != sqrt(max(model_var, 0)) = {_fmt(want)}'
    if case.get('cov') not in ('stack',):
        wmv = _expected_variances(V, M, case.get('ncrows', True), kw['n_rdm'], kw['n_pattern'])[0]
        if not _same(mv, wmv, *_vtol(case, V)):
            return f'model_var {_fmt(mv)} != {_fmt(wmv)}'
    means = _spec_mean(E)
    for cip in case.get('ci', (0.95,)):
        cut = (1 - cip) / 2
        lo, hi = (np.asarray(x, dtype=float) for x in res.get_ci(cip, 't-test'))
        half = sem * sst.t.ppf(1 - cut, kw['dof'])
        if not (_same(lo, means - half, max(rt, 1e-8), 1e-10 * af * u) and _same(hi, means + half, max(rt, 1e-8), 1e-10 * af * u)):
            return (f'get_ci({cip}) = [{_fmt(lo)}, {_fmt(hi)}], expected mean -/+ sem * t_({1 - cut}, dof={kw["dof"]}) = '
                    f'[{_fmt(means - half)}, {_fmt(means + half)}]')
        if (lo > means + 1e-12 * af * u).any() or (hi < means - 1e-12 * af * u).any():
            return f'get_ci({cip}): not lo <= mean <= hi: lo {_fmt(lo)}, mean {_fmt(means)}, hi {_fmt(hi)}'
        if case.get('nan', 'none') in ('none', 'folds') and cut * (N + 1) >= 1:
            lo, hi = (np.asarray(x, dtype=float) for x in res.get_ci(cip, 'bootstrap'))
            if lo.shape != (M,) or hi.shape != (M,):
                return f'bootstrap get_ci({cip}) shapes {lo.shape}, {hi.shape}'
            if np.isnan(lo).any() or np.isnan(hi).any() or (lo > hi).any():
                return f'bootstrap get_ci({cip}): not lo <= hi: lo {_fmt(lo)}, hi {_fmt(hi)}'
            for i in range(M):
                per = [_spec_nanmean(E[s, i]) for s in range(N)]
                below = sum(1 for x in per if x < lo[i])
                above = sum(1 for x in per if x > hi[i])
                if below > cut * (N + 1) + 1e-9 or above > cut * (N + 1) + 1e-9:
                    return (f'bootstrap get_ci({cip}) of model {i}: {below} samples below / {above} above the interval, '
                            f'at most {cut * (N + 1)} expected on either side')
                if lo[i] > max(per) or hi[i] < min(per):
                    return f'bootstrap get_ci({cip}) of model {i}: [{lo[i]}, {hi[i]}] misses all samples'
    return None


def _perm_cov(V, order, M, nc):
    full = list(order) + ([M, M + 1] if nc else [])
    V = np.asarray(V)
    if V.ndim == 0:
        return V.copy()
    if V.ndim == 1:
        return V[full].copy()
    if V.ndim == 2:
        return V[np.ix_(full, full)].copy()
    return V[:, full][:, :, full].copy()


def _outputs(res, tests, cis, bci=True):
    out = {'model_var': res.model_var, 'noise_ceil_var': res.noise_ceil_var, 'means': res.get_means(),
           'sem': res.get_sem()}
    M = res.n_model
    D = np.zeros((M, M))
    for (i, j), v in zip(_pairs(M), np.asarray(res.diff_var)):
        D[i, j] = D[j, i] = v
    out['diff_var'] = D
    for cip in cis:
        lo, hi = res.get_ci(cip, 't-test')
        out[f'ci{cip}/lo'], out[f'ci{cip}/hi'] = lo, hi
        if 'bootstrap' in tests and bci:
            lo, hi = res.get_ci(cip, 'bootstrap')
            out[f'bci{cip}/lo'], out[f'bci{cip}/hi'] = lo, hi
    for tt in tests:
        out[f'{tt}/pairwise'] = res.test_pairwise(tt)
        out[f'{tt}/zero'] = res.test_zero(tt)
        out[f'{tt}/noise'] = res.test_noise(tt)
        a = res.test_all(tt)
        out[f'{tt}/all-pairwise'], out[f'{tt}/all-zero'], out[f'{tt}/all-noise'] = a
    return {k: np.asarray(v, dtype=float) for k, v in out.items()}


@oracle('C06/equivariance')
@_quiet
def orc_equivariance(case):
    """permuting the models (and the covariance rows/columns with them) permutes every output accordingly"""
    from rsatoolbox.inference import Result
    res, E, nc, V, kw = _build(case)
    M, ncrows = case['M'], case.get('ncrows', True)
    tests, cis = case['tests'], case.get('ci', (0.9,))
    bci = case.get('nan', 'none') == 'none'     # np.quantile propagates NaN samples (outside the statement)
    bci = bci and all((1 - c) / 2 * (case['N'] + 1) >= 1 for c in cis)    # too few samples: quantile of the +-inf frame
    ref = _outputs(res, tests, cis, bci)
    select = case.get('select')     # 'boot-pairwise': only the bootstrap pairwise p-values, 'rest': everything else

    def selected(nm):
        is_bp = nm in ('bootstrap/pairwise', 'bootstrap/all-pairwise')
        return True if select is None else (is_bp if select == 'boot-pairwise' else not is_bp)
    for nm, v in ref.items():
        if selected(nm) and np.isnan(v).any():
            return f'output {nm} contains NaN: {_fmt(v)}'
    perms = case.get('perms')
    perms = list(itertools.permutations(range(M))) if perms is None else [tuple(p) for p in perms]
    u, lay = case.get('unit', 1.0), case.get('layout')

    def atol(nm):
        if nm in ('model_var', 'noise_ceil_var', 'diff_var'):
            return 1e-12 * u * u
        return 1e-12 * u if (nm in ('means', 'sem') or nm.startswith(('ci', 'bci'))) else 1e-12
    for order in perms:
        order = list(order)
        r2 = Result(_models(M, names=[0] * M if case.get('names') == 'dup' else order), _layout(E[:, order], lay), 'corr',
                    case.get('cvm', 'bootstrap'), _layout(nc, lay), variances=_layout(_perm_cov(V, order, M, ncrows), lay), **kw)
        got = _outputs(r2, tests, cis, bci)
        for nm, g in got.items():
            if not selected(nm):
                continue
            w = ref[nm]
            if w.ndim >= 2 and w.shape[0] == M and w.shape[1] == M and ('pairwise' in nm or nm == 'diff_var'):
                w = w[np.ix_(order, order)]
            else:
                w = w[order]
            if not _same(g, w, 1e-9, atol(nm)):
                return (f'{nm} is not permuted with the model order {order}: got {_fmt(g)}, expected {_fmt(w)} '
                        f'(identity order: {_fmt(ref[nm])})')
    return None


def _bitwise(a, b):
    a, b = np.asarray(a), np.asarray(b)
    return a.shape == b.shape and bool(np.array_equal(a, b, equal_nan=True))


@oracle('C06/call-sequence')
@_quiet
def orc_call_sequence(case):
    """every output is a function of the inputs of THAT Result only: the same call twice gives bit-identical values, values
    held by the caller do not change when the library is used on other data of the same shape, a Result built after another
    one of the same shape reports its own (spec) values, and no call changes its inputs"""
    from rsatoolbox.util import inference_util as iu
    tests, cis = case['tests'], (0.9,)
    M = case['M']
    bci = case.get('nan', 'none') == 'none' and 0.05 * (case['N'] + 1) >= 1
    resA, EA, ncA, VA, kw = _build(case)
    first = _outputs(resA, tests, cis, bci)     # float64 arrays are handed through as returned by the library
    held = {'model_var': resA.model_var, 'diff_var': resA.diff_var, 'noise_ceil_var': resA.noise_ceil_var,
            'means': resA.get_means(), 'sem': resA.get_sem(), 'pairwise': resA.test_pairwise(tests[0])}
    snap = {k: np.array(v, copy=True) for k, v in first.items()}
    held_snap = {k: np.array(v, copy=True) for k, v in held.items()}
    stored = (np.array(resA.evaluations, copy=True), np.array(resA.noise_ceiling, copy=True), np.array(resA.variances, copy=True))
    # another Result of the same shapes and parameters, other content: must report ITS values
    resB, EB, ncB, VB, _ = _build(dict(case, seed=case['seed'] + 104729))
    outB = _outputs(resB, tests, cis, bci)
    u, rt, af = _units(case)
    if not _same(outB['means'], _spec_mean(EB), rt, 1e-12 * af * u):
        return (f'second Result of the same shape: get_means {_fmt(outB["means"])} != NaN-aware averages of ITS evaluations '
                f'{_fmt(_spec_mean(EB))} (first Result: {_fmt(snap["means"])})')
    if case.get('cov') != 'stack':
        want = _expected_variances(VB, M, case.get('ncrows', True), kw['n_rdm'], kw['n_pattern'])
        D = np.zeros((M, M))
        for (i, j), v in zip(_pairs(M), want[1]):
            D[i, j] = D[j, i] = v
        for nm, w in (('model_var', want[0]), ('diff_var', D), ('noise_ceil_var', want[2])):
            if not _same(outB[nm], w, *_vtol(case, VB)):
                return f'second Result of the same shape: {nm} {_fmt(outB[nm])} != contrasts of ITS covariance {_fmt(w)}'
    if 'bootstrap' in tests:
        E2 = np.asarray(EB, dtype=float)
        while E2.ndim > 2:
            E2 = E2.mean(axis=-1)
        if not np.isnan(E2).any() and not _same(outB['bootstrap/pairwise'], _spec_boot_pair(E2), 1e-12, 1e-13):
            return (f'second Result of the same shape: bootstrap pairwise p {_fmt(outB["bootstrap/pairwise"])} != '
                    f'{_fmt(_spec_boot_pair(E2))} of ITS samples')
    # wrappers on bare arrays (read-only where the case says so): inputs unchanged
    lay = case.get('layout')
    Ein, ncin = _layout(EA, lay), _layout(ncA, lay)
    mv, dv, cv = (np.array(x, copy=True) for x in (resA.model_var, resA.diff_var, resA.noise_ceil_var))
    for a in (mv, dv, cv):
        a.setflags(write=False)
    for tt in tests:
        iu.all_tests(Ein, ncin, tt, mv, dv, cv, kw['dof'])
        iu.pair_tests(Ein, tt, dv, kw['dof'])
        iu.zero_tests(Ein, tt, mv, kw['dof'])
        iu.nc_tests(Ein, ncin, tt, cv, kw['dof'])
        if not (_bitwise(Ein, EA) and _bitwise(ncin, ncA)):
            return f'{tt}: the test wrappers modified the evaluations / noise ceiling they were given'
    Vin = _layout(VA, lay)
    iu.extract_variances(Vin, case.get('ncrows', True) and np.ndim(Vin) > 0, kw['n_rdm'], kw['n_pattern'])
    if not _bitwise(Vin, VA):
        return 'extract_variances modified the covariance it was given'
    # the first Result again
    again = _outputs(resA, tests, cis, bci)
    for nm in snap:
        if not _bitwise(again[nm], snap[nm]):
            return f'the same call twice (another Result used in between): {nm} {_fmt(snap[nm])} then {_fmt(again[nm])}'
        if not _bitwise(first[nm], snap[nm]):
            return f'{nm} held by the caller changed while the library was used on other data: {_fmt(snap[nm])} -> {_fmt(first[nm])}'
    for nm in held:
        if not _bitwise(held[nm], held_snap[nm]):
            return f'{nm} held by the caller changed while the library was used on other data'
    for nm, now, before in zip(('evaluations', 'noise_ceiling', 'variances'),
                               (resA.evaluations, resA.noise_ceiling, resA.variances), stored):
        if not _bitwise(now, before):
            return f'Result.{nm} changed by calling the tests / accessors'
    # a new Result from the same inputs, after the other one: bit-identical
    fresh = _outputs(_build(case)[0], tests, cis, bci)
    for nm in snap:
        if not _bitwise(fresh[nm], snap[nm]):
            return f'a second Result built from the same inputs gives another {nm}: {_fmt(snap[nm])} vs {_fmt(fresh[nm])}'
    return None


def _probe(case):
    """outputs of a fixed evaluation and of the tests / accessors of seeded Results as float.hex strings (exact)"""
    from rsatoolbox.inference import eval_fixed
    out = {}
    for k, sub in enumerate(case['cases']):
        res = _build(sub)[0]
        bci = sub.get('nan', 'none') == 'none' and 0.05 * (sub['N'] + 1) >= 1
        for nm, v in _outputs(res, sub['tests'], (0.9,), bci).items():
            out[f'{k}/{nm}'] = [float(x).hex() for x in np.ravel(v)]
    for k, sub in enumerate(case.get('fixed', ())):
        models, mk_data, _, _ = _fixed_inputs(sub)
        res = eval_fixed(models, mk_data(), method=sub['method'])
        for nm, v in (('evaluations', res.evaluations), ('variances', res.variances), ('noise_ceiling', res.noise_ceiling),
                      ('model_var', res.model_var), ('diff_var', res.diff_var), ('noise_ceil_var', res.noise_ceil_var),
                      ('sem', res.get_sem()), ('means', res.get_means())) + tuple(zip(('pairwise', 'zero', 'noise'), res.test_all())):
            out[f'fixed{k}/{nm}'] = [float(x).hex() for x in np.ravel(np.asarray(v, dtype=float))]
    return out


_probe_quiet = _quiet(_probe)


@oracle('C06/hashseed')
@_quiet
def orc_hashseed(case):
    """a new interpreter with another PYTHONHASHSEED computes bit-identical outputs"""
    import json
    import os
    import subprocess
    import sys
    import rsatoolbox
    here = _probe(case)
    src = os.path.dirname(os.path.dirname(os.path.abspath(rsatoolbox.__file__)))
    root = os.path.dirname(os.path.dirname(os.path.abspath(__file__)))
    code = ('import json, sys; from contracts.C06_c import _probe_quiet; '
            'print("PROBE" + json.dumps(_probe_quiet(json.loads(sys.argv[1]))))')
    procs = []
    for hs in case['hashseeds']:    # the interpreters run side by side
        env = dict(os.environ, PYTHONHASHSEED=str(hs), PYTHONPATH=src + os.pathsep + root, MPLBACKEND='Agg', PYTHONDONTWRITEBYTECODE='1')
        procs.append((hs, subprocess.Popen([sys.executable, '-c', code, json.dumps(case)], env=env, stdout=subprocess.PIPE,
                                           stderr=subprocess.PIPE, text=True)))
    problems = []
    for hs, p in procs:
        try:
            out, err = p.communicate(timeout=900)
        except subprocess.TimeoutExpired:
            p.kill()
            problems.append(f'interpreter with PYTHONHASHSEED={hs} did not finish')
            continue
        lines = [ln for ln in out.splitlines() if ln.startswith('PROBE')]
        if p.returncode != 0 or len(lines) != 1:
            problems.append(f'interpreter with PYTHONHASHSEED={hs} failed (exit {p.returncode}): {err.strip()[-400:]}')
            continue
        there = json.loads(lines[0][5:])
        if sorted(there) != sorted(here):
            problems.append(f'other outputs under PYTHONHASHSEED={hs}: {sorted(set(there) ^ set(here))}')
            continue
        for nm in sorted(here):
            if there[nm] != here[nm]:
                problems.append(f'{nm} differs in a new interpreter with PYTHONHASHSEED={hs}: '
                                f'{[float.fromhex(x) for x in there[nm]][:6]} vs {[float.fromhex(x) for x in here[nm]][:6]} here')
                break
    return '; '.join(problems) if problems else None


# ----------------------------------------------------------------------------------------------------------------------
# domains
# ----------------------------------------------------------------------------------------------------------------------
TAILS = {2: (), 3: (4,), 4: (3, 2), 5: (2, 2, 3)}
SINGLETON_TAILS = ((1,), (1, 1), (3, 1), (1, 4), (1, 1, 1))
LAYOUTS = ('F', 'strided', 'reversed', 'readonly')
NTYPES = ('np', 'np32', 'float', 'npfloat')
SWEEP_DOC = (' | sweeps: units (evaluations x 1e-26..1e12, covariance x unit^2), integer / uint8 / int16 / float32 typed inputs, '
             'Fortran / strided / reversed / read-only arrays, tuple / single-model / list containers, numpy-typed n and dof, '
             'single-element dimensions and 1..2 samples, duplicate model names')


def _sweeps(thorough):
    """additional registrations along the dimensions the plain domains do not vary; name of the Bounded -> list of
    (oracle, case, input_class, function).  Registrations behind `if False:  # pending triage` fail on the unchanged tree and
    wait for a decision (repair or record as a known finding); see the module docstring."""
    sw = {}

    def add(name, orc, case, ic, fn):
        sw.setdefault(name, []).append((orc, case, ic, fn))
    seeds = 3 if thorough else 1

    # ---- eval_fixed ---------------------------------------------------------------------------------------------------------
    methods = ('cosine', 'corr', 'spearman', 'tau-a', 'rho-a', 'cosine_cov', 'corr_cov') if thorough else ('cosine', 'corr', 'spearman')
    k = 0
    for seed in range(seeds):
        for dscale, mscale in ((1e-26, 1.0), (1e-12, 1e12), (1.0, 1e-26), (1e6, 1e6), (1e12, 1e-12), (1e-26, 1e-26)):
            for method in methods:
                k += 1
                add('C06/fixed-t', orc_fixed_t, dict(seed=9000 + k, n_rdm=(3, 5, 8)[k % 3], n_cond=4 + k % 3, M=1 + k % 4, method=method,
                                                     noise=0.5, dscale=dscale, mscale=mscale), 'extreme-units', 'eval_fixed')
        for dt in ('int64', 'int16', 'uint8', 'float32'):
            for method in methods:
                k += 1
                add('C06/fixed-t', orc_fixed_t, dict(seed=9000 + k, n_rdm=(4, 6, 3)[k % 3], n_cond=5 + k % 2, M=2 + k % 3, method=method,
                                                     noise=(0.5, 1.0)[k % 2], dtype=dt), f'dtype={dt}', 'eval_fixed')
        for extra, ic in ([(dict(layout=lay), 'layout') for lay in LAYOUTS]
                          + [(dict(mcontainer='tuple', M=2), 'models-tuple'), (dict(mcontainer='tuple', M=3), 'models-tuple'),
                             (dict(mcontainer='single', M=1), 'single-model-not-in-list'), (dict(rdmdesc=True), 'repeated-str-rdm-descriptor'),
                             (dict(dupsubj=True, n_rdm=4), 'identical-subjects'), (dict(dupsubj=True, n_rdm=3), 'identical-subjects')]):
            for method in (('cosine', 'corr', 'spearman') if thorough else (('cosine', 'corr')[k % 2],)):
                k += 1
                add('C06/fixed-t', orc_fixed_t, dict(dict(seed=9000 + k, n_rdm=(3, 5, 7)[k % 3], n_cond=4 + k % 3, M=1 + k % 3, method=method,
                                                          noise=0.5), **extra), ic, 'eval_fixed')
        for n_cond, nr, M in ((3, 2, 1), (3, 3, 2), (3, 6, 3), (3, 9, 4)) + (((12, 30, 6), (9, 17, 8)) if thorough else ((10, 21, 6),)):
            for method in (methods if thorough or n_cond == 3 else ('corr',)):
                k += 1
                add('C06/fixed-t', orc_fixed_t, dict(seed=9000 + k, n_rdm=nr, n_cond=n_cond, M=M, method=method, noise=0.5),
                    'three-conditions' if n_cond == 3 else 'larger-sizes', 'eval_fixed')
        # data RDMs whose 'index' descriptor has repeated values (a resampled / selected stack)
        for n_cond, nr, M in ((4, 6, 2), (5, 9, 3)):
            for method in ('corr', 'cosine'):
                k += 1
                add('C06/fixed-t', orc_fixed_t, dict(seed=9000 + k, n_rdm=nr, n_cond=n_cond, M=M, method=method, noise=0.5,
                                                     index_repeats=True), 'data-index-with-repeats', 'eval_fixed')
        # the Result after a round trip through its dictionary form / an HDF5 file: more subjects than conditions and vice versa
        for n_cond, nr, M in ((4, 12, 2), (6, 4, 3), (5, 5, 2)):
            for rt in ('dict', 'hdf5'):
                k += 1
                add('C06/fixed-t', orc_fixed_t, dict(seed=9000 + k, n_rdm=nr, n_cond=n_cond, M=M, method=('corr', 'cosine')[k % 2], noise=0.5,
                                                     roundtrip=rt), 'result-saved-and-loaded', 'eval_fixed')
        for near in (1e-2, 1e-4):
            for method in ('cosine', 'corr'):
                k += 1
                add('C06/fixed-t', orc_fixed_t, dict(seed=9000 + k, n_rdm=(4, 7)[k % 2], n_cond=5, M=2 + k % 2, method=method, noise=0.5,
                                                     near=near, degenerate=1e-30, vatol=1e-12 * near ** 2, vrtol=1e-6, prtol=max(1e-7, 1e-13 / near ** 2)),
                    'close-competitor-models', 'eval_fixed')
        for noise in (1e-3, 1e-5):
            for method in ('cosine', 'corr'):
                k += 1
                add('C06/fixed-t', orc_fixed_t, dict(seed=9000 + k, n_rdm=(4, 7)[k % 2], n_cond=5, M=2 + k % 2, method=method, noise=noise,
                                                     degenerate=1e-26, vatol=1e-12 * noise ** 2, vrtol=1e-5), 'low-noise', 'eval_fixed')
        for method in methods:
            for M in (1, 3):
                k += 1
                add('C06/fixed-t', orc_fixed_t, dict(seed=9000 + k, n_rdm=(3, 6)[k % 2], n_cond=5, M=M, method=method, noise=0.5, sequence=True),
                    'call-sequence', 'eval_fixed')
        # (dropped after triage: models whose evaluations differ by 1e-7 / 1e-9.  The difference variance 4e-17 / 4e-21 is then
        #  below the rounding error of var_i + var_j - 2 cov_ij formed from the stored covariance -- which is what the statement
        #  defines it to be -- so the classical paired t is not a definite expectation in double precision; the variance floor
        #  of the t-tests is covered by the class tiny-units(variance<eps).)

    # ---- contrasts ------------------------------------------------------------------------------------------------------------
    ns = ((None, None), (2, None), (None, 7), (3, 7), (40, 16))
    k = 0
    for seed in range(seeds):
        for unit in (1e-13, 1e-6, 1e3, 1e6):
            for M in (1, 2, 3, 4):
                for kind in ('scalar', 'vector', 'matrix', 'sentinel'):
                    for ncrows in (False, True):
                        if kind == 'scalar' and (M != 1 or ncrows):
                            continue
                        k += 1
                        n_rdm, n_pattern = ns[k % len(ns)]
                        route = ('Result', 'extract')[k % 2]
                        add('C06/contrasts', orc_contrasts, dict(seed=seed + 50, M=M, cov=kind, ncrows=ncrows, n_rdm=n_rdm, n_pattern=n_pattern,
                                                                 route=route, unit=unit), 'extreme-units',
                            'Result.__init__' if route == 'Result' else 'extract_variances')
        for vdt in ('int64', 'int32', 'int16', 'float32', 'uint8'):
            for M in (1, 2, 3, 4):
                for kind in (('vector', 'matrix') if vdt == 'uint8' else ('vector', 'matrix', 'sentinel')):
                    for ncrows in (False, True):
                        k += 1
                        n_rdm, n_pattern = ns[k % len(ns)]
                        route = ('Result', 'extract')[k % 2]
                        add('C06/contrasts', orc_contrasts, dict(seed=seed + 60, M=M, cov=kind, ncrows=ncrows, n_rdm=n_rdm, n_pattern=n_pattern,
                                                                 route=route, vdtype=vdt, vmul=(40 if vdt == 'uint8' else 4)),
                            f'dtype={vdt}' + (',contrasts-in-range' if vdt == 'uint8' else ''),
                            'Result.__init__' if route == 'Result' else 'extract_variances')
        if True:   # repaired in /repo 0dafc33c (was pending triage): uint8-covariance-contrast-overflow
            for M in (2, 3):
                for route in ('Result', 'extract'):
                    # uint8 covariance (entries <= 255) whose contrasts (~270) do not fit into uint8
                    add('C06/contrasts', orc_contrasts, dict(seed=seed + 61, M=M, cov='matrix', ncrows=True, n_rdm=5, n_pattern=None, route=route,
                                                             vdtype='uint8', vmul=150), 'uint8-covariance-contrast-overflow',
                        'Result.__init__' if route == 'Result' else 'extract_variances')
        for lay in LAYOUTS:
            for kind in ('vector', 'matrix', 'sentinel'):
                for M in (1, 3):
                    k += 1
                    n_rdm, n_pattern = ns[k % len(ns)]
                    route = ('Result', 'extract')[k % 2]
                    add('C06/contrasts', orc_contrasts, dict(seed=seed + 70, M=M, cov=kind, ncrows=bool(k % 2), n_rdm=n_rdm, n_pattern=n_pattern,
                                                             route=route, layout=lay), f'layout={lay}',
                        'Result.__init__' if route == 'Result' else 'extract_variances')
        for nt in NTYPES:
            for kind in ('vector', 'matrix'):
                for n_rdm, n_pattern in ((2, None), (None, 7), (3, 7), (40, 16)):
                    k += 1
                    route = ('Result', 'extract')[k % 2]
                    add('C06/contrasts', orc_contrasts, dict(seed=seed + 80, M=2 + k % 2, cov=kind, ncrows=bool(k % 2), n_rdm=n_rdm,
                                                             n_pattern=n_pattern, route=route, ntype=nt), f'n-type={nt}',
                        'Result.__init__' if route == 'Result' else 'extract_variances')
        for route in ('Result', 'extract'):
            for n_rdm, n_pattern in ns:
                add('C06/contrasts', orc_contrasts, dict(seed=seed + 90, M=1, cov='scalar', ncrows=False, n_rdm=n_rdm, n_pattern=n_pattern,
                                                         route=route, container='npfloat'), 'scalar-as-numpy-float',
                    'Result.__init__' if route == 'Result' else 'extract_variances')
        for M in ((6, 8, 10, 13) if thorough else (6, 9)):
            for kind in ('vector', 'matrix', 'sentinel'):
                for ncrows in (False, True):
                    k += 1
                    n_rdm, n_pattern = ns[k % len(ns)]
                    route = ('Result', 'extract')[k % 2]
                    add('C06/contrasts', orc_contrasts, dict(seed=seed + 95, M=M, cov=kind, ncrows=ncrows, n_rdm=n_rdm, n_pattern=n_pattern,
                                                             route=route), 'more-models', 'Result.__init__' if route == 'Result' else 'extract_variances')

    # ---- dual bootstrap -------------------------------------------------------------------------------------------------------
    dual_ns = ((None, None), (2, 2), (3, 40), (12, 20), (6, None))
    trivial = [('zero', 0.0, 0.0), ('scaled', 1.0, 1.0), ('scaled', 1.0, 0.0), ('scaled', 0.0, 1.0), ('scaled', 0.0, 0.0),
               ('additive', 0.5, None), ('additive', 0.25, None), ('additive', 1.0, None), ('scaled', 0.999999, 0.999999),
               ('scaled', 1.000001, 0.5), ('nearcap', 3e-6, 0.0), ('nearcap', 1e-9, 0.0), ('nearcap', -3e-6, 0.0), ('nearcap', 3e-6, 1e-3),
               ('scaled', 0.5, 0.5000025), ('scaled', 0.6, 0.4000003)]
    some = [('scaled', 0.45, 0.4), ('scaled', 1.1, 0.2), ('mixed', 0.5, 0.3), ('independent', 0.6, 0.1)]
    k = 0
    for seed in range(seeds):
        todo = []
        for M in (1, 2, 3):
            for ncrows in (False, True):
                for n_rdm, n_pattern in dual_ns:
                    for mode, s1, s2 in trivial:
                        todo.append((dict(M=M, ncrows=ncrows, n_rdm=n_rdm, n_pattern=n_pattern, mode=mode, s1=s1, s2=s2), 'trivial-and-close-competitors'))
                for mode, s1, s2 in some:
                    for unit in (1e-13, 1e-6, 1e3, 1e6):
                        k += 1
                        n_rdm, n_pattern = dual_ns[k % len(dual_ns)]
                        todo.append((dict(M=M, ncrows=ncrows, n_rdm=n_rdm, n_pattern=n_pattern, mode=mode, s1=s1, s2=s2, unit=unit), 'extreme-units'))
                    for vdt in ('int64', 'int16', 'float32'):
                        k += 1
                        n_rdm, n_pattern = dual_ns[k % len(dual_ns)]
                        todo.append((dict(M=M, ncrows=ncrows, n_rdm=n_rdm, n_pattern=n_pattern, mode=mode, s1=s1, s2=s2, vdtype=vdt), f'dtype={vdt}'))
                    k += 1
                    n_rdm, n_pattern = dual_ns[k % len(dual_ns)]
                    todo.append((dict(M=M, ncrows=ncrows, n_rdm=n_rdm, n_pattern=n_pattern, mode=mode, s1=s1, s2=s2, layout=LAYOUTS[k % 4]), 'layout'))
        for j, (c, ic) in enumerate(todo):
            c = dict(c, seed=seed + 40, route=('Result', 'extract')[j % 2])
            add('C06/dual-bounds', orc_dual_bounds, c, ic, '_dual_bootstrap')
            add('C06/dual-formula', orc_dual_formula, c, ic, '_dual_bootstrap')

    # ---- Result-based oracles: one list of variations, applied to seeded base cases -------------------------------------------
    def base(i, nd=None, M=None, **kwargs):
        nd = nd or (2, 3, 4, 5)[i % 4]
        c = dict(seed=12000 + i, M=M or 1 + i % 4, N=(8, 12, 20)[i % 3], tail=list(TAILS[nd]), cov=('vector', 'matrix', 'stack')[i % 3],
                 ncrows=bool(i % 2), ncshape=('1d', '2d', '3d')[i % 3], dof=(1, 2, 5, 30)[i % 4], n_rdm=(None, 4, 9)[i % 3],
                 n_pattern=(None, 6)[i % 2], cvm=BOOT_CV[i % len(BOOT_CV)])
        c.update(kwargs)
        return c
    variations = ([(dict(unit=u), 'extreme-units') for u in (1e-3, 1e3, 1e6, 1e12)]
                  + [(dict(unit=100.0, edtype=dt), f'evaluations-dtype={dt}') for dt in ('int64', 'int16', 'uint8')]
                  + [(dict(edtype='float32', nan=nan), 'evaluations-dtype=float32') for nan in ('none', 'samples')]
                  + [(dict(vdtype='float32'), 'covariance-dtype=float32')]
                  + [(dict(layout=lay, nan=('none', 'samples')[j % 2]), f'layout={lay}') for j, lay in enumerate(LAYOUTS)]
                  + [(dict(ntype=nt), f'n-type={nt}') for nt in NTYPES]
                  + [(dict(mcontainer='tuple'), 'models-tuple'), (dict(mcontainer='single', M=1, cov='scalar', ncrows=False), 'single-model-not-in-list'),
                     (dict(nccontainer='list', ncshape='1d'), 'ceiling-list'), (dict(nccontainer='tuple', ncshape='2d'), 'ceiling-tuple'),
                     (dict(names='dup'), 'duplicate-model-names')]
                  + [(dict(tail=list(t)), 'single-element-dimensions') for t in SINGLETON_TAILS]
                  + [(dict(N=1), 'one-sample'), (dict(N=2), 'two-samples'), (dict(N=1, tail=[1]), 'one-sample'),
                     (dict(N=2, tail=[1, 1]), 'two-samples')])
    i = 0
    for seed in range(seeds):
        for rep in range(2):
            for extra, ic in variations:
                i += 1
                c = base(i, **extra)
                if c.get('tail') is not None and 'tail' in extra:
                    c['ncshape'] = ('1d', '2d', '3d')[i % 3]
                add('C06/t-coherence', orc_t_coherence, c, ic, 't_tests')
                add('C06/sem-ci', orc_sem_ci, dict(c, ci=[0.5, 0.9, 0.95]), ic, 'Result.get_sem')
                cm = dict(c)
                add('C06/means', orc_means, dict(seed=cm['seed'], M=cm['M'], N=cm['N'], tail=cm['tail'], nan=cm.get('nan', 'none'), cvm=cm['cvm'],
                                                 **{q: cm[q] for q in ('unit', 'edtype', 'layout') if q in cm}), ic, 'Result.get_means')
        if True:   # recorded as open finding (was pending triage): tiny-units(variance<eps)
            # variances below machine eps (evaluations in units of 1e-9 / 1e-12): the t-tests clamp the variance at eps
            for unit in (1e-9, 1e-12):
                for nd in (2, 3):
                    i += 1
                    add('C06/t-coherence', orc_t_coherence, base(i, nd=nd, M=3, cov='matrix', unit=unit), 'tiny-units(variance<eps)', 't_tests')
        for unit in (1e-13, 1e-26, 1e-9):
            for nd in (2, 3):
                i += 1
                c = base(i, nd=nd, unit=unit)
                add('C06/sem-ci', orc_sem_ci, dict(c, ci=[0.5, 0.9, 0.95]), 'extreme-units', 'Result.get_sem')
                add('C06/means', orc_means, dict(seed=c['seed'], M=c['M'], N=c['N'], tail=c['tail'], nan='samples', cvm=c['cvm'], unit=unit),
                    'extreme-units', 'Result.get_means')

    # ---- ranges: every unit, dtype, size ---------------------------------------------------------------------------------------------
    i = 0
    for seed in range(seeds):
        for extra, ic in variations + [(dict(unit=u), 'extreme-units') for u in (1e-26, 1e-12, 1e-9)]:
            for ties in ((False, True) if thorough else (None,)):
                i += 1
                ties = bool(i % 2) if ties is None else ties
                c = base(i, **dict(dict(ties=ties, ncrows=True), **extra))
                c['seed'] = 13000 + i
                add('C06/p-range', orc_p_range, dict(c, tests=['t-test'], ncshape=('1d', '2d')[i % 2]), ic, 't_tests')
                add('C06/p-range', orc_p_range, dict(c, tests=['bootstrap'], ncshape='1d'), ic, 'bootstrap_pair_tests')
                if 'tail' not in extra and c.get('nan', 'none') != 'folds':
                    add('C06/p-range', orc_p_range, dict(c, tests=['ranksum'], tail=[(5, 6, 9)[i % 3]], nclevel=0.32, ncshape=('1d', '2d')[i % 2]),
                        ic, 'ranksum_pair_test')
        for S in (1, 2, 3, 4):
            for M in (1, 2, 3):
                i += 1
                add('C06/p-range', orc_p_range, dict(base(i, nd=3, M=M, ncrows=True), tests=['ranksum'], tail=[S], nclevel=0.32, ncshape='1d'),
                    'ranksum,few-subjects', 'ranksum_pair_test')
        if True:   # repaired in /repo 428f7606 (was pending triage): bootstrap-ceiling-per-sample,evaluations>2-D
            # what bootstrap_crossval / eval_dual_bootstrap return: (N, M, k..) evaluations with a (2, N, k..) ceiling, and (2, N) ceilings
            for nd in (3, 4):
                for ncshape in ('2d', '3d'):
                    i += 1
                    add('C06/p-range', orc_p_range, dict(base(i, nd=nd, M=2, ncrows=True), tests=['bootstrap'], ncshape=ncshape),
                        'bootstrap-ceiling-per-sample,evaluations>2-D', 'nc_tests')

    # ---- bootstrap formulas --------------------------------------------------------------------------------------------------------------
    i = 0
    for seed in range(seeds):
        for extra, ic in ([(dict(unit=u), 'extreme-units') for u in (2.0 ** -87, 1e-12, 1e6, 2.0 ** 40)]
                          + [(dict(unit=100.0, edtype=dt), f'evaluations-dtype={dt}') for dt in ('int64', 'int16', 'uint8')]
                          + [(dict(edtype='float32'), 'evaluations-dtype=float32')]
                          + [(dict(layout=lay), f'layout={lay}') for lay in LAYOUTS]
                          + [(dict(N=1), 'one-sample'), (dict(N=2), 'two-samples')]):
            for ties in (False, True):
                for route in ('Result', 'wrapper'):
                    i += 1
                    b = dict(dict(seed=14000 + i, M=2 + i % 3, N=(5, 10, 17, 40)[i % 4], tail=[], ties=ties, route=route), **extra)
                    add('C06/bootstrap-pairwise', orc_bootstrap_formulas, dict(b, which='pairwise', tail=list(TAILS[(2, 3, 4)[i % 3]])), ic,
                        'bootstrap_pair_tests')
                    add('C06/bootstrap-zero-ceiling', orc_bootstrap_formulas, dict(b, which='zero'), ic, 'zero_tests')
                    add('C06/bootstrap-zero-ceiling', orc_bootstrap_formulas, dict(b, which='noise', ncshape='1d'), ic, 'nc_tests')
                    add('C06/bootstrap-zero-ceiling', orc_bootstrap_formulas, dict(b, which='all', ncshape=('1d', '2d')[i % 2]), ic, 'all_tests')
        for t in SINGLETON_TAILS:
            for ties in (False, True):
                i += 1
                add('C06/bootstrap-pairwise', orc_bootstrap_formulas, dict(seed=14000 + i, M=2 + i % 3, N=(5, 10, 17)[i % 3], tail=list(t), ties=ties,
                                                                           route=('Result', 'wrapper')[i % 2], which='pairwise'),
                    'single-element-dimensions', 'bootstrap_pair_tests')

    # ---- ranksum ---------------------------------------------------------------------------------------------------------------------------
    i = 0
    for seed in range(seeds):
        for extra, ic in ([(dict(unit=u), 'extreme-units') for u in (2.0 ** -87, 1e-12, 1e6, 2.0 ** 40)]
                          + [(dict(unit=100.0, edtype=dt), f'evaluations-dtype={dt}') for dt in ('int64', 'int16', 'uint8')]
                          + [(dict(layout=lay), f'layout={lay}') for lay in LAYOUTS]
                          + [(dict(tail=[S]), 'few-subjects') for S in (1, 2, 3, 4)] + [(dict(names='dup'), 'duplicate-model-names')]):
            for ties in (False, True):
                i += 1
                S = extra.get('tail', [((5, 7, 9, 12) if thorough else (5, 6, 7, 8))[i % 4]])[0]
                N = (1, 6, 12)[i % 3]
                add('C06/ranksum', orc_ranksum, dict(dict(seed=15000 + i, M=1 + i % 4, N=N, tail=[S], nan='none', ties=ties, cov='matrix', ncrows=True,
                                                          ncshape=('1d', '2d')[i % 2], dof=max(S - 1, 1), n_rdm=max(S, 2), nclevel=0.32,
                                                          cvm='fixed' if N == 1 else 'bootstrap_rdm'), **extra), ic, 'ranksum_pair_test')

    # ---- monotonicity ------------------------------------------------------------------------------------------------------------------------
    deltas = [-40.0, -3.0, -0.7, -0.3, -0.1, -0.03, 0.0, 0.01, 0.04, 0.1, 0.25, 0.6, 1.5, 8.0, 100.0]
    i = 0
    for seed in range(seeds):
        for extra, ic in ([(dict(unit=u), 'extreme-units') for u in (1e-12, 1e-3, 1e6, 1e12)]
                          + [(dict(unit=100.0, edtype=dt), f'evaluations-dtype={dt}') for dt in ('int64', 'int16')]
                          + [(dict(layout='readonly'), 'layout=readonly')]):
            for route in ('Result', 'direct'):
                i += 1
                add('C06/monotone', orc_monotone, dict(dict(seed=16000 + i, M=2 + i % 3, N=9, tail=list(TAILS[(2, 3, 4)[i % 3]]), dof=(1, 2, 7, 40)[i % 4],
                                                            route=route, target=i % (2 + i % 3), deltas=deltas, scale=(1e-4, 0.004, 0.1, 1.0)[i % 4],
                                                            nan='none'), **extra), ic, 't_tests' if route == 'direct' else 'Result.test_pairwise')

    # ---- equivariance ---------------------------------------------------------------------------------------------------------------------
    i = 0
    for seed in range(seeds):
        for extra, ic in ([(dict(unit=u), 'extreme-units') for u in (1e-6, 1e6)]
                          + [(dict(unit=100.0, edtype=dt), f'evaluations-dtype={dt}') for dt in ('int64', 'uint8')]
                          + [(dict(layout=lay), f'layout={lay}') for lay in ('F', 'strided')]
                          + [(dict(names='dup'), 'duplicate-model-names')]
                          + [(dict(tail=list(t)), 'single-element-dimensions') for t in ((1,), (1, 1), (3, 1))]
                          + [(dict(N=1), 'one-sample'), (dict(N=2), 'two-samples')]):
            for M in ((2, 3, 4) if thorough else ((2, 3)[(i // 2) % 2],)):
                i += 1
                c = base(i, M=M, ties=bool(i % 2), ci=[0.9], **extra)
                c['seed'] = 17000 + i
                add('C06/equivariance', orc_equivariance, dict(c, tests=['t-test']), ic, 't_tests')
                add('C06/equivariance', orc_equivariance, dict(c, tests=['bootstrap'], ncshape='1d'), ic, 'bootstrap_pair_tests')
                if 'tail' not in extra:
                    add('C06/equivariance', orc_equivariance, dict(c, tests=['ranksum'], tail=[(6, 8)[i % 2]], nclevel=0.32, ncshape=('1d', '2d')[i % 2]),
                        ic, 'ranksum_pair_test')

    # ---- call sequences ----------------------------------------------------------------------------------------------------------------------
    i = 0
    for seed in range(seeds):
        for nd in (2, 3, 4):
            for M in (1, 2, 3):
                for cov in ('vector', 'matrix', 'stack'):
                    for lay in ((None, 'readonly') if thorough else ((None, 'readonly')[(nd + M + len(cov)) % 2],)):
                        i += 1
                        c = base(i, nd=nd, M=M, cov=cov, layout=lay, ties=bool(i % 2), nan=('none', 'samples')[(i // 2) % 2])
                        c['seed'] = 18000 + i
                        tests = ['t-test', 'bootstrap'] + (['ranksum'] if nd == 3 else [])
                        if nd == 3:
                            c.update(tail=[(6, 8)[i % 2]], nclevel=0.32)
                        add('C06/call-sequence', orc_call_sequence, dict(c, tests=tests, ncshape=('1d', '2d')[i % 2] if nd == 2 else '1d'), 'read-only-inputs' if lay else 'plain',
                            'Result')
    return sw


def _run_sweeps(bd, sw):
    todo = sw.get(bd.name, ())
    for orc, case, ic, fn in todo:
        bd.check(orc, case, ic, function=fn)
    if todo and bd.name not in ('C06/call-sequence',):
        bd.domain += SWEEP_DOC + ' (%d sweep cases in %d input classes)' % (len(todo), len({t[2] for t in todo}))


def tier_c(run, thorough):
    bds = []
    sw = _sweeps(thorough)

    # ---- eval_fixed: classical t identities ---------------------------------------------------------------------------
    methods = ('cosine', 'corr', 'spearman', 'tau-a', 'rho-a', 'cosine_cov', 'corr_cov') if thorough else ('cosine', 'corr', 'spearman')
    nrs = (2, 3, 4, 5, 8, 13) if thorough else (2, 3, 5, 8)
    bd = Bounded(run, 'C06/fixed-t', 'C06/eval_fixed/oracle/classical-t-identities',
                 'eval_fixed on seeded positive RDM stacks: n_rdm in %s, 4..6 conditions, 1..4 fixed models, methods %s, %d seeds; '
                 'scipy.stats.ttest_rel / ttest_1samp and literal formulas' % (list(nrs), list(methods), 3 if thorough else 2),
                 function='eval_fixed')
    for seed in range(3 if thorough else 2):
        for n in nrs:
            for M in (1, 2, 3, 4):
                for method in methods:
                    C = 4 + (seed + n + M) % 3
                    bd.check(orc_fixed_t, dict(seed=seed * 100 + n, n_rdm=n, n_cond=C, M=M, method=method,
                                               noise=(0.2, 0.5, 1.0)[(seed + M) % 3]),
                             'two-subjects' if n == 2 else 'generic', function='eval_fixed')
    _run_sweeps(bd, sw)
    bd.done()
    bds.append(bd)

    # ---- contrasts ----------------------------------------------------------------------------------------------------
    ns = ((None, None), (2, None), (None, 2), (3, 7), (7, 3), (5, 5), (12, None), (None, 30), (40, 16))
    bd = Bounded(run, 'C06/contrasts', 'C06/extract_variances/oracle/contrasts-with-n-factor',
                 'scalar / vector / PSD matrix / distinct-valued symmetric matrix covariances for 1..%d models, with and without '
                 'the two ceiling rows, (n_rdm, n_pattern) in %s, through Result(...) and extract_variances(...); %d seeds'
                 % (5 if thorough else 4, list(ns), 3 if thorough else 1), function='extract_variances')
    for seed in range(3 if thorough else 1):
        for M in range(1, 6 if thorough else 5):
            for kind in ('scalar', 'vector', 'matrix', 'sentinel'):
                for ncrows in (False, True):
                    if kind == 'scalar' and (M != 1 or ncrows):
                        continue
                    for n_rdm, n_pattern in ns:
                        for route in ('Result', 'extract'):
                            bd.check(orc_contrasts, dict(seed=seed, M=M, cov=kind, ncrows=ncrows, n_rdm=n_rdm,
                                                         n_pattern=n_pattern, route=route),
                                     f'{kind},{"with" if ncrows else "no"}-ceiling-rows',
                                     function='Result.__init__' if route == 'Result' else 'extract_variances')
    _run_sweeps(bd, sw)
    bd.done()
    bds.append(bd)

    # ---- dual bootstrap -----------------------------------------------------------------------------------------------
    dual_ns = ((None, None), (2, 2), (2, 40), (40, 2), (3, 3), (3, 40), (40, 3), (12, 20), (6, None), (None, 6))
    dual_modes = [('scaled', 0.45, 0.4), ('scaled', 0.8, 0.15), ('scaled', 0.15, 0.8), ('scaled', 1.1, 0.2),
                  ('scaled', 0.2, 1.3), ('scaled', 0.6, 0.6), ('scaled', 0.05, 0.02), ('mixed', 0.5, 0.3),
                  ('mixed', 0.7, 0.2), ('independent', 1.0, 1.0), ('independent', 0.3, 0.3), ('independent', 0.6, 0.1)]
    for name, orc, obl in (('C06/dual-bounds', orc_dual_bounds, 'C06/_dual_bootstrap/oracle/bounded-by-two-factor-and-single-factor'),
                           ('C06/dual-formula', orc_dual_formula, 'C06/_dual_bootstrap/oracle/documented-combination')):
        bd = Bounded(run, name, obl,
                     '3-stacks (two-factor, rdm, pattern) for 1..4 models with / without ceiling rows: single-factor matrices = '
                     'multiples of the two-factor one (ratios 0.02..1.3), mixtures, and unrelated PSD matrices; (n_rdm, n_pattern) in %s; '
                     'Result(...) and extract_variances(...); %d seeds' % (list(dual_ns), 3 if thorough else 1),
                     function='_dual_bootstrap')
        for seed in range(3 if thorough else 1):
            for M in (1, 2, 3, 4):
                for ncrows in (False, True):
                    for mode, s1, s2 in dual_modes:
                        for n_rdm, n_pattern in dual_ns:
                            route = 'Result' if (seed + M + len(mode) + (n_rdm or 0)) % 2 else 'extract'
                            few = (n_rdm is not None and n_pattern is not None and min(n_rdm, n_pattern) <= 3)
                            bd.check(orc, dict(seed=seed, M=M, ncrows=ncrows, mode=mode, s1=s1, s2=s2, n_rdm=n_rdm,
                                               n_pattern=n_pattern, route=route),
                                     ('few-rdms-or-patterns' if few else ('uncorrected' if None in (n_rdm, n_pattern) else 'corrected')),
                                     function='_dual_bootstrap')
        _run_sweeps(bd, sw)
        bd.done()
        bds.append(bd)

    # ---- coherence of the t-tests with reported variances and NaN-aware means -------------------------------------------
    bd = Bounded(run, 'C06/t-coherence', 'C06/t_tests/oracle/p-from-means-and-reported-variances',
                 '2..5-D evaluation arrays (8..20 samples, 1..4 models) without NaN / NaN samples / NaN folds / both; vector, matrix, '
                 '3-stack covariances with / without ceiling rows; ceilings (2,), (2,N), (2,N,k); dof in 1..30; %d seeds'
                 % (4 if thorough else 1), function='t_tests')
    i = 0
    for seed in range(4 if thorough else 1):
        for nd in (2, 3, 4, 5):
            for M in (1, 2, 3, 4):
                for nan in ('none', 'samples', 'folds', 'both'):
                    for cov in ('vector', 'matrix', 'stack'):
                        i += 1
                        if nan in ('folds', 'both') and nd == 2:
                            continue
                        case = dict(seed=1000 * seed + i, M=M, N=(8, 12, 20)[i % 3], tail=list(TAILS[nd]), nan=nan, cov=cov,
                                    ncrows=bool(i % 2), ncshape=('1d', '2d', '3d')[i % 3], dof=(1, 2, 5, 30)[i % 4],
                                    n_rdm=(None, 4, 9)[i % 3], n_pattern=(None, 6)[i % 2],
                                    cvm=BOOT_CV[i % len(BOOT_CV)])
                        bd.check(orc_t_coherence, case, f'{nd}-D,nan={nan}', function='t_tests')
    _run_sweeps(bd, sw)
    bd.done()
    bds.append(bd)

    # ---- ranges / symmetry ----------------------------------------------------------------------------------------------
    bd = Bounded(run, 'C06/p-range', 'C06/all_tests/oracle/p-in-unit-interval-symmetric-unit-diagonal',
                 't-test and bootstrap on 2..5-D arrays, ranksum on 3-D arrays (5..9 subjects); 6..20 samples, 1..4 models, no NaN / NaN '
                 'samples (/ NaN folds, not for ranksum), continuous and partially tied samples; ceiling (2,) for bootstrap, (2,), (2,N) '
                 'otherwise; %d seeds' % (4 if thorough else 1), function='all_tests')
    i = 0
    for seed in range(4 if thorough else 1):
        for nd in (2, 3, 4, 5):
            for M in (1, 2, 3, 4):
                for nan in ('none', 'samples', 'folds'):
                    for ties in (False, True):
                        i += 1
                        if nan == 'folds' and nd == 2:
                            continue
                        tail = list(TAILS[nd]) if nd != 3 else [(5, 6, 9)[i % 3]]
                        base = dict(seed=2000 * seed + i, M=M, N=(6, 11, 20)[i % 3], tail=tail, nan=nan, ties=ties,
                                    cov=('matrix', 'stack', 'vector')[i % 3], ncrows=True, dof=(1, 3, 12)[i % 3],
                                    n_rdm=(None, 5)[i % 2], n_pattern=(None, 7, 3)[i % 3])
                        bd.check(orc_p_range, dict(base, tests=['t-test'], ncshape=('1d', '2d')[i % 2]),
                                 't-test' + (',ties' if ties else ''), function='t_tests')
                        bd.check(orc_p_range, dict(base, tests=['bootstrap'], ncshape='1d'),
                                 'bootstrap' + (',partial-ties' if ties else ''), function='bootstrap_pair_tests')
                        if nd == 3 and nan != 'folds':
                            bd.check(orc_p_range, dict(base, tests=['ranksum'], nclevel=0.32, ncshape=('1d', '2d')[i % 2]),
                                     'ranksum' + (',ties' if ties else ''), function='ranksum_pair_test')
    _run_sweeps(bd, sw)
    bd.done()
    bds.append(bd)

    # ---- bootstrap tests, incl. the known failing classes ---------------------------------------------------------------
    bdp = Bounded(run, 'C06/bootstrap-pairwise', 'C06/bootstrap_pair_tests/oracle/two-sided-tie-corrected-proportion',
                  'NaN-free 2..5-D arrays, 2..4 models, 5..40 samples, continuous / partially tied / one pair tied in all samples; '
                  'Result.test_pairwise and pair_tests; %d seeds' % (4 if thorough else 2), function='bootstrap_pair_tests')
    bdz = Bounded(run, 'C06/bootstrap-zero-ceiling', 'C06/bootstrap-zero-ceiling-tests/oracle/p-bracketed-by-counts',
                  'NaN-free 2-D arrays, 2..4 models, 5..40 samples: zero and ceiling tests within [count/N, (count+1)/N] and [0,1], '
                  'all_tests = the three single tests; ceilings (2,) and per-sample (2,N) incl. N=2; saturated cases (all samples <= 0 / '
                  'above the ceiling); Result and wrappers; %d seeds' % (4 if thorough else 2), function='zero_tests')
    i = 0
    for seed in range(4 if thorough else 2):
        for nd in (2, 3, 4, 5):
            for M in (2, 3, 4):
                for ties in (False, True):
                    for route in ('Result', 'wrapper'):
                        i += 1
                        base = dict(seed=3000 * seed + i, M=M, N=(5, 10, 17, 40)[i % 4], tail=list(TAILS[nd]), ties=ties, route=route)
                        bdp.check(orc_bootstrap_formulas, dict(base, which='pairwise'),
                                  'partial-ties' if ties else 'no-ties', function='bootstrap_pair_tests')
                        if nd == 2:
                            bdz.check(orc_bootstrap_formulas, dict(base, which='zero'), 'zero', function='zero_tests')
                            bdz.check(orc_bootstrap_formulas, dict(base, which='noise', ncshape='1d'), 'noise,ceiling-1d', function='nc_tests')
                            bdz.check(orc_bootstrap_formulas, dict(base, which='all', ncshape='1d'), 'all,ceiling-1d', function='all_tests')
    for seed in range(2):
        for route in ('Result', 'wrapper'):
            base = dict(seed=3900 + seed, M=3, N=(9, 12)[seed], tail=[], route=route)
            bdp.check(orc_bootstrap_formulas, dict(base, which='pairwise', special='pair-all-tied'), 'bootstrap-pair-all-tied',
                      function='bootstrap_pair_tests')
            bdz.check(orc_bootstrap_formulas, dict(base, N=2, which='noise', ncshape='2d'), 'noise,ceiling-2x2', function='nc_tests')
            bdz.check(orc_bootstrap_formulas, dict(base, N=2, which='all', ncshape='2d'), 'all,ceiling-2x2', function='all_tests')
            bdz.check(orc_bootstrap_formulas, dict(base, which='noise', ncshape='2d'), 'bootstrap-nc-2xN:nc_tests', function='nc_tests')
            bdz.check(orc_bootstrap_formulas, dict(base, which='all', ncshape='2d'), 'bootstrap-nc-2xN:all_tests', function='all_tests')
            bdz.check(orc_bootstrap_formulas, dict(base, which='zero', special='zero-all-nonpositive'),
                      'bootstrap-zero-all-nonpositive:zero_tests', function='zero_tests')
            bdz.check(orc_bootstrap_formulas, dict(base, which='all', ncshape='1d', special='zero-all-nonpositive'),
                      'bootstrap-zero-all-nonpositive:all_tests', function='all_tests')
            bdz.check(orc_bootstrap_formulas, dict(base, which='noise', ncshape='1d', special='nc-all-above'),
                      'bootstrap-nc-all-above:nc_tests', function='nc_tests')
            bdz.check(orc_bootstrap_formulas, dict(base, which='all', ncshape='1d', special='nc-all-above'),
                      'bootstrap-nc-all-above:all_tests', function='all_tests')
    for bd in (bdp, bdz):
        _run_sweeps(bd, sw)
        bd.done()
        bds.append(bd)

    # ---- ranksum --------------------------------------------------------------------------------------------------------
    bd = Bounded(run, 'C06/ranksum', 'C06/ranksum_pair_test/oracle/wilcoxon-signed-rank',
                 '3-D arrays: 1..12 samples x 1..4 models x 5..%d subjects, no NaN / NaN samples, continuous / tied; scipy wilcoxon on the '
                 'differences, exact enumeration for <= 9 untied subjects; %d seeds' % (14 if thorough else 12, 3 if thorough else 1),
                 function='ranksum_pair_test')
    i = 0
    for seed in range(3 if thorough else 1):
        for M in (1, 2, 3, 4):
            for S in ((5, 6, 7, 9, 12, 14) if thorough else (5, 7, 9, 12)):
                for nan in ('none', 'samples'):
                    for ties in (False, True):
                        i += 1
                        N = (1, 6, 12)[i % 3] if nan == 'none' else (6, 12)[i % 2]
                        bd.check(orc_ranksum, dict(seed=4000 * seed + i, M=M, N=N, tail=[S], nan=nan, ties=ties, cov='matrix',
                                                   ncrows=True, ncshape=('1d', '2d')[i % 2], dof=S - 1, n_rdm=S, nclevel=0.32,
                                                   cvm='fixed' if (N == 1 and nan == 'none') else 'bootstrap_rdm'),
                                 ('ties' if ties else 'continuous') + f',nan={nan}', function='ranksum_pair_test')
    _run_sweeps(bd, sw)
    bd.done()
    bds.append(bd)

    # ---- monotonicity ---------------------------------------------------------------------------------------------------
    deltas = [-40.0, -3.0, -0.7, -0.3, -0.1, -0.03, 0.0, 0.01, 0.04, 0.1, 0.25, 0.6, 1.5, 8.0, 100.0]
    bd = Bounded(run, 'C06/monotone', 'C06/t_tests/oracle/p-monotone-in-effect',
                 '%d shifts (-40..100) of one model at fixed covariance: 2..4-D arrays, 2..4 models, dof in {1,2,7,40}, variance scales '
                 '1e-4..1, Result.test_* and t_tests / t_test_0 / t_test_nc directly; %d seeds' % (len(deltas), 4 if thorough else 1),
                 function='t_tests')
    i = 0
    for seed in range(4 if thorough else 1):
        for nd in (2, 3, 4):
            for M in (2, 3, 4):
                for dof in (1, 2, 7, 40):
                    for route in ('Result', 'direct'):
                        i += 1
                        bd.check(orc_monotone, dict(seed=5000 * seed + i, M=M, N=9, tail=list(TAILS[nd]), dof=dof, route=route,
                                                    target=i % M, deltas=deltas, scale=(1e-4, 0.004, 0.1, 1.0)[i % 4],
                                                    nan=('none', 'samples')[i % 2]),
                                 f'dof={dof}', function='t_tests' if route == 'direct' else 'Result.test_pairwise')
    _run_sweeps(bd, sw)
    bd.done()
    bds.append(bd)

    # ---- means ------------------------------------------------------------------------------------------------------------
    bd = Bounded(run, 'C06/means', 'C06/Result.get_means/oracle/nan-aware-average',
                 '2..5-D arrays (5..12 samples, 1..4 models) for the 5 bootstrap-type cv_methods: no NaN / NaN samples / NaN folds / '
                 'both / one NaN in a single model; (1, M, n) arrays for fixed / crossvalidation with NaN folds; %d seeds'
                 % (5 if thorough else 2), function='Result.get_means')
    i = 0
    for seed in range(5 if thorough else 2):
        for nd in (2, 3, 4, 5):
            for M in (1, 2, 3, 4):
                for nan in ('none', 'samples', 'folds', 'both'):
                    i += 1
                    if nan in ('folds', 'both') and nd == 2:
                        continue
                    bd.check(orc_means, dict(seed=6000 * seed + i, M=M, N=(5, 8, 12)[i % 3], tail=list(TAILS[nd]), nan=nan,
                                             cvm=BOOT_CV[i % len(BOOT_CV)]), f'{nd}-D,nan={nan}', function='Result.get_means')
        for M in (1, 2, 3):
            for cvm in ('fixed', 'crossvalidation'):
                for nan in ('none', 'folds'):
                    i += 1
                    bd.check(orc_means, dict(seed=6000 * seed + i, M=M, N=1, tail=[(3, 5, 8)[i % 3]], nan=nan, cvm=cvm),
                             f'{cvm},nan={nan}', function='Result.get_means')
        for M, k in ((2, 0), (2, 1), (3, 0), (3, 2)):
            for nd in (2, 3):
                i += 1
                bd.check(orc_means, dict(seed=6000 * seed + i, M=M, N=7, tail=list(TAILS[nd]), nan='single-model', nan_sample=3,
                                         nan_model=k, cvm='bootstrap'), 'nan-single-model', function='Result.get_means')
    _run_sweeps(bd, sw)
    bd.done()
    bds.append(bd)

    # ---- sem / ci -----------------------------------------------------------------------------------------------------------
    bd = Bounded(run, 'C06/sem-ci', 'C06/Result.get_sem/oracle/nonnegative-and-ci-ordering',
                 'scalar / vector / matrix / matrix with a negative model variance / 3-stack covariances, 1..4 models, 2..4-D arrays of 8..40 '
                 'samples with / without NaN samples, dof in {1,4,25}, CI levels 0.5/0.9/0.95/0.99 (t and bootstrap); %d seeds'
                 % (4 if thorough else 1), function='Result.get_sem')
    i = 0
    for seed in range(4 if thorough else 1):
        for nd in (2, 3, 4):
            for M in (1, 2, 3, 4):
                for cov in ('scalar', 'vector', 'matrix', 'negative', 'stack'):
                    for nan in ('none', 'samples'):
                        i += 1
                        if cov == 'scalar' and M != 1:
                            continue
                        ncrows = False if cov == 'scalar' else bool(i % 2)
                        bd.check(orc_sem_ci, dict(seed=7000 * seed + i, M=M, N=(8, 19, 40)[i % 3], tail=list(TAILS[nd]), nan=nan,
                                                  cov=cov, ncrows=ncrows, dof=(1, 4, 25)[i % 3], n_rdm=(None, 3, 10)[i % 3],
                                                  n_pattern=(None, 8)[i % 2], ci=[0.5, 0.9, 0.95, 0.99]),
                                 'negative-variance-entry' if cov == 'negative' else cov, function='Result.get_sem')
    _run_sweeps(bd, sw)
    bd.done()
    bds.append(bd)

    # ---- equivariance -------------------------------------------------------------------------------------------------------
    bd = Bounded(run, 'C06/equivariance', 'C06/Result/oracle/permuting-models-permutes-outputs',
                 'EVERY permutation of 2..4 models (%s): variances, means, SEM, t and bootstrap CI, pairwise / zero / ceiling / test_all '
                 'p-values for t-test, bootstrap (continuous and partially tied samples, 2..5-D) and ranksum (3-D); vector / matrix / '
                 '3-stack covariances with / without ceiling rows; NaN samples; %d seeds'
                 % ('exhaustive; plus 5 models (not ranksum) under 24 seeded permutations' if thorough else 'exhaustive', 3 if thorough else 1),
                 function='Result')
    i = 0
    for seed in range(3 if thorough else 1):
        for nd in (2, 3, 4, 5):
            for M in ((2, 3, 4, 5) if thorough else (2, 3, 4)):
                for ties in (False, True):
                    for cov in ('vector', 'matrix', 'stack'):
                        i += 1
                        if not thorough and M == 4 and nd in (4, 5) and cov == 'vector':
                            continue
                        tail = list(TAILS[nd]) if nd != 3 else [(6, 8)[i % 2]]
                        perms = None
                        if M == 5:
                            rs = np.random.RandomState(i)
                            perms = [rs.permutation(5).tolist() for _ in range(24)]
                        base = dict(seed=8000 * seed + i, M=M, N=(7, 12, 16)[i % 3], tail=tail, ties=ties, cov=cov, ncrows=bool(i % 3),
                                    dof=(2, 6)[i % 2], n_rdm=(None, 3, 7)[i % 3], n_pattern=(None, 5)[i % 2],
                                    nan=('none', 'samples')[(i // 2) % 2], ci=[0.9], perms=perms)
                        bd.check(orc_equivariance, dict(base, tests=['t-test'], ncshape=('1d', '2d', '3d')[i % 3]),
                                 't-test', function='t_tests')
                        if base['nan'] == 'none':
                            bd.check(orc_equivariance, dict(base, tests=['bootstrap'], ncshape='1d'),
                                     'bootstrap,partial-ties' if ties else 'bootstrap,no-ties', function='bootstrap_pair_tests')
                        else:
                            bd.check(orc_equivariance, dict(base, tests=['bootstrap'], ncshape='1d', select='boot-pairwise'),
                                     'bootstrap-pairwise,nan-samples', function='bootstrap_pair_tests')
                            bd.check(orc_equivariance, dict(base, tests=['bootstrap'], ncshape='1d', select='rest'),
                                     'bootstrap-zero-ceiling,nan-samples', function='zero_tests')
                        if nd == 3 and M <= 4:
                            bd.check(orc_equivariance, dict(base, tests=['ranksum'], nclevel=0.32, ncshape=('1d', '2d')[i % 2]),
                                     'ranksum,ties' if ties else 'ranksum', function='ranksum_pair_test')
    _run_sweeps(bd, sw)
    bd.done()
    bds.append(bd)

    # ---- call sequences -----------------------------------------------------------------------------------------------------
    bd = Bounded(run, 'C06/call-sequence', 'C06/Result/oracle/outputs-depend-on-own-inputs-only',
                 'two Results of the same shapes and parameters but other content used alternately (2..4-D, 1..3 models, vector / matrix / '
                 '3-stack covariance, t-test + bootstrap (+ ranksum for 3-D), NaN samples, partial ties): same call twice bit-identical, held '
                 'outputs unchanged, second Result reports its own means / contrasts / bootstrap p-values, rebuilt Result bit-identical, '
                 'inputs of Result, the test wrappers and extract_variances unchanged (plain and read-only arrays); %d seeds; eval_fixed '
                 'sequences are in C06/fixed-t (class call-sequence)' % (3 if thorough else 1), function='Result')
    _run_sweeps(bd, sw)
    bd.done()
    bds.append(bd)

    # ---- another interpreter, another hash seed -----------------------------------------------------------------------------------
    hseeds = (1, 2, 3, 4242, 4294967295) if thorough else (1, 2)
    bd = Bounded(run, 'C06/hashseed', 'C06/Result/oracle/same-outputs-under-another-hash-seed',
                 'fresh interpreters with PYTHONHASHSEED in %s: all outputs (variances, means, SEM, CI, p-values of the three test types) of '
                 '3 seeded Results and of eval_fixed (cosine, spearman) are bit-identical to those of this process; %d set(s) of seeded inputs'
                 % (list(hseeds), 2 if thorough else 1), function='Result')
    for rep in range(2 if thorough else 1):
        subs = [dict(seed=19000 + 10 * rep + j, M=(3, 2, 4)[j], N=(12, 9, 20)[j], tail=[[6], [], [3, 2]][j], cov=('matrix', 'vector', 'stack')[j],
                     ncrows=bool(j % 2), ncshape='1d', dof=(5, 2, 30)[j], n_rdm=(6, None, 9)[j], n_pattern=(None, 7, 6)[j], ties=bool(j % 2),
                     nclevel=0.32 if j == 0 else 0.6, tests=(['t-test', 'bootstrap', 'ranksum'] if j == 0 else ['t-test', 'bootstrap']))
                for j in range(3)]
        fixed = [dict(seed=19500 + 10 * rep + j, n_rdm=(5, 4)[j], n_cond=5, M=(3, 2)[j], method=('cosine', 'spearman')[j], noise=0.5)
                 for j in range(2)]
        bd.check(orc_hashseed, dict(hashseeds=list(hseeds), cases=subs, fixed=fixed), 'new-interpreter', function='Result')
    bd.done()
    bds.append(bd)
    return bds
