"""C08 -- fitted model parameters maximise the training criterion within constraints."""
import z3

from vf.pyvc.values import V, SV, Obj, SeqV, CaseV, ArrV, DictV, Undecided, fresh_name
from vf.pyvc.api import FuncCheck
from vf.pyvc.core import _const_names
from contracts.common import new_engine, finish_engine
from contracts._wrap import z3_lemma, finish, replay  # noqa

LEVEL = 'exploration'
FIT = 'rsatoolbox.model.fitter.'


def check_restriction(run, E):
    """fit_regress / fit_regress_nn: the model enters the fit ONLY through
    model.rdm_obj.subsample_pattern(pattern_descriptor, pattern_idx) (or the full rdm_obj when either is None), and the
    data only through pool_rdm(data, method): the returned parameters are a function of these two (EUF non-interference)"""
    E.schemas['ModelWeighted'] = {'rdm_obj': 'obj:RDMs', 'n_rdm': 'int', 'n_param': 'int'}
    E.func_ret['rsatoolbox.util.pooling.pool_rdm'] = 'RDMs'
    for fn in ('fit_regress', 'fit_regress_nn'):
        for idx_case in ('given', 'none'):
            for method in ('cosine', 'corr'):
                ck = FuncCheck(E, run, 'C08', FIT + fn, f'pattern_idx={idx_case},method={method}')

                def mk(E, idx_case=idx_case, method=method):
                    kw = dict(method=method,
                              pattern_idx=E.sym_val('pattern_idx', tag='ndarray') if idx_case == 'given' else None,
                              pattern_descriptor=E.sym_val('pd', tag='scalar') if idx_case == 'given' else None,
                              ridge_weight=E.sym_val('ridge'), sigma_k=None)
                    return [E.sym_obj('model', 'ModelWeighted'), E.sym_obj('data', 'RDMs')], kw, []

                def post(ck, E, args, kw, p, idx_case=idx_case):
                    model, data = args
                    res = p.value
                    term = E.toV(res)
                    rdm_obj = E.getattr(model, 'rdm_obj')
                    sel = E.methods[('RDMs', 'subsample_pattern')](E, rdm_obj, kw['pattern_descriptor'], kw['pattern_idx']) \
                        if idx_case == 'given' else rdm_obj
                    fvp = E.find_function('rsatoolbox.util.pooling.pool_rdm')
                    bound = E.bind_args(fvp.node, [data], dict(method=kw['method']), module=fvp.module)
                    pooled = E.app('rsatoolbox.util.pooling.pool_rdm', [bound[q] for q in bound], 'obj', cls='RDMs')
                    k1, k2 = z3.Const(fresh_name('SEL'), V), z3.Const(fresh_name('POOLED'), V)
                    rest = z3.substitute(term, (sel.term, k1), (pooled.term, k2))
                    names = _const_names(rest)
                    ck.ensure('post/model-enters-only-through-the-selected-conditions', z3.BoolVal('model' not in names),
                              note=f'symbols still occurring: {sorted(n for n in names if n in ("model", "data"))}')
                    ck.ensure('post/data-enters-only-through-the-pooled-training-rdm', z3.BoolVal('data' not in names))
                    ck.ensure('post/result-depends-on-the-selection', z3.BoolVal(str(k1) in names), note=f'result term: {str(rest)[:300]}')
                ck.execute(mk, post=post, allow_raise=lambda *a: None)
                yield ck


def run(run):
    E = new_engine(run)
    fails = []
    for ck in check_restriction(run, E):
        fails += ck.failed
    finish_engine(E, run)
    run.trust('optimality itself (BFGS / Brent / active-set convergence) is outside this family: decided by competitor search in the bounded tier')
    finish(run, fails, 'C08')
    run.explanation = ('engine A: EUF non-interference of the regression fitters (only the selected conditions of the model and the pooled '
                       'training RDM enter the result); bounded tier: optimality against competitor sets, KKT certificates, prediction '
                       'agreement, forwarding')
