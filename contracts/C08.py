"""C08 -- fitted model parameters maximise the training criterion within constraints."""
import z3

from vf.pyvc.values import V, SV, Obj, SeqV, CaseV, ArrV, DictV, Undecided, fresh_name
from vf.pyvc.api import FuncCheck
from vf.pyvc.core import _const_names
from contracts.common import new_engine, finish_engine
from contracts._wrap import z3_lemma, finish, replay  # noqa

LEVEL = 'exploration'
FIT = 'rsatoolbox.model.fitter.'


def check_restriction(run, E):
    """fit_regress / fit_regress_nn: the model enters the fit ONLY through
    model.rdm_obj.subsample_pattern(pattern_descriptor, pattern_idx) (or the full rdm_obj when either is None), and the
    data only through pool_rdm(data, method, sigma_k) -- pooled under the caller's sigma_k --: the returned parameters are a function of these two (EUF non-interference)"""
    E.schemas['ModelWeighted'] = {'rdm_obj': 'obj:RDMs', 'n_rdm': 'int', 'n_param': 'int'}
    E.func_ret['rsatoolbox.util.pooling.pool_rdm'] = 'RDMs'
    for fn in ('fit_regress', 'fit_regress_nn'):
        for idx_case in ('given', 'none'):
            for method in ('cosine', 'corr'):
                ck = FuncCheck(E, run, 'C08', FIT + fn, f'pattern_idx={idx_case},method={method}')

                def mk(E, idx_case=idx_case, method=method):
                    kw = dict(method=method,
                              pattern_idx=E.sym_val('pattern_idx', tag='ndarray') if idx_case == 'given' else None,
                              pattern_descriptor=E.sym_val('pd', tag='scalar') if idx_case == 'given' else None,
                              ridge_weight=E.sym_val('ridge'), sigma_k=E.sym_val('sigma_k'))
                    return [E.sym_obj('model', 'ModelWeighted'), E.sym_obj('data', 'RDMs')], kw, []

                def post(ck, E, args, kw, p, idx_case=idx_case):
                    model, data = args
                    res = p.value
                    term = E.toV(res)
                    rdm_obj = E.getattr(model, 'rdm_obj')
                    sel = E.methods[('RDMs', 'subsample_pattern')](E, rdm_obj, kw['pattern_descriptor'], kw['pattern_idx']) \
                        if idx_case == 'given' else rdm_obj
                    fvp = E.find_function('rsatoolbox.util.pooling.pool_rdm')
                    bound = E.bind_args(fvp.node, [data], dict(method=kw['method'], sigma_k=kw['sigma_k']), module=fvp.module)
                    pooled = E.app('rsatoolbox.util.pooling.pool_rdm', [bound[q] for q in bound], 'obj', cls='RDMs')
                    k1, k2 = z3.Const(fresh_name('SEL'), V), z3.Const(fresh_name('POOLED'), V)
                    rest = z3.substitute(term, (sel.term, k1), (pooled.term, k2))
                    names = _const_names(rest)
                    ck.ensure('post/model-enters-only-through-the-selected-conditions', z3.BoolVal('model' not in names),
                              note=f'symbols still occurring: {sorted(n for n in names if n in ("model", "data"))}')
                    ck.ensure('post/data-enters-only-through-the-pooled-training-rdm', z3.BoolVal('data' not in names))
                    ck.ensure('post/result-depends-on-the-selection', z3.BoolVal(str(k1) in names), note=f'result term: {str(rest)[:300]}')
                ck.execute(mk, post=post, allow_raise=lambda *a: None)
                yield ck


def check_select(run, E):
    """fit_select: the returned index is argmax over ALL candidates i of mean(compare(candidate i [restricted to the selected
    conditions], the training RDMs AS GIVEN, method, sigma_k)) -- the criterion of the property, with the caller's sigma_k and
    the unpooled training data (the mean over training RDMs is the mean of compare's row)"""
    E.schemas['ModelSelect'] = {'rdm_obj': 'obj:RDMs', 'n_rdm': 'int', 'n_param': 'int'}
    for idx_case in ('given', 'none'):
        ck = FuncCheck(E, run, 'C08', FIT + 'fit_select', f'pattern_idx={idx_case}')

        def mk(E, idx_case=idx_case):
            kw = dict(method=E.sym_val('method', tag='scalar'),
                      pattern_idx=E.sym_val('pattern_idx', tag='ndarray') if idx_case == 'given' else None,
                      pattern_descriptor=E.sym_val('pd', tag='scalar') if idx_case == 'given' else None,
                      sigma_k=E.sym_val('sigma_k'))
            m = E.sym_obj('model', 'ModelSelect')
            return [m, E.sym_obj('data', 'RDMs')], kw, [E.getattr(m, 'n_rdm').z >= 1]

        def post(ck, E, args, kw, p, idx_case=idx_case):
            model, data = args
            res = p.value
            ok = isinstance(res, SV) and res.app is not None and res.app[0] == 'numpy.argmax' and isinstance(res.app[1][0], ArrV)
            ck.ensure('post/returns-the-argmax-of-the-candidate-scores', z3.BoolVal(ok), structure=True,
                      note=f'result: {res!r} app={getattr(res, "app", None) and res.app[0]}')
            if not ok:
                return
            arr = res.app[1][0]
            n = E.getattr(model, 'n_rdm').z
            ck.ensure('post/one-score-per-candidate', arr.shape[0] == n if z3.is_expr(arr.shape[0]) else z3.BoolVal(False))
            j = E.sym_int('j')
            in_range = z3.And(j.z >= 0, j.z < n)
            got = E.select(arr, (j.z,))
            pred = E.call_method(model, 'predict_rdm', [j], {})
            if idx_case == 'given':
                pred = E.methods[('RDMs', 'subsample_pattern')](E, pred, kw['pattern_descriptor'], kw['pattern_idx'])
            fvc = E.find_function('rsatoolbox.rdm.compare.compare')
            bound = E.bind_args(fvc.node, [pred, data], dict(method=kw['method'], sigma_k=kw['sigma_k']), module=fvc.module)
            cmp_ = E.app('rsatoolbox.rdm.compare.compare', [bound[q] for q in bound])
            want = E.call_lib('numpy.mean', [cmp_], {})
            ck.ensure('post/score-i-is-the-mean-similarity-of-candidate-i-to-the-training-rdms-with-the-callers-sigma_k',
                      z3.Implies(in_range, E.veq(got, want)))
        ck.execute(mk, post=post, allow_raise=lambda *a: None)
        yield ck


def run(run):
    E = new_engine(run)
    fails = []
    for ck in check_restriction(run, E):
        fails += ck.failed
    for ck in check_select(run, E):
        fails += ck.failed
    finish_engine(E, run)
    run.trust('optimality itself (BFGS / Brent / active-set convergence) is outside this family: decided by competitor search in the bounded tier')
    finish(run, fails, 'C08')
    run.explanation = ('engine A: EUF non-interference of the regression fitters (only the selected conditions of the model and the pooled '
                       'training RDM enter the result); bounded tier: optimality against competitor sets, KKT certificates, prediction '
                       'agreement, forwarding')
