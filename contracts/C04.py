"""C04 -- each stored evaluation is the direct comparison of prediction and resampled data."""
import z3

from vf.pyvc.values import V, SV, Obj, SeqV, CaseV, ArrV, DictV, Undecided, fresh_name
from vf.pyvc.api import FuncCheck
from vf.pyvc.core import Contract
from vf.rt.harness import replay_file
from contracts.common import new_engine, finish_engine, report_a_failures

LEVEL = 'proof'
EV = 'rsatoolbox.inference.evaluate.'
BS = 'rsatoolbox.inference.bootstrap.'
NAN = float('nan')

SAMPLERS = {
    BS + 'bootstrap_sample': ('obj:RDMs', 'ndarray', 'ndarray'),
    BS + 'bootstrap_sample_rdm': ('obj:RDMs', 'ndarray'),
    BS + 'bootstrap_sample_pattern': ('obj:RDMs', 'ndarray'),
}


def engine(run):
    E = new_engine(run)
    for q, ret in SAMPLERS.items():
        E.contracts[q] = Contract(q, random=True, ret=ret, doc='havoc: any outcome of the random draw (its own contract is C09)')
    E.inline |= {'rsatoolbox.util.inference_util.input_check_model', EV + '_n_groups'}
    E.schemas['Model'] = {'default_fitter': lambda E, o, n: _tagged(E.app('attr.default_fitter', [o]), 'callable'),
                          'name': 'str', 'n_param': 'int'}
    return E


# ---- spec helpers: the same uninterpreted symbols the code must end up applying ------------------------
def call_repo(E, qual, *args, **kw):
    fv = E.find_function(qual)
    bound = E.bind_args(fv.node, list(args), dict(kw), module=fv.module)
    return E.app(qual, [bound[q] for q in bound])


def predict_rdm(E, model, theta):
    fv = E.find_method('Model', 'predict_rdm')
    return E.app(fv.name, [model, theta], 'obj', cls='RDMs')


def compare_mean(E, pred, data, method):
    c = call_repo(E, 'rsatoolbox.rdm.compare.compare', pred, data, method)
    return E.lib['numpy.mean'](E, c)


def boot_nc(E, data, method, rd):
    return call_repo(E, 'rsatoolbox.inference.noise_ceiling.boot_noise_ceiling', data, method=method, rdm_descriptor=rd)


def n_groups(E, data, which, desc):
    col = E.getitem(E.getattr(data, which), desc)
    return E.lib['numpy.unique'](E, col).zlen()


def n_unique(E, x):
    return E.lib['numpy.unique'](E, x).zlen()


def theta_of(E, theta, j):
    return None if theta is None else E.seq_elem(theta, j)


# ---- the three plain bootstrap routines -----------------------------------------------------------------
BOOT = {
    'eval_bootstrap': dict(sampler=BS + 'bootstrap_sample', both=True, cv_method='bootstrap'),
    'eval_bootstrap_pattern': dict(sampler=BS + 'bootstrap_sample_pattern', pattern=True, cv_method='bootstrap_pattern'),
    'eval_bootstrap_rdm': dict(sampler=BS + 'bootstrap_sample_rdm', rdm=True, cv_method='bootstrap_rdm'),
}


def check_bootstrap(run, E):
    for fn, cfg in BOOT.items():
        for theta_case in ('none', 'list'):
            for bnc in (True, False):
                ck = FuncCheck(E, run, 'C04', EV + fn, f'theta={theta_case},boot_noise_ceil={bnc}')

                def mk(E, theta_case=theta_case, bnc=bnc, fn=fn):
                    models = E.sym_list('models', 'Model')
                    data = E.sym_obj('data', 'RDMs')
                    theta = None if theta_case == 'none' else E.sym_list('theta')
                    N = E.sym_int('N')
                    kw = dict(theta=theta, method=E.sym_val('method', tag='scalar'), N=N, boot_noise_ceil=bnc,
                              rdm_descriptor=E.sym_val('rd', tag='scalar'))
                    if fn != 'eval_bootstrap_rdm':
                        kw['pattern_descriptor'] = E.sym_val('pd', tag='scalar')
                    assume = [N.z >= 2, models.zlen() >= 1]
                    if theta is not None:
                        assume.append(theta.zlen() == models.zlen())
                    return [models, data], kw, assume

                def post(ck, E, args, kw, p, cfg=cfg, bnc=bnc, fn=fn):
                    models, data = args
                    res = p.value
                    method, N, rd = kw['method'], kw['N'].z, kw['rdm_descriptor']
                    pd = kw.get('pattern_descriptor')
                    m = models.zlen()
                    ev = res.fields['evaluations']
                    ck.ensure('post/evaluations-shape', z3.BoolVal(isinstance(ev, ArrV) and len(ev.shape) == 2) if not isinstance(ev, ArrV)
                              else z3.And(ev.shape[0] == N, ev.shape[1] == m))
                    if not isinstance(ev, ArrV):
                        return
                    a = z3.Int(fresh_name('smp'))
                    b = z3.Int(fresh_name('mdl'))
                    E.pc.append(z3.And(a >= 0, a < N, b >= 0, b < m))
                    p.pc = list(E.pc)
                    # the a-th draw made inside the routine (observed, not assumed)
                    if cfg.get('both'):
                        S, R, P = E.havoc(cfg['sampler'], [data, rd, pd], SAMPLERS[cfg['sampler']], k=0, idxs=[a])
                    elif cfg.get('pattern'):
                        S, P = E.havoc(cfg['sampler'], [data, pd], SAMPLERS[cfg['sampler']], k=0, idxs=[a])
                    else:
                        S, R = E.havoc(cfg['sampler'], [data, rd], SAMPLERS[cfg['sampler']], k=0, idxs=[a])
                        P = None
                    pred = predict_rdm(E, E.seq_elem(models, b), theta_of(E, kw['theta'], b))
                    if P is not None:
                        pred = E.methods[('RDMs', 'subsample_pattern')](E, pred, pd, P)
                        usable = n_unique(E, P) >= 3
                    else:
                        usable = z3.BoolVal(True)
                    want = CaseV([(usable, compare_mean(E, pred, S, method)), (z3.Not(usable), NAN)])
                    ck.ensure_eq('post/evaluation-is-direct-comparison', E.select(ev, (a, b)), want)
                    # noise ceilings of the same resamples
                    nc = res.fields['noise_ceiling']
                    if bnc:
                        parts = nc.app[1][0] if isinstance(nc, SV) and nc.app and nc.app[0] == 'numpy.array' else None
                        ok = isinstance(parts, SeqV) and parts.items is not None and len(parts.items) == 2
                        ck.ensure('post/noise-ceiling-is-[min,max]-array', z3.BoolVal(ok))
                        if ok:
                            for k, lst in enumerate(parts.items):
                                ck.ensure('post/noise-ceiling-length', lst.zlen() == N)
                                w = CaseV([(usable, E.getitem(boot_nc(E, S, method, rd), k)), (z3.Not(usable), NAN)])
                                ck.ensure_eq(f'post/noise-ceiling-of-same-resample[{k}]', E.seq_elem(lst, a), w)
                    else:
                        ck.ensure_eq('post/noise-ceiling-of-data', nc, E.lib['numpy.array'](E, boot_nc(E, data, method, rd)))
                    # variances: sample covariance over the usable resamples only (ceiling rows included when bootstrapped)
                    isf = E.app('numpy.isfinite', [E.getitem(ev, (slice(None, None, None), 0))])
                    rows = E.getattr(E.getitem(ev, (isf, slice(None, None, None))), 'T')
                    if bnc:
                        stacked = E.app('numpy.concatenate', [SeqV(items=[rows, E.getitem(nc, (slice(None, None, None), isf))], kind='list')])
                    else:
                        stacked = rows
                    ck.ensure_eq('post/variances-are-cov-of-usable-resamples', res.fields['variances'], E.app('numpy.cov', [stacked]))
                    # degrees of freedom: number of resampled units (descriptor groups) minus one, the smaller if both
                    g_r = n_groups(E, data, 'rdm_descriptors', rd)
                    g_p = n_groups(E, data, 'pattern_descriptors', pd) if pd is not None else None
                    if cfg.get('both'):
                        want_dof = z3.If(g_r < g_p, g_r, g_p) - 1
                    elif cfg.get('pattern'):
                        want_dof = g_p - 1
                    else:
                        want_dof = g_r - 1
                    ck.ensure('post/dof-is-resampled-groups-minus-one', E.as_int(res.fields['dof']) == want_dof)
                    ck.ensure_eq('post/cv_method', res.fields['cv_method'], cfg['cv_method'])
                    ck.ensure_eq('post/method', res.fields['method'], method)
                    ck.ensure_eq('post/models', res.fields['models'], models)
                    ck.ensure_eq('post/n_rdm', res.fields['n_rdm'], E.getattr(data, 'n_rdm'))
                    ck.ensure_eq('post/n_pattern', res.fields['n_pattern'], E.getattr(data, 'n_cond'))
                ck.execute(mk, post=post, allow_raise=lambda *a: None)
                yield ck


def sym_sets(E, name):
    """symbolic list of (RDMs, pattern index list) pairs, as produced by the fold generators"""
    term = z3.Const(name, V)
    n = z3.Int(f'len_{name}')
    E.fact(n >= 0)
    holder = SV(term, 'val', tag='list')

    def elem(i):
        pair = E.app('getitem', [holder, SV(i, 'int')])
        return SeqV(items=[E.app('getitem', [pair, 0], 'obj', cls='RDMs'), E.app('getitem', [pair, 1], tag='ndarray')],
                    kind='list')
    return SeqV(length=n, elem=elem, kind='list', term=term)


def peel(v, name):
    """argument list of an application `name(...)`, or None"""
    app = getattr(v, 'app', None)
    if app is None or app[0] != name:
        return None
    return app[1]


def check_crossval(run, E, pid='C04'):
    for ceil_case, calc in (('list', True), ('list', False), ('none', False)):
        ck = FuncCheck(E, run, pid, EV + 'crossval', f'fitter=list,ceil_set={ceil_case},calc_noise_ceil={calc}')

        def mk(E, ceil_case=ceil_case, calc=calc):
            models = E.sym_list('models', 'Model')
            rdms = E.sym_obj('rdms', 'RDMs')
            train, test = sym_sets(E, 'train_set'), sym_sets(E, 'test_set')
            ceil = sym_sets(E, 'ceil_set') if ceil_case == 'list' else None
            fitter = E.sym_list('fitter')
            fitter.elem_tag = 'callable'
            old = fitter.elem
            fitter.elem = lambda i: _tagged(old(i), 'callable')
            kw = dict(ceil_set=ceil, method=E.sym_val('method', tag='scalar'), fitter=fitter,
                      pattern_descriptor=E.sym_val('pd', tag='scalar'), calc_noise_ceil=calc)
            assume = [models.zlen() >= 1, fitter.zlen() == models.zlen(), train.zlen() == test.zlen()]
            if ceil is not None:
                assume.append(ceil.zlen() == test.zlen())
            return [models, rdms, train, test], kw, assume

        def post(ck, E, args, kw, p, ceil_case=ceil_case, calc=calc):
            models, rdms, train, test = args
            res = p.value
            method, pd, fitter = kw['method'], kw['pattern_descriptor'], kw['fitter']
            m, nf = models.zlen(), train.zlen()
            ev = res.fields['evaluations']
            a1 = peel(ev, 'ndarray.reshape')
            ok = a1 is not None and len(a1) == 4
            ck.ensure('post/evaluations-shape-(1,models,folds)', z3.BoolVal(ok) if not ok else
                      z3.And(E.veq(a1[1], 1), E.veq(a1[2], SV(m, 'int')), E.veq(a1[3], SV(nf, 'int'))))
            a2 = peel(a1[0], 'attr.T') if ok else None
            lst = a2[0] if a2 else None
            ck.ensure('post/evaluations-are-folds-by-models-transposed', z3.BoolVal(isinstance(lst, SeqV)))
            if not isinstance(lst, SeqV):
                return
            ck.ensure('post/one-row-per-fold', lst.zlen() == nf)
            f = z3.Int(fresh_name('fold'))
            j = z3.Int(fresh_name('mdl'))
            E.pc.append(z3.And(f >= 0, f < nf, j >= 0, j < m))
            p.pc = list(E.pc)
            tr, te = E.seq_elem(train, f), E.seq_elem(test, f)
            tr0, tr1, te0, te1 = tr.items[0], tr.items[1], te.items[0], te.items[1]
            unusable = z3.Or(E.getattr(tr0, 'n_rdm').z == 0, E.getattr(te0, 'n_rdm').z == 0,
                             E.getattr(tr0, 'n_cond').z <= 2, E.getattr(te0, 'n_cond').z <= 2)
            row = E.seq_elem(lst, f)
            model_j = E.seq_elem(models, j)
            theta = E.app('call', [E.seq_elem(fitter, j), model_j, tr0,
                                   DictV(dict(method=method, pattern_idx=tr1, pattern_descriptor=pd))])
            pred = E.methods[('RDMs', 'subsample_pattern')](E, predict_rdm(E, model_j, theta), pd, te1)
            want = compare_mean(E, pred, te0, method)
            cases = row.cases if isinstance(row, CaseV) else [(z3.BoolVal(True), row)]
            for g, v in cases:
                E.pc = list(p.pc) + [g]
                saved = p.pc
                p.pc = list(E.pc)
                if isinstance(v, ArrV):
                    ck.ensure('post/usable-fold-guard', z3.Not(unusable))
                    ck.ensure_eq('post/evaluation-is-fit-on-train-then-compare-on-test', E.select(v, (j,)), want)
                else:
                    ck.ensure('post/unusable-fold-guard', unusable)
                    a3 = peel(v, 'op*')
                    isnanrow = a3 is not None and isinstance(a3[0], ArrV) and isinstance(a3[1], float) and a3[1] != a3[1]
                    ck.ensure('post/unusable-fold-is-nan-row', z3.BoolVal(isnanrow) if not isnanrow else a3[0].shape[0] == m)
                p.pc = saved
            E.pc = list(p.pc)
            nc = res.fields['noise_ceiling']
            if calc and ceil_case == 'list':
                ck.ensure_eq('post/noise-ceiling-is-cv-ceiling',
                             nc, call_repo(E, 'rsatoolbox.inference.noise_ceiling.cv_noise_ceiling', rdms, kw['ceil_set'], test,
                                           method=method, pattern_descriptor=pd))
            ck.ensure_eq('post/cv_method', res.fields['cv_method'], 'crossvalidation')
            ck.ensure_eq('post/method', res.fields['method'], method)
            ck.ensure_eq('post/models', res.fields['models'], models)
        ck.execute(mk, post=post, allow_raise=lambda E, a, k, p: z3.BoolVal(False) if p.exc.exc_name != 'AssertionError' else None)
        yield ck


def _tagged(v, tag):
    v.tag = tag
    return v


def check_fixed(run, E):
    for theta_case in ('none', 'list'):
        ck = FuncCheck(E, run, 'C04', EV + 'eval_fixed', f'theta={theta_case}')

        def mk(E, theta_case=theta_case):
            models = E.sym_list('models', 'Model')
            data = E.sym_obj('data', 'RDMs')
            theta = None if theta_case == 'none' else E.sym_list('theta')
            assume = [models.zlen() >= 1] + ([theta.zlen() == models.zlen()] if theta is not None else [])
            return [models, data], dict(theta=theta, method=E.sym_val('method', tag='scalar')), assume

        def post(ck, E, args, kw, p):
            models, data = args
            res = p.value
            method = kw['method']
            m, n = models.zlen(), E.getattr(data, 'n_rdm').z
            ev = res.fields['evaluations']
            a1 = peel(ev, 'ndarray.reshape')
            ok = a1 is not None and len(a1) == 4 and isinstance(a1[0], ArrV)
            ck.ensure('post/evaluations-shape-(1,models,rdms)', z3.BoolVal(ok) if not ok else
                      z3.And(E.veq(a1[1], 1), E.veq(a1[2], SV(m, 'int')), E.veq(a1[3], SV(n, 'int')),
                             a1[0].shape[0] == m, a1[0].shape[1] == n))
            if not ok:
                return
            j = z3.Int(fresh_name('mdl'))
            E.pc.append(z3.And(j >= 0, j < m))
            p.pc = list(E.pc)
            want = call_repo(E, 'rsatoolbox.rdm.compare.compare',
                             predict_rdm(E, E.seq_elem(models, j), theta_of(E, kw['theta'], j)), data, method)
            ck.ensure_eq('post/row-is-compare-of-prediction-with-all-data-rdms', E.select(a1[0], (j, None)), want)
            ck.ensure_eq('post/noise-ceiling', res.fields['noise_ceiling'], boot_nc(E, data, method, 'index'))
            multi = E.prove(n > 1, pc=p.pc)[0] == 'proved'
            if multi:
                # across RDMs: covariance (ddof=0) divided by their number; dof = n_rdm - 1
                want_v = E.binop('/', E.app('numpy.cov', [E.getitem(ev, 0), DictV(dict(ddof=0))]), SV(n, 'int'))
                ck.ensure_eq('post/variances-are-cov-over-rdms-divided-by-n', res.fields['variances'], want_v)
                ck.ensure('post/dof-is-n_rdm-minus-one', E.as_int(res.fields['dof']) == n - 1)
            ck.ensure_eq('post/cv_method', res.fields['cv_method'], 'fixed')
            ck.ensure_eq('post/n_rdm', res.fields['n_rdm'], E.getattr(data, 'n_rdm'))
            ck.ensure_eq('post/n_pattern', res.fields['n_pattern'], E.getattr(data, 'n_cond'))
        ck.execute(mk, post=post, allow_raise=lambda *a: None)
        yield ck


# ---- bootstrap-wrapped cross-validation --------------------------------------------------------------------------
CVS = 'rsatoolbox.inference.crossvalsets.'
NC = 'rsatoolbox.inference.noise_ceiling.'


def _havoc_sets(E, sample, pd, rd, k_pattern, k_rdm, k=0, idxs=None, gen='sets_k_fold', extra=None):
    """the (train, test, ceil) lists of [RDMs, pattern index] pairs of the k-th fold-generator call: any outcome (its own contract is C05)"""
    fv = E.find_function(CVS + gen)
    kws = dict(pattern_descriptor=pd, rdm_descriptor=rd, k_pattern=k_pattern, k_rdm=k_rdm, random=True) if gen == 'sets_k_fold' \
        else dict(pattern_descriptor=pd, rdm_descriptor=rd, n_pattern=k_pattern, n_rdm=k_rdm, n_cv=extra)
    bound = E.bind_args(fv.node, [sample], kws, module=fv.module)
    base = E.havoc(CVS + gen, [bound[q] for q in bound], 'val', k=k, idxs=idxs)
    out = []
    for which in range(3):
        lst = E.app('getitem', [base, which])
        n = E.app('len', [lst], 'int')
        E.fact(n.z >= 0)

        def elem(i, lst=lst):
            pair = E.app('getitem', [lst, SV(i, 'int')])
            return SeqV(items=[E.app('getitem', [pair, 0], 'obj', cls='RDMs'), E.app('getitem', [pair, 1], tag='ndarray')], kind='list')
        out.append(SeqV(length=n.z, elem=elem, kind='list', term=lst.z))
    return tuple(out)


def engine_cv(run):
    E = engine(run)

    def define_sets(E, **bound):
        return _havoc_sets(E, bound['rdms'], bound['pattern_descriptor'], bound['rdm_descriptor'], bound['k_pattern'], bound['k_rdm'],
                           k=None)
    E.contracts[CVS + 'sets_k_fold'] = Contract(CVS + 'sets_k_fold', define=define_sets,
                                                doc='havoc: any (train, test, ceil) lists of [RDMs, indices] pairs (own contract: C05)')

    def define_random(E, **bound):
        return _havoc_sets(E, bound['rdms'], bound['pattern_descriptor'], bound['rdm_descriptor'], bound['n_pattern'], bound['n_rdm'],
                           k=None, gen='sets_random', extra=bound['n_cv'])
    E.contracts[CVS + 'sets_random'] = Contract(CVS + 'sets_random', define=define_random,
                                                doc='havoc: any (train, test, ceil) lists of [RDMs, indices] pairs (own contract: C05)')
    E.func_ret[EV + 'crossval'] = 'Result'
    E.schemas['Result'] = {'evaluations': 'val'}
    return E


def check_internal_cv(run, E, pid='C04'):
    """_internal_cv: folds come from sets_k_fold(sample, the caller's descriptors and fold counts, random=True); the noise
    ceiling is the cross-validated one of those folds (before the index expansion) when something is cross-validated, else the
    leave-one-GROUP-out ceiling of the sample with the caller's rdm_descriptor; every fold's pattern indices are expanded to
    the bootstrap multiplicities (_concat_sampling with the drawn indices); crossval gets exactly these folds, the caller's
    method / fitter / pattern_descriptor and no ceiling computation; its evaluations and that ceiling are returned"""
    for kcase in ('cv', 'no-cv'):
        ck = FuncCheck(E, run, pid, EV + '_internal_cv', kcase)

        def mk(E, kcase=kcase):
            kp, kr = (E.sym_int('k_pattern'), E.sym_int('k_rdm')) if kcase == 'cv' else (1, 1)
            args = [E.sym_list('models', 'Model'), E.sym_obj('sample', 'RDMs'), E.sym_val('pd', tag='scalar'), E.sym_val('rd', tag='scalar'),
                    E.sym_val('pattern_idx', tag='ndarray'), kp, kr, E.sym_val('method', tag='scalar'), E.sym_val('fitter')]
            assume = [kp.z >= 1, kr.z >= 1, z3.Or(kp.z > 1, kr.z > 1)] if kcase == 'cv' else []
            return args, {}, assume

        def post(ck, E, args, kw, p, kcase=kcase):
            models, sample, pd, rd, pidx, kp, kr, method, fitter = args
            res = p.value
            ok = isinstance(res, tuple) and len(res) == 2
            ck.ensure('post/returns-(evaluations,noise-ceiling)', z3.BoolVal(ok), structure=True)
            if not ok:
                return
            evals, nc = res
            train, test, ceil = _havoc_sets(E, sample, pd, rd, kp, kr, k=0, idxs=[])
            if kcase == 'cv':
                want_nc = call_repo(E, NC + 'cv_noise_ceiling', sample, ceil, test, method=method, pattern_descriptor=pd)
            else:
                want_nc = boot_nc(E, sample, method, rd)
            ck.ensure_eq('post/noise-ceiling-of-the-same-folds-or-leave-one-group-out', nc, want_nc)
            a = peel(evals, 'attr.evaluations')
            cv = a[0] if a else None
            b = peel(cv, EV + 'crossval') if cv is not None else None
            ck.ensure('post/evaluations-come-from-crossval', z3.BoolVal(b is not None), structure=True,
                      note=f'evaluations: {getattr(evals, "app", None) and evals.app[0]}')
            if b is None:
                return
            fv = E.find_function(EV + 'crossval')
            got = dict(zip([x.arg for x in fv.node.args.args], b))
            ck.ensure_eq('post/crossval-gets-the-models', got['models'], models)
            ck.ensure_eq('post/crossval-gets-the-resample', got['rdms'], sample)
            for nm, v in (('method', method), ('fitter', fitter), ('pattern_descriptor', pd)):
                ck.ensure_eq(f'post/crossval-gets-the-callers-{nm}', got[nm], v)
            ck.ensure_eq('post/crossval-computes-no-ceiling-itself', got['calc_noise_ceil'], False)
            for nm, src in (('train_set', train), ('test_set', test)):
                lst = got[nm]
                okl = isinstance(lst, SeqV)
                ck.ensure(f'post/{nm}-is-the-generated-list', z3.BoolVal(okl) if not okl else lst.zlen() == src.zlen())
                if not okl:
                    continue
                f = z3.Int(fresh_name('fold'))
                in_f = z3.And(f >= 0, f < src.zlen())
                el, so = E.seq_elem(lst, f), E.seq_elem(src, f)
                cases = el.cases if isinstance(el, CaseV) else [(z3.BoolVal(True), el)]
                for g, e1 in cases:
                    okp = isinstance(e1, SeqV) and e1.items is not None and len(e1.items) == 2
                    ck.ensure(f'post/{nm}-entries-are-[rdms,indices]-pairs', z3.BoolVal(okp))
                    if not okp:
                        continue
                    ck.ensure(f'post/{nm}-keeps-the-fold-object', z3.Implies(z3.And(in_f, g), E.veq(e1.items[0], so.items[0])))
                    want_idx = call_repo(E, EV + '_concat_sampling', pidx, so.items[1])
                    ck.ensure(f'post/{nm}-indices-expanded-to-the-bootstrap-multiplicities',
                              z3.Implies(z3.And(in_f, g), E.veq(e1.items[1], want_idx)))
        ck.execute(mk, post=post, allow_raise=lambda *a: None)
        yield ck


BOOTCV = {'both': dict(sampler=BS + 'bootstrap_sample', cv_method='bootstrap_crossval'),
          'pattern': dict(sampler=BS + 'bootstrap_sample_pattern', cv_method='bootstrap_crossval_pattern'),
          'rdm': dict(sampler=BS + 'bootstrap_sample_rdm', cv_method='bootstrap_crossval_rdm')}


def check_bootcv(run, E):
    """bootstrap_crossval: for every draw i (havoc) with enough distinct groups (>= k_rdm RDM groups and >= 3 k_pattern condition
    groups) and every repetition c, evaluations[i, :, :, c] and noise_ceil[:, i, c] are what _internal_cv returns for THAT resample
    with the drawn condition indices and the caller's descriptors / fold counts / method / fitter; too small draws are NaN
    everywhere; dof = resampled groups - 1 (the smaller), cv_method and the unit counts follow the boot_type"""
    E.contracts[EV + '_internal_cv'] = Contract(EV + '_internal_cv', random=True, ret=('ndarray', 'ndarray'),
                                                doc='havoc: any outcome of the random fold assignment (own contract above)')
    for bt, cfg in BOOTCV.items():
        ck = FuncCheck(E, run, 'C04', EV + 'bootstrap_crossval', f'boot_type={bt}')

        def mk(E, bt=bt):
            models = E.sym_list('models', 'Model')
            kw = dict(method=E.sym_val('method', tag='scalar'), fitter=E.sym_val('fitter'), k_pattern=E.sym_int('k_pattern'),
                      k_rdm=E.sym_int('k_rdm'), N=E.sym_int('N'), n_cv=E.sym_int('n_cv'), pattern_descriptor=E.sym_val('pd', tag='scalar'),
                      rdm_descriptor=E.sym_val('rd', tag='scalar'), boot_type=bt, use_correction=False)
            assume = [kw['k_pattern'].z >= 1, kw['k_rdm'].z >= 1, kw['N'].z >= 2, kw['n_cv'].z >= 1, models.zlen() >= 1]
            return [models, E.sym_obj('data', 'RDMs')], kw, assume

        def post(ck, E, args, kw, p, bt=bt, cfg=cfg):
            models, data = args
            res = p.value
            method, fitter, pd, rd = kw['method'], kw['fitter'], kw['pattern_descriptor'], kw['rdm_descriptor']
            kp, kr, N, ncv = kw['k_pattern'], kw['k_rdm'], kw['N'].z, kw['n_cv'].z
            ev, nc = res.fields['evaluations'], res.fields['noise_ceiling']
            ok = isinstance(ev, ArrV) and len(ev.shape) == 4 and isinstance(nc, ArrV) and len(nc.shape) == 3
            ck.ensure('post/result-arrays-are-(N,models,folds,n_cv)-and-(2,N,n_cv)', z3.BoolVal(ok) if not ok else z3.And(
                ev.shape[0] == N, ev.shape[1] == models.zlen(), ev.shape[2] == kp.z * kr.z, ev.shape[3] == ncv,
                nc.shape[0] == 2 if z3.is_expr(nc.shape[0]) else z3.BoolVal(nc.shape[0] == 2), nc.shape[1] == N, nc.shape[2] == ncv))
            if not ok:
                return
            a, c = z3.Int(fresh_name('smp')), z3.Int(fresh_name('rep'))
            E.pc.append(z3.And(a >= 0, a < N, c >= 0, c < ncv))
            p.pc = list(E.pc)
            if bt == 'both':
                S, R, P = E.havoc(cfg['sampler'], [data, rd, pd], SAMPLERS[cfg['sampler']], k=0, idxs=[a])
            elif bt == 'pattern':
                S, P = E.havoc(cfg['sampler'], [data, pd], SAMPLERS[cfg['sampler']], k=0, idxs=[a])
                R = E.lib['numpy.unique'](E, E.getitem(E.getattr(data, 'rdm_descriptors'), rd))
            else:
                S, R = E.havoc(cfg['sampler'], [data, rd], SAMPLERS[cfg['sampler']], k=0, idxs=[a])
                P = E.lib['numpy.unique'](E, E.getitem(E.getattr(data, 'pattern_descriptors'), pd))
            usable = z3.And(n_unique(E, R) >= kr.z, n_unique(E, P) >= 3 * kp.z)
            evals, cvnc = E.havoc(EV + '_internal_cv', [models, S, pd, rd, P, kp, kr, method, fitter], ('ndarray', 'ndarray'),
                                  k=0, idxs=[a, c])
            want_e = CaseV([(usable, E.getitem(evals, 0)), (z3.Not(usable), NAN)])
            ck.ensure_eq('post/evaluations-of-draw-i-repetition-c-are-the-cross-validation-of-that-resample',
                         E.select(ev, (a, None, None, c)), want_e)
            want_n = CaseV([(usable, cvnc), (z3.Not(usable), NAN)])
            ck.ensure_eq('post/noise-ceiling-of-the-same-resample-and-folds', E.select(nc, (None, a, c)), want_n)
            g_r = n_groups(E, data, 'rdm_descriptors', rd)
            g_p = n_groups(E, data, 'pattern_descriptors', pd)
            want_dof = {'both': z3.If(g_r < g_p, g_r, g_p) - 1, 'pattern': g_p - 1, 'rdm': g_r - 1}[bt]
            ck.ensure('post/dof-is-resampled-groups-minus-one', E.as_int(res.fields['dof']) == want_dof)
            ck.ensure_eq('post/cv_method', res.fields['cv_method'], cfg['cv_method'])
            ck.ensure_eq('post/method', res.fields['method'], method)
            ck.ensure_eq('post/models', res.fields['models'], models)
            ck.ensure_eq('post/n_rdm', res.fields['n_rdm'], None if bt == 'pattern' else E.getattr(data, 'n_rdm'))
            ck.ensure_eq('post/n_pattern', res.fields['n_pattern'], None if bt == 'rdm' else E.getattr(data, 'n_cond'))
        ck.execute(mk, post=post, allow_raise=lambda *a: None)
        yield ck
    del E.contracts[EV + '_internal_cv']


def check_dual(run, E):
    """eval_dual_bootstrap: per draw i (havoc) and repetition c three cross-validations are stored along the last axis --
    slot 0: the two-factor resample with the drawn condition indices, slot 1: the data resampled over RDMs only (all condition
    groups), slot 2: the data resampled over conditions only (drawn condition indices) -- each what _internal_cv returns for
    that object with the caller's settings; draws with too few distinct groups are NaN in every slot; dof = min(groups) - 1"""
    E.contracts[EV + '_internal_cv'] = Contract(EV + '_internal_cv', random=True, ret=('ndarray', 'ndarray'),
                                                doc='havoc: any outcome of the random fold assignment (own contract above)')
    ck = FuncCheck(E, run, 'C04', EV + 'eval_dual_bootstrap', 'k>1')

    def mk(E):
        models = E.sym_list('models', 'Model')
        kw = dict(method=E.sym_val('method', tag='scalar'), fitter=E.sym_val('fitter'), k_pattern=E.sym_int('k_pattern'),
                  k_rdm=E.sym_int('k_rdm'), N=E.sym_int('N'), n_cv=E.sym_int('n_cv'), pattern_descriptor=E.sym_val('pd', tag='scalar'),
                  rdm_descriptor=E.sym_val('rd', tag='scalar'), use_correction=False)
        assume = [kw['k_pattern'].z >= 2, kw['k_rdm'].z >= 1, kw['N'].z >= 2, kw['n_cv'].z >= 1, models.zlen() >= 1]
        return [models, E.sym_obj('data', 'RDMs')], kw, assume

    def post(ck, E, args, kw, p):
        models, data = args
        res = p.value
        method, fitter, pd, rd = kw['method'], kw['fitter'], kw['pattern_descriptor'], kw['rdm_descriptor']
        kp, kr, N, ncv = kw['k_pattern'], kw['k_rdm'], kw['N'].z, kw['n_cv'].z
        ev, nc = res.fields['evaluations'], res.fields['noise_ceiling']
        ok = isinstance(ev, ArrV) and len(ev.shape) == 5 and isinstance(nc, ArrV) and len(nc.shape) == 4
        ck.ensure('post/result-arrays-are-(N,models,folds,n_cv,3)-and-(2,N,n_cv,3)', z3.BoolVal(ok) if not ok else z3.And(
            ev.shape[0] == N, ev.shape[1] == models.zlen(), ev.shape[2] == kp.z * kr.z, ev.shape[3] == ncv,
            z3.BoolVal(ev.shape[4] == 3), nc.shape[1] == N, nc.shape[2] == ncv, z3.BoolVal(nc.shape[3] == 3)))
        if not ok:
            return
        a, c = z3.Int(fresh_name('smp')), z3.Int(fresh_name('rep'))
        E.pc.append(z3.And(a >= 0, a < N, c >= 0, c < ncv))
        p.pc = list(E.pc)
        S, R, P = E.havoc(BS + 'bootstrap_sample', [data, rd, pd], SAMPLERS[BS + 'bootstrap_sample'], k=0, idxs=[a])
        usable = z3.And(n_unique(E, R) >= kr.z, n_unique(E, P) >= 3 * kp.z)
        all_p = E.lib['numpy.unique'](E, E.getitem(E.getattr(data, 'pattern_descriptors'), pd))
        slots = [(S, P, 'two-factor resample'),
                 (E.methods[('RDMs', 'subsample')](E, data, rd, R), all_p, 'resample over RDMs only'),
                 (E.methods[('RDMs', 'subsample_pattern')](E, data, pd, P), P, 'resample over conditions only')]
        for slot, (obj, pidx, what) in enumerate(slots):
            evals, cvnc = E.havoc(EV + '_internal_cv', [models, obj, pd, rd, pidx, kp, kr, method, fitter], ('ndarray', 'ndarray'),
                                  k=slot, idxs=[a, c])
            ck.ensure_eq(f'post/slot-{slot}-evaluations-are-the-cross-validation-of-the-{what.replace(" ", "-")}',
                         E.select(ev, (a, None, None, c, slot)), CaseV([(usable, E.getitem(evals, 0)), (z3.Not(usable), NAN)]))
            ck.ensure_eq(f'post/slot-{slot}-noise-ceiling-of-the-same-object-and-folds',
                         E.select(nc, (None, a, c, slot)), CaseV([(usable, cvnc), (z3.Not(usable), NAN)]))
        g_r = n_groups(E, data, 'rdm_descriptors', rd)
        g_p = n_groups(E, data, 'pattern_descriptors', pd)
        ck.ensure('post/dof-is-resampled-groups-minus-one', E.as_int(res.fields['dof']) == z3.If(g_r < g_p, g_r, g_p) - 1)
        ck.ensure_eq('post/cv_method', res.fields['cv_method'], 'dual_bootstrap')
        ck.ensure_eq('post/method', res.fields['method'], method)
        ck.ensure_eq('post/models', res.fields['models'], models)
    ck.execute(mk, post=post, allow_raise=lambda *a: None)
    yield ck
    del E.contracts[EV + '_internal_cv']


def check_dual_random(run, E):
    """eval_dual_bootstrap_random: for every draw i (havoc) with more than n_rdm distinct RDM groups and at least 3 + n_pattern
    distinct condition groups, the n_cv random train/test splits of THAT resample (sets_random, havoc) are evaluated by crossval
    with the fold indices expanded to the bootstrap multiplicities and the caller's method / fitter / pattern_descriptor;
    evaluations[i] is that result, the ceiling that of the same folds (or leave-one-group-out when nothing is held out),
    stored along the bound axis; smaller draws are NaN; dof and cv_method follow the boot_type"""
    for bt, cfg in BOOTCV.items():
        ck = FuncCheck(E, run, 'C04', EV + 'eval_dual_bootstrap_random', f'boot_type={bt}')

        def mk(E, bt=bt):
            models = E.sym_list('models', 'Model')
            kw = dict(method=E.sym_val('method', tag='scalar'), fitter=E.sym_val('fitter'), n_pattern=E.sym_int('n_pattern'),
                      n_rdm=E.sym_int('n_rdm'), N=E.sym_int('N'), n_cv=E.sym_int('n_cv'), pattern_descriptor=E.sym_val('pd', tag='scalar'),
                      rdm_descriptor=E.sym_val('rd', tag='scalar'), boot_type=bt, use_correction=False)
            assume = [kw['n_pattern'].z >= 0, kw['n_rdm'].z >= 0, z3.Or(kw['n_pattern'].z > 0, kw['n_rdm'].z > 0), kw['N'].z >= 2,
                      kw['n_cv'].z >= 1, models.zlen() >= 1]
            return [models, E.sym_obj('data', 'RDMs')], kw, assume

        def post(ck, E, args, kw, p, bt=bt, cfg=cfg):
            models, data = args
            res = p.value
            method, fitter, pd, rd = kw['method'], kw['fitter'], kw['pattern_descriptor'], kw['rdm_descriptor']
            npat, nrdm, N, ncv = kw['n_pattern'], kw['n_rdm'], kw['N'].z, kw['n_cv']
            ev, nc = res.fields['evaluations'], res.fields['noise_ceiling']
            ok = isinstance(ev, ArrV) and len(ev.shape) == 3 and isinstance(nc, ArrV) and len(nc.shape) == 3
            ck.ensure('post/result-arrays-are-(N,models,n_cv)-and-(2,N,n_cv)', z3.BoolVal(ok) if not ok else z3.And(
                ev.shape[0] == N, ev.shape[1] == models.zlen(), ev.shape[2] == ncv.z, nc.shape[1] == N, nc.shape[2] == ncv.z))
            if not ok:
                return
            a = z3.Int(fresh_name('smp'))
            E.pc.append(z3.And(a >= 0, a < N))
            p.pc = list(E.pc)
            if bt == 'both':
                S, R, P = E.havoc(cfg['sampler'], [data, rd, pd], SAMPLERS[cfg['sampler']], k=0, idxs=[a])
            elif bt == 'pattern':
                S, P = E.havoc(cfg['sampler'], [data, pd], SAMPLERS[cfg['sampler']], k=0, idxs=[a])
                R = E.lib['numpy.unique'](E, E.getitem(E.getattr(data, 'rdm_descriptors'), rd))
            else:
                S, R = E.havoc(cfg['sampler'], [data, rd], SAMPLERS[cfg['sampler']], k=0, idxs=[a])
                P = E.lib['numpy.unique'](E, E.getitem(E.getattr(data, 'pattern_descriptors'), pd))
            usable = z3.And(n_unique(E, R) > nrdm.z, n_unique(E, P) >= 3 + npat.z)
            train, test, ceil = _havoc_sets(E, S, pd, rd, npat, nrdm, k=0, idxs=[a], gen='sets_random', extra=ncv)
            want_nc = call_repo(E, NC + 'cv_noise_ceiling', S, ceil, test, method=method, pattern_descriptor=pd)
            sl = slice(None, None, None)
            got_nc = E.select(nc, (None, a, None))
            ck.ensure_eq('post/noise-ceiling-of-the-same-resample-and-splits-along-the-bound-axis', got_nc,
                         CaseV([(usable, E.getitem(E.lib['numpy.array'](E, want_nc), (sl, None))), (z3.Not(usable), NAN)]))
            got = E.select(ev, (a, None, None))
            cases = got.cases if isinstance(got, CaseV) else [(z3.BoolVal(True), got)]
            for g, v in cases:
                if isinstance(v, float) and v != v:
                    ck.ensure('post/too-small-draws-are-nan', z3.Implies(g, z3.Not(usable)))
                    continue
                if isinstance(v, (int, float)):
                    ck.ensure('post/only-unwritten-cells-hold-the-initial-value', z3.Not(g))
                    continue
                ck.ensure('post/usable-draws-are-evaluated', z3.Implies(g, usable))
                a0 = peel(v, 'getitem')
                a1 = peel(a0[0], 'attr.evaluations') if a0 else None
                b = peel(a1[0], EV + 'crossval') if a1 else None
                ck.ensure('post/evaluations-come-from-crossval', z3.BoolVal(b is not None and a0[1] == 0), structure=True)
                if b is None:
                    continue
                fv = E.find_function(EV + 'crossval')
                gotk = dict(zip([x.arg for x in fv.node.args.args], b))
                saved = p.pc
                p.pc = list(p.pc) + [g]
                ck.ensure_eq('post/crossval-gets-the-models', gotk['models'], models)
                ck.ensure_eq('post/crossval-gets-the-resample', gotk['rdms'], S)
                for nm, val in (('method', method), ('fitter', fitter), ('pattern_descriptor', pd)):
                    ck.ensure_eq(f'post/crossval-gets-the-callers-{nm}', gotk[nm], val)
                ck.ensure_eq('post/crossval-computes-no-ceiling-itself', gotk['calc_noise_ceil'], False)
                for nm, src in (('train_set', train), ('test_set', test)):
                    lst = gotk[nm]
                    okl = isinstance(lst, SeqV)
                    ck.ensure(f'post/{nm}-is-the-generated-list', z3.BoolVal(okl) if not okl else lst.zlen() == src.zlen())
                    if not okl:
                        continue
                    f = z3.Int(fresh_name('fold'))
                    in_f = z3.And(f >= 0, f < src.zlen())
                    el, so = E.seq_elem(lst, f), E.seq_elem(src, f)
                    for g2, e1 in (el.cases if isinstance(el, CaseV) else [(z3.BoolVal(True), el)]):
                        okp = isinstance(e1, SeqV) and e1.items is not None and len(e1.items) == 2
                        ck.ensure(f'post/{nm}-entries-are-[rdms,indices]-pairs', z3.BoolVal(okp))
                        if okp:
                            ck.ensure(f'post/{nm}-keeps-the-fold-object', z3.Implies(z3.And(in_f, g2), E.veq(e1.items[0], so.items[0])))
                            ck.ensure(f'post/{nm}-indices-expanded-to-the-bootstrap-multiplicities', z3.Implies(
                                z3.And(in_f, g2), E.veq(e1.items[1], call_repo(E, EV + '_concat_sampling', P, so.items[1]))))
                p.pc = saved
            g_r = n_groups(E, data, 'rdm_descriptors', rd)
            g_p = n_groups(E, data, 'pattern_descriptors', pd)
            want_dof = {'both': z3.If(g_r < g_p, g_r, g_p) - 1, 'pattern': g_p - 1, 'rdm': g_r - 1}[bt]
            ck.ensure('post/dof-is-resampled-groups-minus-one', E.as_int(res.fields['dof']) == want_dof)
            ck.ensure_eq('post/cv_method', res.fields['cv_method'], cfg['cv_method'])
        ck.execute(mk, post=post, allow_raise=lambda *a: None)
        yield ck


def run(run):
    E = engine(run)
    fails = []
    for gen in (check_bootstrap, check_crossval, check_fixed):
        for ck in gen(run, E):
            fails += ck.failed
    Ecv = engine_cv(run)
    for ck in check_internal_cv(run, Ecv):
        fails += ck.failed
    for ck in check_bootcv(run, engine(run)):
        fails += ck.failed
    for ck in check_dual(run, engine(run)):
        fails += ck.failed
    for ck in check_dual_random(run, engine_cv(run)):
        fails += ck.failed
    finish_engine(E, run)
    # callee contract: the resample an evaluation is compared with is RDMs.subsample(descriptor, drawn groups) -- the contract
    # C09 generates for it (exactly the drawn groups with their multiplicity, every descriptor gathered alike) is discharged here too
    from contracts import C09
    from contracts.common import new_engine
    E9 = new_engine(run)
    for ck in C09.check_subsample(run, E9, pid='C04'):
        fails += ck.failed
    finish_engine(E9, run)
    # callee contracts: the ceilings stored next to the evaluations are boot_noise_ceiling / cv_noise_ceiling of the same resample
    # resp. folds -- their own leave-one-group-out dataflow (contracts generated by C07) is discharged here too
    from contracts import C07
    E7 = new_engine(run)
    for gen in (C07.check_boot, C07.check_cv):
        for ck in gen(run, E7, pid='C04'):
            fails += ck.failed
    finish_engine(E7, run)
    bds = []
    try:
        from contracts import C04_c
        bds = C04_c.tier_c(run, run.tier == 'thorough')
    except ImportError:
        run.notes.append('bounded tier (contracts/C04_c.py) not present')
    report_a_failures(run, fails, bds)


def replay(path):
    return replay_file(path)
