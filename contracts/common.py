"""Shared schemas / method models for repo classes used by several property contracts."""
import z3

from vf.pyvc.values import V, SV, Obj, SeqV, DictV, Undecided
from vf.pyvc.api import Eng
from vf.report import SRC


def descdict(length_attr):
    def mk(E, obj, name):
        d = E.app(f'attr.{name}', [obj], 'obj', cls='DescDict')
        d.fields['__len__'] = length_attr
        return d
    return mk


def install_rdms(E):
    """RDMs objects: opaque records; structural methods are uninterpreted functions returning RDMs.
    subset / subset_pattern depend on `value` only as a set (selection by membership: verified for
    bool_index under C10); subsample / subsample_pattern depend on the sequence."""
    E.schemas['RDMs'] = {
        'n_rdm': 'int', 'n_cond': 'int', 'dissimilarities': 'val',
        'rdm_descriptors': descdict('n_rdm'), 'pattern_descriptors': descdict('n_cond'),
        'descriptors': 'obj:DescDict', 'dissimilarity_measure': 'str',
    }

    def dd_getitem(E, d, key):
        return E.app('getitem', [d, key], tag='ndarray')
    E.methods[('DescDict', '__getitem__')] = dd_getitem

    def dd_keys(E, d):
        return E.app('keys', [d])
    E.methods[('DescDict', 'keys')] = dd_keys

    def rd_method(name, setmode):
        def m(E, self, *args, **kw):
            fv = E.find_method('RDMs', name)
            bound = E.bind_args(fv.node, list(args), dict(kw), self_val=self, module=fv.module)
            params = list(bound)
            modes = {k: 'set' for k, p in enumerate(params) if p == 'value'} if setmode else None
            out = E.app(f'RDMs.{name}', [bound[p] for p in params], 'obj', cls='RDMs', modes=modes)
            # callee contract used at call sites: the untouched side of the selection is the source's
            # (subsample / subset: discharged in C09 / C10 `...-are-the-sources`; *_pattern: bounded tier of C10)
            keep = ('pattern_descriptors', 'n_cond') if name in ('subset', 'subsample') else ('rdm_descriptors', 'n_rdm')
            for f in keep + ('descriptors', 'dissimilarity_measure'):
                try:
                    out.fields[f] = E.getattr(self, f)
                except Undecided:
                    pass
            E.used_contracts.add(f'RDMs.{name}: the other factor\'s descriptors, descriptors and measure are the source\'s')
            return out
        return m
    for nm, sm in (('subset_pattern', True), ('subset', True), ('subsample_pattern', False), ('subsample', False)):
        E.methods[('RDMs', nm)] = rd_method(nm, sm)
    E.method_ret[('RDMs', 'copy')] = 'RDMs'
    E.method_ret[(None, 'predict_rdm')] = 'RDMs'
    E.func_ret['rsatoolbox.util.inference_util.pool_rdm'] = 'RDMs'
    E.func_ret['rsatoolbox.util.pooling.pool_rdm'] = 'RDMs'
    E.func_ret['rsatoolbox.rdm.calc.calc_rdm'] = 'RDMs'


INLINE = {
    'rsatoolbox.util.rdm_utils.add_pattern_index',
    'rsatoolbox.util.inference_util.default_k_pattern',
    'rsatoolbox.util.inference_util.default_k_rdm',
    'rsatoolbox.util.data_utils._own',      # entry.copy() for array entries: executed with its body (value-equal copy)
}


def new_engine(run=None, timeout_ms=20000):
    E = Eng(SRC, run=run, timeout_ms=timeout_ms)
    install_rdms(E)
    E.inline = set(INLINE)
    if run is not None:
        run.__dict__.setdefault('_engines', []).append(E)       # every engine of a run reports its trusted base
    return E


def finish_engine(E, run):
    """record trusted base of an engine-A run in the evidence"""
    from vf.pyvc import lib
    engines = list(run.__dict__.get('_engines', []))
    if E not in engines:
        engines.append(E)
    used_lib, used_un, used_con, inlined = set(), set(), set(), set()
    for e in engines:
        used_lib |= e.used_lib
        used_un |= e.used_uninterp
        used_con |= e.used_contracts
    seen = run.__dict__.setdefault('_trusted_seen', set())
    for name in sorted(used_lib):
        t = 'assumed library contract: ' + lib.DOC.get(name, name)
        if t not in seen:
            seen.add(t)
            run.trust(t)
    for name in sorted(used_un):
        t = 'uninterpreted pure function (not verified here): ' + name
        if t not in seen:
            seen.add(t)
            run.trust(t)
    for name in sorted(used_con):
        t = 'callee contract used at call sites: ' + name
        if t not in seen:
            seen.add(t)
            run.trust(t)


def report_a_failures(run, fails, bounded=()):
    """Report refuted engine-A obligations.  If a bounded oracle found a concrete failing input for the same
    function, the obligation is reported with that input as its replay; otherwise with
    no-failing-input-found (replay file carries the obligation name and the solver output)."""
    for nm, label, detail in fails:
        fn = nm.split('/')[1].split('[')[0]
        hit = None
        for bd in bounded:
            for (ic, case, res, function, oname) in bd.failures:
                if run._match_known(f'{bd.obligation}|{ic}') is not None:
                    continue        # inputs of a known finding are not evidence for a different obligation
                if function and (function == fn or (len(function) > 6 and function in fn)):
                    hit = (case, res, oname)
                    break
            if hit:
                break
        if hit:
            run.violation(nm, 'all-inputs', dict(oracle=hit[2], case=hit[0], observed=str(hit[1])[:1500],
                                                 obligation=nm, solver=detail), found_input=True,
                          what=f'engine-A obligation refuted; concrete failing input from the bounded oracle: {str(hit[1])[:200]}')
        elif label == 'structure':
            # an obligation about the shape of the code (helper level): the code changed in a way the contract does not
            # follow.  Without a failing input from the bounded tier this is UNDECIDED (exit 2), never a violation.
            run.undecide(nm, 'structural (helper-level) obligation no longer holds and the bounded tier found no failing input: '
                             'contract drift or harmless refactor; property-level obligations and oracles decide')
        else:
            run.violation(nm, 'all-inputs', dict(obligation=nm, solver=detail), found_input=False,
                          what='engine-A obligation refuted; the bounded oracle of this function found no failing input')


def unique_inverse_model(E, col):
    """spec of util.data_utils.get_unique_inverse: (distinct values in order of first appearance, index of each
    entry's value in that list).  Verified against the real function by the bounded oracle K8 (exhaustive small)."""
    from vf.pyvc.core import ufunc, boxI
    ct = E.toV(col)
    n = ufunc('nunique', 1, 'int')(ct)
    E.fact(n >= 0)
    el = ufunc('first_appearance_elem', 2)
    values = SeqV(length=n, elem=lambda i: SV(el(ct, boxI(i)), 'val', tag='scalar'), kind='array',
                  term=ufunc('unique_in_order_of_first_appearance', 1)(ct))
    inverse = E.app('inverse_index_of_first_appearance', [col], tag='ndarray')
    return values, inverse


def check_unique_inverse(run, E, pid):
    """util.data_utils.get_unique_inverse(array) -> (values, inverse), for ALL 1-D sequences of hashable scalars:
    every entry is found again under its index (values[inverse[i]] == array[i], indices in range), the values are pairwise
    distinct, there are as many as distinct entries, and they stand in ORDER OF FIRST APPEARANCE (position of the first
    occurrence strictly increasing).  numpy contracts assumed: np.unique(return_index, return_inverse), argsort (lib.DOC).
    This discharges the contract that C01 / C11 / C14 contracts use for the function (`unique_inverse_model`)."""
    import z3
    from vf.pyvc.api import FuncCheck
    from vf.pyvc.core import ufunc, boxI
    from vf.pyvc.values import fresh_name
    ck = FuncCheck(E, run, pid, 'rsatoolbox.util.data_utils.get_unique_inverse', '')
    hold = {}

    def mk(E):
        a = E.sym_list('array', etag='scalar')
        a.kind = 'array'
        hold['a'] = a
        return [a], {}, [a.length >= 1]

    def post(ck, E, args, kw, p):
        a = hold['a']
        n = a.zlen()
        res = p.value
        ok = isinstance(res, tuple) and len(res) == 2 and all(isinstance(x, SeqV) for x in res)
        ck.ensure('post/returns-values-and-inverse', z3.BoolVal(bool(ok)), structure=True, note=repr(res)[:200])
        if not ok:
            return
        values, inverse = res
        m = values.zlen()
        at = E.toV(a)
        ck.ensure('post/one-inverse-entry-per-element', inverse.zlen() == n)
        ck.ensure('post/as-many-values-as-distinct-entries', m == ufunc('nunique', 1, 'int')(at))
        i = z3.Int(fresh_name('i'))
        inv_i = E.as_int(E.seq_elem(inverse, i))
        ck.ensure('post/every-entry-is-found-under-its-index',
                  z3.Implies(z3.And(i >= 0, i < n),
                             z3.And(inv_i >= 0, inv_i < m, E.veq(E.seq_elem(values, inv_i), E.seq_elem(a, i)))))
        x, y = z3.Int(fresh_name('a')), z3.Int(fresh_name('b'))
        vx, vy = E.seq_elem(values, x), E.seq_elem(values, y)
        ck.ensure('post/values-are-pairwise-distinct',
                  z3.Implies(z3.And(x >= 0, x < y, y < m), z3.Not(E.veq(vx, vy))))
        # order of first appearance: with first(v) = position of the first occurrence of v (np.unique's return_index)
        fi = ufunc('uniq_first', 2, 'int')
        ix = ufunc('uniq_idx', 2, 'int')
        fx, fy = fi(at, boxI(ix(at, E.toV(vx)))), fi(at, boxI(ix(at, E.toV(vy))))
        ck.ensure('post/values-in-order-of-first-appearance', z3.Implies(z3.And(x >= 0, x < y, y < m), fx < fy))
    ck.execute(mk, post=post, allow_raise=lambda *a: None)
    yield ck
    # get_unique_unsorted(array): the same list of values without the inverse
    ck2 = FuncCheck(E, run, pid, 'rsatoolbox.util.data_utils.get_unique_unsorted', '')

    def post2(ck, E, args, kw, p):
        a = hold['a']
        n = a.zlen()
        values = p.value
        ok = isinstance(values, SeqV)
        ck.ensure('post/returns-the-values', z3.BoolVal(bool(ok)), structure=True, note=repr(values)[:200])
        if not ok:
            return
        m = values.zlen()
        at = E.toV(a)
        ck.ensure('post/as-many-values-as-distinct-entries', m == ufunc('nunique', 1, 'int')(at))
        x, y = z3.Int(fresh_name('a')), z3.Int(fresh_name('b'))
        vx, vy = E.seq_elem(values, x), E.seq_elem(values, y)
        ck.ensure('post/values-are-pairwise-distinct', z3.Implies(z3.And(x >= 0, x < y, y < m), z3.Not(E.veq(vx, vy))))
        fi = ufunc('uniq_first', 2, 'int')
        ix = ufunc('uniq_idx', 2, 'int')
        fx, fy = fi(at, boxI(ix(at, E.toV(vx)))), fi(at, boxI(ix(at, E.toV(vy))))
        ck.ensure('post/values-in-order-of-first-appearance', z3.Implies(z3.And(x >= 0, x < y, y < m), fx < fy))
        ck.ensure('post/every-value-occurs-in-the-array',
                  z3.Implies(z3.And(x >= 0, x < m), z3.And(fx >= 0, fx < n, E.veq(E.seq_elem(a, fx), vx))))
    ck2.execute(mk, post=post2, allow_raise=lambda *a: None)
    yield ck2


def discharge_unique_inverse(run, pid):
    """own engine; -> failed obligations.  Called by every property whose contracts or oracles rely on the first-appearance
    grouping of labels (calc_rdm's condition averaging, dataset splits, noise estimation, simulation round trips, searchlights)."""
    E = new_engine(run)
    fails = []
    for ck in check_unique_inverse(run, E, pid):
        fails += ck.failed
    finish_engine(E, run)
    return fails


def install_dataset(E):
    def meas(E, obj, name):
        v = E.app('attr.measurements', [obj], tag='ndarray')
        n_obs = E.getattr(obj, 'n_obs')
        n_ch = E.getattr(obj, 'n_channel')
        v.shape = (n_obs.z, n_ch.z)
        return v
    E.schemas['Dataset'] = {
        'n_obs': 'int', 'n_channel': 'int', 'measurements': meas,
        'obs_descriptors': descdict('n_obs'), 'channel_descriptors': descdict('n_channel'),
        'descriptors': 'obj:DescDict',
    }
    from vf.pyvc.core import Contract
    E.contracts['rsatoolbox.util.data_utils.get_unique_inverse'] = Contract(
        'rsatoolbox.util.data_utils.get_unique_inverse',
        define=lambda E, array: unique_inverse_model(E, array),
        doc='values in order of first appearance + inverse index (bounded oracle K8)')

    def dd_contains(E, d, key):
        return True
    E.methods[('DescDict', '__contains__')] = dd_contains
