"""Shared schemas / method models for repo classes used by several property contracts."""
import z3

from vf.pyvc.values import V, SV, Obj, SeqV, DictV, Undecided
from vf.pyvc.api import Eng
from vf.report import SRC


def descdict(length_attr):
    def mk(E, obj, name):
        d = E.app(f'attr.{name}', [obj], 'obj', cls='DescDict')
        d.fields['__len__'] = length_attr
        return d
    return mk


def install_rdms(E):
    """RDMs objects: opaque records; structural methods are uninterpreted functions returning RDMs.
    subset / subset_pattern depend on `value` only as a set (selection by membership: verified for
    bool_index under C10); subsample / subsample_pattern depend on the sequence."""
    E.schemas['RDMs'] = {
        'n_rdm': 'int', 'n_cond': 'int', 'dissimilarities': 'val',
        'rdm_descriptors': descdict('n_rdm'), 'pattern_descriptors': descdict('n_cond'),
        'descriptors': 'obj:DescDict', 'dissimilarity_measure': 'str',
    }

    def dd_getitem(E, d, key):
        return E.app('getitem', [d, key], tag='ndarray')
    E.methods[('DescDict', '__getitem__')] = dd_getitem

    def dd_keys(E, d):
        return E.app('keys', [d])
    E.methods[('DescDict', 'keys')] = dd_keys

    def rd_method(name, setmode):
        def m(E, self, *args, **kw):
            fv = E.find_method('RDMs', name)
            bound = E.bind_args(fv.node, list(args), dict(kw), self_val=self, module=fv.module)
            params = list(bound)
            modes = {k: 'set' for k, p in enumerate(params) if p == 'value'} if setmode else None
            out = E.app(f'RDMs.{name}', [bound[p] for p in params], 'obj', cls='RDMs', modes=modes)
            # callee contract used at call sites: the untouched side of the selection is the source's
            # (subsample / subset: discharged in C09 / C10 `...-are-the-sources`; *_pattern: bounded tier of C10)
            keep = ('pattern_descriptors', 'n_cond') if name in ('subset', 'subsample') else ('rdm_descriptors', 'n_rdm')
            for f in keep + ('descriptors', 'dissimilarity_measure'):
                try:
                    out.fields[f] = E.getattr(self, f)
                except Undecided:
                    pass
            E.used_contracts.add(f'RDMs.{name}: the other factor\'s descriptors, descriptors and measure are the source\'s')
            return out
        return m
    for nm, sm in (('subset_pattern', True), ('subset', True), ('subsample_pattern', False), ('subsample', False)):
        E.methods[('RDMs', nm)] = rd_method(nm, sm)
    E.method_ret[('RDMs', 'copy')] = 'RDMs'
    E.method_ret[(None, 'predict_rdm')] = 'RDMs'
    E.func_ret['rsatoolbox.util.inference_util.pool_rdm'] = 'RDMs'
    E.func_ret['rsatoolbox.util.pooling.pool_rdm'] = 'RDMs'
    E.func_ret['rsatoolbox.rdm.calc.calc_rdm'] = 'RDMs'


INLINE = {
    'rsatoolbox.util.rdm_utils.add_pattern_index',
    'rsatoolbox.util.inference_util.default_k_pattern',
    'rsatoolbox.util.inference_util.default_k_rdm',
    'rsatoolbox.util.data_utils._own',      # entry.copy() for array entries: executed with its body (value-equal copy)
}


def new_engine(run=None, timeout_ms=20000):
    E = Eng(SRC, run=run, timeout_ms=timeout_ms)
    install_rdms(E)
    E.inline = set(INLINE)
    if run is not None:
        run.__dict__.setdefault('_engines', []).append(E)       # every engine of a run reports its trusted base
    return E


def finish_engine(E, run):
    """record trusted base of an engine-A run in the evidence"""
    from vf.pyvc import lib
    engines = list(run.__dict__.get('_engines', []))
    if E not in engines:
        engines.append(E)
    used_lib, used_un, used_con, inlined = set(), set(), set(), set()
    for e in engines:
        used_lib |= e.used_lib
        used_un |= e.used_uninterp
        used_con |= e.used_contracts
    seen = run.__dict__.setdefault('_trusted_seen', set())
    for name in sorted(used_lib):
        t = 'assumed library contract: ' + lib.DOC.get(name, name)
        if t not in seen:
            seen.add(t)
            run.trust(t)
    for name in sorted(used_un):
        t = 'uninterpreted pure function (not verified here): ' + name
        if t not in seen:
            seen.add(t)
            run.trust(t)
    for name in sorted(used_con):
        t = 'callee contract used at call sites: ' + name
        if t not in seen:
            seen.add(t)
            run.trust(t)


def report_a_failures(run, fails, bounded=()):
    """Report refuted engine-A obligations.  If a bounded oracle found a concrete failing input for the same
    function, the obligation is reported with that input as its replay; otherwise with
    no-failing-input-found (replay file carries the obligation name and the solver output)."""
    for nm, label, detail in fails:
        fn = nm.split('/')[1].split('[')[0]
        hit = None
        for bd in bounded:
            for (ic, case, res, function, oname) in bd.failures:
                if run._match_known(f'{bd.obligation}|{ic}') is not None:
                    continue        # inputs of a known finding are not evidence for a different obligation
                if function and (function == fn or (len(function) > 6 and function in fn)):
                    hit = (case, res, oname)
                    break
            if hit:
                break
        if hit:
            run.violation(nm, 'all-inputs', dict(oracle=hit[2], case=hit[0], observed=str(hit[1])[:1500],
                                                 obligation=nm, solver=detail), found_input=True,
                          what=f'engine-A obligation refuted; concrete failing input from the bounded oracle: {str(hit[1])[:200]}')
        elif label == 'structure':
            # an obligation about the shape of the code (helper level): the code changed in a way the contract does not
            # follow.  Without a failing input from the bounded tier this is UNDECIDED (exit 2), never a violation.
            run.undecide(nm, 'structural (helper-level) obligation no longer holds and the bounded tier found no failing input: '
                             'contract drift or harmless refactor; property-level obligations and oracles decide')
        else:
            run.violation(nm, 'all-inputs', dict(obligation=nm, solver=detail), found_input=False,
                          what='engine-A obligation refuted; the bounded oracle of this function found no failing input')


def unique_inverse_model(E, col):
    """spec of util.data_utils.get_unique_inverse: (distinct values in order of first appearance, index of each
    entry's value in that list).  Verified against the real function by the bounded oracle K8 (exhaustive small)."""
    from vf.pyvc.core import ufunc, boxI
    ct = E.toV(col)
    n = ufunc('nunique', 1, 'int')(ct)
    E.fact(n >= 0)
    el = ufunc('first_appearance_elem', 2)
    values = SeqV(length=n, elem=lambda i: SV(el(ct, boxI(i)), 'val', tag='scalar'), kind='array',
                  term=ufunc('unique_in_order_of_first_appearance', 1)(ct))
    inverse = E.app('inverse_index_of_first_appearance', [col], tag='ndarray')
    return values, inverse


def install_dataset(E):
    def meas(E, obj, name):
        v = E.app('attr.measurements', [obj], tag='ndarray')
        n_obs = E.getattr(obj, 'n_obs')
        n_ch = E.getattr(obj, 'n_channel')
        v.shape = (n_obs.z, n_ch.z)
        return v
    E.schemas['Dataset'] = {
        'n_obs': 'int', 'n_channel': 'int', 'measurements': meas,
        'obs_descriptors': descdict('n_obs'), 'channel_descriptors': descdict('n_channel'),
        'descriptors': 'obj:DescDict',
    }
    from vf.pyvc.core import Contract
    E.contracts['rsatoolbox.util.data_utils.get_unique_inverse'] = Contract(
        'rsatoolbox.util.data_utils.get_unique_inverse',
        define=lambda E, array: unique_inverse_model(E, array),
        doc='values in order of first appearance + inverse index (bounded oracle K8)')

    def dd_contains(E, d, key):
        return True
    E.methods[('DescDict', '__contains__')] = dd_contains
