"""C03 -- bounded run-time tier (tier C): RDM comparison measures equal their definitions for every pair of RDMs.

Real functions under test: `rsatoolbox.rdm.compare(rdm1, rdm2, method, sigma_k)` and the `rsatoolbox.rdm.compare.compare_*`
functions it dispatches to.  Every expected value is computed here from the property statement by the most literal
algorithm (explicit loops over entries / over pairs of entries / over tie-breakings, `numpy.linalg.solve`,
`scipy.linalg.sqrtm`); no repo code is used for an expected value (only the `RDMs(...)` constructor, to build inputs).

Spec side
  RDM vector      upper triangle in row-major pair order (0,1),(0,2),...,(1,2),...; permuting the conditions by `perm` gives the
                  RDM with entry d[perm[a], perm[b]] at (a, b).
  cosine          sum x_k y_k / sqrt(sum x_k^2 sum y_k^2);  Pearson = cosine of the vectors minus their means
  Spearman        Pearson of the mid-ranks  (#smaller + (#equal + 1)/2)
  Kendall         by counting over all pairs of entries p<q: concordant C, discordant D, tied in x, tied in y;
                  tau-b = (C-D)/sqrt((N-tied_x)(N-tied_y)),  tau-a = (C-D)/N,  N = n(n-1)/2
  rho-a           the mean of the (tie-free) Spearman correlation over ALL ways of breaking the ties of x and of y
                  (enumerated; for seeded vectors with more than 2e6 combinations the mean rank of every entry is
                  enumerated per vector instead, which is the same number because the two tie-breakings are independent
                  and the tie-free Spearman is bilinear in the centred ranks; beyond 2e5 tie-breakings of ONE vector the mean
                  rank of an entry is the mean of the ranks its tie group occupies)
  whitened        r1' V^-1 r2 / sqrt(r1' V^-1 r1 * r2' V^-1 r2),  V[(i,j),(k,l)] = (S_ik - S_il - S_jk + S_jl)^2, i.e. the
                  element-wise square of the covariance of the pairwise contrasts of patterns with covariance S; S = identity
                  (sigma_k omitted), diag(sigma_k) (variance vector) or sigma_k (matrix); for 'corr_cov' r1, r2 are the
                  vectors minus their means
  Bures           K = -1/2 H D H (H the centring matrix, D the square RDM); fidelity F = tr sqrtm(sqrtm(K1) K2 sqrtm(K1));
                  similarity F / sqrt(tr K1 tr K2); squared metric tr K1 + tr K2 - 2F

Oracles (clause of the statement -> oracle)
  C03/definition     "(i,j) entry is the chosen measure between the i-th RDM of the first and the j-th of the second stack:
                     cosine, Pearson, Spearman, Kendall tau-b and tau-a, rho-a": every entry of compare(A, B, m) and of the
                     direct compare_* call against the per-pair definition, for stacks of different sizes with distinct
                     rows (so a transposed / mis-paired result is seen); result shape; default method is cosine.
  C03/degenerate-row the same clause for stacks that also contain an all-zero / constant RDM: the entries of all pairs whose
                     definition is not 0/0 are still the measure of THAT pair (placement must not depend on the other rows).
  C03/rank-exhaustive the rank measures "exact concordance counts with ties" / "expected Spearman under random
                     tie-breaking": one fixed weak order a against the stack of ALL weak orders b of the same length.
  C03/whitened       "whitened cosine/correlation ... with V derived from the pattern covariance whether that is omitted,
                     given as a variance vector or as a matrix": against the literal V.
  C03/sigma-forms    the same clause, observed as agreement between the forms: omitted == identity matrix == constant
                     vector; variance vector == diag(vector) matrix.
  C03/bures          "normalised Bures similarity / squared Bures metric of the double-centred kernels" via sqrtm on
                     Euclidean-embeddable RDMs (incl. rank-deficient embeddings).
  C03/symmetry       "symmetric in its two arguments": compare(B, A, m) == compare(A, B, m).T, and compare(A, A, m) symmetric.
  C03/self           "equals 1 (distance 0) for an RDM with itself": diagonal of compare(A, A, m).
  C03/range          "lies in [-1,1]" (all similarities; Bures similarity additionally >= 0, the metric >= 0).
  C03/permutation    "unchanged when the conditions of both RDMs are permuted together" (sigma_k permuted along).
  C03/input-forms    "plain arrays and RDMs objects give the same answer": RDMs x RDMs, RDMs x ndarray, ndarray x RDMs,
                     1-D ndarray for a single RDM, non-contiguous views, integer-valued ndarrays / RDMs.
  C03/sequence       calling one measure does not change the result of a later measure on the same inputs: measure m1 is
                     called on (A, B[, sigma_k]) and then EVERY measure on the same objects is compared with the
                     definition evaluated on pristine copies.
  C03/dispatch       method name -> function ('kendall' == 'tau-b'), sigma_k forwarded to the whitened measures, unknown
                     names raise ValueError.

Dimension sweeps (tools/SWEEP_BRIEF.md; same clauses, inputs varied along further dimensions; domains named '...[...]', C03/scale,
C03/purity, C03/fresh-interpreter)
  sizes             definition / whitened / Bures oracles on 12 (thorough: 16, 20) conditions and stacks of up to 7 RDMs.
  repeated RDMs     stacks in which an RDM occurs several times and in another order (case keys rows1 / rows2).
  units  C03/scale  every measure is by its definition unchanged when either RDM is multiplied by a positive number (squared Bures
                    metric: multiplied by c when both are), the whitened ones also when sigma_k is: stacks times 1e-26 .. 1e12,
                    sigma_k times 1e-12 .. 1e12, against the definition on the unscaled stacks; the structural oracles (symmetry, self,
                    range, permutation) on stacks in such units (case keys scale1 / scale2 / sigma_scale; the metric is judged in the
                    units of the RDMs).
  typed data        input-forms oracle with uint8 / int8 / int16 / int32 stacks over the whole range of the type, float32 (multiples
                    of 1/4; tolerance 1e-5), bool (0/1 RDMs), stacks of two different dtypes, sigma_k as int64 / uint8 vector, int64
                    matrix, float32 matrix; all pairs of weak orders of 3 / 4 entries as uint8 / int16 / float32 levels.  Expected: the
                    definition on the same values as float64.
  labels            RDMs objects whose str rdm / pattern descriptors sort in the reverse of the stack order; RDMs objects built from
                    square matrices (forms of the input-forms oracle).
  call sequences    C03/purity: inputs (arrays, RDMs objects, sigma_k) bitwise unchanged; the identical call again is bitwise equal;
                    other stacks of the same shape give their own measures; a result held by the caller is not changed by later calls
                    and overwriting it does not change later results.
  environment       C03/fresh-interpreter: new interpreters with other PYTHONHASHSEEDs give the definition's values (and this
                    process's numbers to 1e-12).
  not applicable    competitor sets (no optimality claim), files / dict order, remainders.  Not demanded: RDM stacks or sigma_k as
                    Python lists / tuples (the statement speaks of arrays and RDMs objects; compare raises AttributeError for them).

Interpretation notes (where the statement is silent or over-general, the oracle does NOT demand anything)
  * a measure whose definition is 0/0 (zero vector for cosine, constant vector for the correlations, one entry for the
    Kendall measures) is not checked; such rows are not generated except in the exhaustive rank domain, where the
    undefined entries are masked.
  * "equals 1 for an RDM with itself" is only demanded of tau-a and rho-a for RDMs without ties: by their own definition
    (the other clause of the statement) tau-a(x,x) = 1 - tied/N < 1 and rho-a(x,x) < 1 when x has ties.
  * a given sigma_k is handled by a conjugate-gradient solve (default relative tolerance 1e-5; matrix sigma_k always, vector
    sigma_k since /repo 3bf72402): tolerance 2e-4 whenever sigma_k is given, 1e-9 everywhere else (1e-6 for Bures: square
    roots of eigenvalues that are zero up to rounding).  The sigma_k-vector defect is 3e-2..1e-1, far above that.

NOT covered by this tier
  * "for all": bounded domains only (see the `domain` strings).
  * 'neg_riem_dist' (not named by the statement); RDMs with NaN entries (C13); sigma_k that is not SPD / not positive.
  * pairs of weak orders of 6 entries whose first member is not sorted are covered only through seeded samples (every such
    pair is a joint permutation of the ENTRIES of a pair that is enumerated; 4683^2 calls of scipy's kendalltau do not
    fit the time budget); in quick mode the 6-entry domain subsamples the second weak order (strides in the domain string),
    only thorough mode enumerates it completely. Pairs of weak orders of <= 4 entries (quick) / <= 5 entries (thorough)
    are complete.
  * float32 inputs beyond a tolerance of 1e-5 on exactly representable values (results are float32 for some measures; the
    statement does not fix a precision); float16.

Findings (own input_class each, see C03_findings.md):
  sigma_k-vector (whitened / sigma-forms; present up to /repo 479ab603, repaired by /repo 3bf72402),
  degenerate-row-in-stack (degenerate-row; open), int-dtype,cosine (input-forms; open).
  PENDING TRIAGE (registrations behind `if False:` in the domain C03/input-forms[typed]):
  uint-dtype,bures  compare(uint8 / uint16 stacks, 'bures' | 'bures_metric') silently returns wrong numbers (`-vector / 2` wraps around
                    for unsigned integers);  bool-dtype,bures  the same call with bool (0/1 categorical) RDMs raises TypeError.
"""
import functools
import itertools
import json
import math
import os
import warnings

import numpy as np

from vf.rt.harness import Bounded, close, oracle

SIMILARITIES = ('cosine', 'corr', 'spearman', 'kendall', 'tau-b', 'tau-a', 'rho-a', 'cosine_cov', 'corr_cov', 'bures')
PLAIN = ('cosine', 'corr', 'spearman', 'kendall', 'tau-b', 'tau-a', 'rho-a')
RANK = ('spearman', 'kendall', 'tau-a', 'rho-a')
WHITENED = ('cosine_cov', 'corr_cov')
BURES = ('bures', 'bures_metric')
FUNC = {'cosine': 'compare_cosine', 'corr': 'compare_correlation', 'spearman': 'compare_spearman',
        'kendall': 'compare_kendall_tau', 'tau-b': 'compare_kendall_tau', 'tau-a': 'compare_kendall_tau_a',
        'rho-a': 'compare_rho_a', 'cosine_cov': 'compare_cosine_cov_weighted', 'corr_cov': 'compare_correlation_cov_weighted',
        'bures': 'compare_bures_similarity', 'bures_metric': 'compare_bures_metric'}
TOL = 1e-9
TOL_CG = 2e-4
TOL_BURES = 1e-6


# =====================================================================================================================
# input construction (deterministic from the JSON case)
# =====================================================================================================================
def _pairs(n_cond):
    return [(i, j) for i in range(n_cond) for j in range(i + 1, n_cond)]


def _vec_to_mat(v, n_cond):
    m = np.zeros((n_cond, n_cond))
    for k, (i, j) in enumerate(_pairs(n_cond)):
        m[i, j] = v[k]
        m[j, i] = v[k]
    return m


def _permute_stack(stack, perm):
    """RDM vectors after relabelling the conditions: new condition a is old condition perm[a]"""
    n_cond = len(perm)
    out = []
    for v in stack:
        m = _vec_to_mat(v, n_cond)
        out.append([m[perm[a], perm[b]] for a, b in _pairs(n_cond)])
    return np.array(out, dtype=float)


def _row(rs, kind, n_cond):
    nd = n_cond * (n_cond - 1) // 2
    if kind == 'real':          # arbitrary reals, negative entries
        return rs.randn(nd)
    if kind == 'positive':
        return rs.rand(nd) + 0.1
    if kind == 'ties':          # few levels, negative entries, many ties
        return rs.randint(-2, 3, nd).astype(float)
    if kind == 'fewties':       # a couple of tied pairs among otherwise distinct values
        return np.round(rs.randn(nd) * 2.0) / 2.0 if nd <= 10 else np.round(rs.randn(nd) * 6.0) / 4.0
    if kind == 'binary':        # categorical model RDM
        return rs.randint(0, 2, nd).astype(float)
    if kind in ('euclid', 'euclid-lowrank'):
        n_ch = max(1, n_cond // 2) if kind == 'euclid-lowrank' else n_cond + 1
        x = rs.randn(n_cond, n_ch) * (0.5 + rs.rand())
        return np.array([float(np.sum((x[i] - x[j]) ** 2)) for i, j in _pairs(n_cond)])
    # ---- integer-valued / exactly float32-representable kinds for the typed-data sweeps --------------------------------
    if kind == 'u8':            # the whole range of uint8: products and sums overflow when computed in the input dtype
        return rs.randint(0, 256, nd).astype(float)
    if kind == 'i8':
        return rs.randint(-128, 128, nd).astype(float)
    if kind == 'i16':           # squares overflow int16 (and sums of squares int32 for i32)
        return rs.randint(-32000, 32001, nd).astype(float)
    if kind == 'i32':
        return rs.randint(-2 ** 31 + 1, 2 ** 31 - 1, nd).astype(float)
    if kind == 'quarter':       # multiples of 1/4, exactly representable in float32 (and float16)
        return rs.randint(-40, 41, nd) / 4.0
    if kind == 'euclid-int':    # squared distances of integer lattice points: Euclidean-embeddable AND integer (<= 4*16 = 64)
        x = rs.randint(-2, 3, (n_cond, 4))
        return np.array([float(np.sum((x[i] - x[j]) ** 2)) for i, j in _pairs(n_cond)])
    if kind == 'categorical':   # 0 within / 1 between the groups of a partition in >= 2 groups (embeddable: scaled one-hot points)
        g = rs.randint(0, 3, n_cond)
        g[0], g[-1] = 0, 1
        g = g[rs.permutation(n_cond)]
        return np.array([float(g[i] != g[j]) for i, j in _pairs(n_cond)])
    raise ValueError(kind)


def _stack(rs, kind, n_rdm, n_cond):
    """n_rdm distinct, non-degenerate (not constant, hence not zero) RDM vectors; for one dissimilarity: non-zero"""
    rows = []
    guard = 0
    while len(rows) < n_rdm:
        guard += 1
        v = _row(rs, kind if guard < 200 else 'real', n_cond)
        if len(v) == 1:
            if v[0] == 0:
                continue
        elif np.max(v) == np.min(v):
            continue
        if any(np.array_equal(v, r) for r in rows) and guard < 200:
            continue
        rows.append(v)
    return np.array(rows, dtype=float)


def _sigma(rs, skind, n_cond):
    """(argument handed to compare, the pattern covariance S it stands for)"""
    if skind == 'none':
        return None, np.eye(n_cond)
    if skind == 'eye':
        return np.eye(n_cond), np.eye(n_cond)
    if skind == 'vector-constant':
        c = 0.5 + 2 * rs.rand()
        return c * np.ones(n_cond), c * np.eye(n_cond)
    if skind == 'vector':
        v = 0.5 + 2.5 * rs.rand(n_cond)
        v[0], v[-1] = 0.5, 3.0      # never constant
        return v, np.diag(v)
    if skind == 'diag-matrix':
        v = 0.5 + 2.5 * rs.rand(n_cond)
        v[0], v[-1] = 0.5, 3.0
        return np.diag(v), np.diag(v)
    if skind == 'wishart':
        w = rs.randn(n_cond, n_cond + 2)
        s = w @ w.T / (n_cond + 2)
        return s, s.copy()
    if skind == 'ar1':
        idx = np.arange(n_cond)
        sd = np.linspace(0.6, 2.0, n_cond)
        s = 0.8 ** np.abs(idx[:, None] - idx[None, :]) * np.outer(sd, sd)
        return s, s.copy()
    if skind == 'vector-int':       # integer-valued variances (cast to an integer dtype by the oracle)
        v = rs.randint(1, 6, n_cond).astype(float)
        v[0], v[-1] = 1.0, 5.0
        return v, np.diag(v)
    if skind == 'matrix-int':       # integer-valued SPD matrix W W' + I
        w = rs.randint(-2, 3, (n_cond, n_cond + 2)).astype(float)
        s = w @ w.T + np.eye(n_cond)
        return s, s.copy()
    raise ValueError(skind)


def _permute_sigma(sig, perm):
    if sig is None:
        return None
    p = np.array(perm)
    if sig.ndim == 1:
        return sig[p].copy()
    return sig[np.ix_(p, p)].copy()


def _sigma_class(skind):
    return {'none': 'sigma_k-none', 'vector': 'sigma_k-vector', 'vector-constant': 'sigma_k-vector-constant',
            'vector-int': 'sigma_k-vector'}.get(skind, 'sigma_k-matrix')


def _has_ties(stack):
    return any(len(set(r.tolist())) < len(r) for r in np.atleast_2d(stack))


def _call(method, a, b, sigma=None, direct=False):
    """the real function; every warning silenced (0/0 in undefined cases is not what is being checked)"""
    import importlib
    cmp = importlib.import_module('rsatoolbox.rdm.compare')     # (rsatoolbox.rdm.compare the attribute is the function)
    compare = cmp.compare
    with warnings.catch_warnings(), np.errstate(all='ignore'):
        warnings.simplefilter('ignore')
        if direct:
            fn = getattr(cmp, FUNC[method])
            if method in WHITENED:
                return fn(a, b, sigma_k=sigma)
            return fn(a, b)
        if method in WHITENED:
            return compare(a, b, method=method, sigma_k=sigma)
        return compare(a, b, method=method)


# =====================================================================================================================
# specification: the literal definitions
# =====================================================================================================================
def _spec_cosine(x, y):
    sxy = sxx = syy = 0.0
    for k in range(len(x)):
        sxy += x[k] * y[k]
        sxx += x[k] * x[k]
        syy += y[k] * y[k]
    if sxx == 0 or syy == 0:
        return None
    return sxy / math.sqrt(sxx * syy)


def _centre(x):
    m = sum(float(t) for t in x) / len(x)
    return [float(t) - m for t in x]


def _spec_pearson(x, y):
    return _spec_cosine(_centre(x), _centre(y))


def _midranks(x):
    n = len(x)
    return [sum(1 for j in range(n) if x[j] < x[i]) + (sum(1 for j in range(n) if x[j] == x[i]) + 1) / 2.0
            for i in range(n)]


def _spec_spearman(x, y):
    return _spec_pearson(_midranks(x), _midranks(y))


def _concordance(x, y):
    con = dis = tx = ty = 0
    n = len(x)
    for p in range(n):
        for q in range(p + 1, n):
            dx = (x[p] > x[q]) - (x[p] < x[q])
            dy = (y[p] > y[q]) - (y[p] < y[q])
            if dx == 0:
                tx += 1
            if dy == 0:
                ty += 1
            if dx * dy > 0:
                con += 1
            elif dx * dy < 0:
                dis += 1
    return con, dis, tx, ty, n * (n - 1) // 2


def _spec_tau_b(x, y):
    con, dis, tx, ty, tot = _concordance(x, y)
    den = (tot - tx) * (tot - ty)
    if den == 0:
        return None
    return (con - dis) / math.sqrt(den)


def _spec_tau_a(x, y):
    con, dis, _, _, tot = _concordance(x, y)
    if tot == 0:
        return None
    return (con - dis) / tot


def _tie_breakings(x):
    """all rank vectors (1..n) obtained by breaking the ties of x in every possible way; K x n array"""
    x = list(x)
    n = len(x)
    levels = sorted(set(x))
    groups = [[i for i in range(n) if x[i] == lv] for lv in levels]
    out = []
    starts = []
    s = 1
    for g in groups:
        starts.append(s)
        s += len(g)
    for choice in itertools.product(*[itertools.permutations(range(len(g))) for g in groups]):
        r = [0] * n
        for g, st, perm in zip(groups, starts, choice):
            for pos, idx in zip(perm, g):
                r[idx] = st + pos
        out.append(r)
    return np.array(out, dtype=float)


def _n_breakings(x):
    k = 1
    for lv in set(list(x)):
        k *= math.factorial(sum(1 for t in x if t == lv))
    return k


def _mean_ranks(x):
    """mean rank of every entry under uniformly random tie-breaking when the tie-breakings are too many to enumerate:
    a group of g tied entries with s smaller entries occupies the ranks s+1..s+g, each entry each of them equally often"""
    n = len(x)
    out = []
    for i in range(n):
        smaller = sum(1 for j in range(n) if x[j] < x[i])
        g = sum(1 for j in range(n) if x[j] == x[i])
        occupied = [smaller + 1 + t for t in range(g)]
        out.append(sum(occupied) / float(g))
    return np.array(out)


def _pearson_rows(ra, rb):
    """matrix of Pearson correlations between every row of ra and every row of rb"""
    ac = ra - ra.mean(1, keepdims=True)
    bc = rb - rb.mean(1, keepdims=True)
    return (ac @ bc.T) / np.sqrt(np.sum(ac * ac, 1)[:, None] * np.sum(bc * bc, 1)[None, :])


def _spec_rho_a(x, y):
    if len(x) < 2:
        return None
    ka, kb = _n_breakings(x), _n_breakings(y)
    if ka * kb <= 2_000_000:
        return float(np.mean(_pearson_rows(_tie_breakings(x), _tie_breakings(y))))
    # independent tie-breakings + bilinearity: mean over pairs = value at the per-entry mean ranks (same scaling as tie-free)
    n = len(x)
    ea = _tie_breakings(x).mean(0) if ka <= 200_000 else _mean_ranks(x)
    eb = _tie_breakings(y).mean(0) if kb <= 200_000 else _mean_ranks(y)
    m = (n + 1) / 2.0
    return float(np.sum((ea - m) * (eb - m)) / ((n ** 3 - n) / 12.0))


def _spec_v(n_cond, s):
    prs = _pairs(n_cond)
    v = np.zeros((len(prs), len(prs)))
    for a, (i, j) in enumerate(prs):
        for b, (k, l) in enumerate(prs):
            xi = s[i][k] - s[i][l] - s[j][k] + s[j][l]     # cov of (pattern_i - pattern_j) and (pattern_k - pattern_l)
            v[a, b] = xi * xi
    return v


def _one_blas_thread(n):
    """numpy's threaded LAPACK needs about 1 s per solve for n >= 100 on this machine (thread start-up), one thread 0.3 ms: same numbers"""
    if n >= 80:
        try:
            from threadpoolctl import threadpool_limits
            return threadpool_limits(limits=1)
        except ImportError:
            pass
    import contextlib
    return contextlib.nullcontext()


def _spec_whitened(x, y, v, centre):
    x = np.array(_centre(x) if centre else x, dtype=float)
    y = np.array(_centre(y) if centre else y, dtype=float)
    with _one_blas_thread(len(x)):
        vx = np.linalg.solve(v, x)
        vy = np.linalg.solve(v, y)
    den = float(x @ vx) * float(y @ vy)
    if not den > 0:
        return None
    return float(x @ vy) / math.sqrt(den)


def _kernel(vec, n_cond):
    d = _vec_to_mat(vec, n_cond)
    h = np.eye(n_cond) - np.ones((n_cond, n_cond)) / n_cond
    return -0.5 * h @ d @ h


def _psd_sqrt(k):
    """symmetric positive semi-definite square root by the spectral theorem (eigenvalues clipped at 0).  scipy's sqrtm (Schur
    form) loses about half the digits on SINGULAR matrices, and double-centred kernels always are singular: on 0/1
    categorical RDMs its result was off by 3e-5, where the library returns 1/sqrt(5) to 1e-8."""
    k = (np.asarray(k, dtype=float) + np.asarray(k, dtype=float).T) / 2
    w, u = np.linalg.eigh(k)
    return (u * np.sqrt(np.clip(w, 0, None))) @ u.T


def _fidelity(k1, k2):
    s1 = _psd_sqrt(k1)
    inner = s1 @ k2 @ s1
    inner = (inner + inner.T) / 2
    return float(np.sum(np.sqrt(np.clip(np.linalg.eigvalsh(inner), 0, None))))


def _spec_bures(x, y, n_cond, metric):
    k1, k2 = _kernel(x, n_cond), _kernel(y, n_cond)
    f = _fidelity(k1, k2)
    if metric:
        return float(np.trace(k1) + np.trace(k2) - 2 * f)
    den = float(np.trace(k1) * np.trace(k2))
    if not den > 0:
        return None
    return f / math.sqrt(den)


def _n_cond_of(n_dist):
    n = 1
    while n * (n - 1) // 2 < n_dist:
        n += 1
    return n


def _spec_matrix(method, a, b, s=None):
    """expected compare(a, b, method) entry by entry; NaN marks 'undefined by the definition, not checked'"""
    a = np.atleast_2d(np.asarray(a, dtype=float))
    b = np.atleast_2d(np.asarray(b, dtype=float))
    n_cond = _n_cond_of(a.shape[1])
    v = None
    if method in WHITENED:
        v = _spec_v(n_cond, np.eye(n_cond) if s is None else s)
    out = np.full((len(a), len(b)), np.nan)
    for i, x in enumerate(a):
        for j, y in enumerate(b):
            x_, y_ = x.tolist(), y.tolist()
            if method == 'cosine':
                r = _spec_cosine(x_, y_)
            elif method == 'corr':
                r = _spec_pearson(x_, y_)
            elif method == 'spearman':
                r = _spec_spearman(x_, y_)
            elif method in ('kendall', 'tau-b'):
                r = _spec_tau_b(x_, y_)
            elif method == 'tau-a':
                r = _spec_tau_a(x_, y_)
            elif method == 'rho-a':
                r = _spec_rho_a(x_, y_)
            elif method in WHITENED:
                r = _spec_whitened(x_, y_, v, method == 'corr_cov')
            elif method in BURES:
                r = _spec_bures(x_, y_, n_cond, method == 'bures_metric')
            else:
                raise ValueError(method)
            out[i, j] = np.nan if r is None else r
    return out


def _tol(method, sigma):
    if method in BURES:
        return TOL_BURES
    if method in WHITENED and sigma is not None:      # a given sigma_k (vector or matrix) is solved with conjugate gradients
        return TOL_CG
    return TOL


def _diff(got, want, tol, what):
    """None if `got` is a float matrix equal to `want` wherever `want` is defined, else a description"""
    got = np.asarray(got)
    if got.shape != want.shape:
        return f'{what}: result has shape {got.shape}, expected {want.shape}'
    try:
        got = got.astype(float)
    except (TypeError, ValueError):
        return f'{what}: result is not numeric ({got.dtype})'
    mask = ~np.isnan(want)
    bad = mask & ~(np.abs(got - np.where(mask, want, 0.0)) <= tol * np.maximum(1.0, np.abs(np.where(mask, want, 0.0))))
    if bad.any():
        i, j = np.argwhere(bad)[0]
        extra = ''
        wt = want.T
        if wt.shape == got.shape and np.all(np.abs(got - wt)[~np.isnan(wt)] <= tol):
            extra = ' (the result equals the TRANSPOSED expectation: rows/columns paired the wrong way round)'
        return (f'{what}: entry ({i},{j}) is {got[i, j]!r}, definition gives {want[i, j]!r} '
                f'(|diff| {abs(got[i, j] - want[i, j]):.3g}, {int(bad.sum())} of {int(mask.sum())} entries differ){extra}')
    return None


def _build(case):
    rs = np.random.RandomState(case['seed'])
    n_cond = case['n_cond']
    a = _stack(rs, case['kind'], case['n1'], n_cond)
    b = _stack(rs, case.get('kind2', case['kind']), case['n2'], n_cond)
    sig, s = _sigma(rs, case.get('sigma', 'none'), n_cond)
    # ---- optional sweep keys (absent in the original cases) --------------------------------------------------------
    if 'rows1' in case:         # stacks with REPEATED RDMs / another order: row k of the stack is row rows[k] of the seeded one
        a = a[np.array(case['rows1'], dtype=int)]
    if 'rows2' in case:
        b = b[np.array(case['rows2'], dtype=int)]
    if 'scale1' in case:        # the same RDMs in other units
        a = a * case['scale1']
    if 'scale2' in case:
        b = b * case['scale2']
    if 'sigma_scale' in case and sig is not None:
        sig, s = sig * case['sigma_scale'], s * case['sigma_scale']
    return a, b, sig, s


# =====================================================================================================================
# oracles
# =====================================================================================================================
@oracle('C03/definition')
def orc_definition(case):
    a, b, _, _ = _build(case)
    m = case['method']
    want = _spec_matrix(m, a, b)
    for direct in (False, True):
        got = _call(m, a.copy(), b.copy(), direct=direct)
        r = _diff(got, want, TOL, f"{'compare_* function' if direct else 'compare'} method={m}")
        if r:
            return r
    if m == 'cosine':
        from rsatoolbox.rdm import compare
        r = _diff(compare(a.copy(), b.copy()), want, TOL, 'compare without a method (documented default: cosine)')
        if r:
            return r
    return None


@oracle('C03/degenerate-row')
def orc_degenerate_row(case):
    """a stack that also contains an all-zero / constant RDM: the entries of the OTHER pairs are still their measures"""
    a, b, sig, s = _build(case)
    m = case['method']
    nd = a.shape[1]
    deg = np.zeros(nd) if case['deg'] == 'zero' else np.full(nd, 2.0)
    for which, pos in case['where']:
        if which == 'a':
            a = np.insert(a, min(pos, len(a)), deg, axis=0)
        else:
            b = np.insert(b, min(pos, len(b)), deg, axis=0)
    want = _spec_matrix(m, a, b, s)          # NaN where the definition is 0/0: not checked
    got = _call(m, a.copy(), b.copy(), sig)
    r = _diff(got, want, _tol(m, sig), f'{m}: stacks A={a.tolist()} B={b.tolist()} (one RDM is {case["deg"]}; only the '
                                        f'well-defined pairs are compared)')
    return r


@functools.lru_cache(maxsize=None)
def _weak_orders(n):
    """all weak orders of n entries as dense rank tuples (level 0 = smallest), in lexicographic order"""
    return tuple(t for t in itertools.product(range(n), repeat=n) if set(t) == set(range(max(t) + 1)))


@functools.lru_cache(maxsize=None)
def _all_breakings(n):
    """the tie-breakings (K x n rank arrays) of every weak order of n entries, in the order of _weak_orders(n)"""
    return tuple(_tie_breakings(w) for w in _weak_orders(n))


def _values(ranks):
    """values realising a weak order: half-integers starting below zero (negative entries, non-integers)"""
    return (np.asarray(ranks, dtype=float) - 1.0) * 0.5


@oracle('C03/rank-exhaustive')
def orc_rank_exhaustive(case):
    n, m = case['n'], case['method']
    stride, offset = case.get('stride', 1), case.get('offset', 0)
    wo = _weak_orders(n)
    sel = list(range(offset, len(wo), stride))
    if case.get('skip_constant'):      # stack b without the all-tied weak order (Spearman is 0/0 there)
        sel = [k for k in sel if max(wo[k]) > 0]
    bb = np.array([wo[k] for k in sel])
    a_r = np.array(case['a'])
    a, b = _values(a_r)[None, :], _values(bb)
    a_in, b_in = a, b
    if case.get('dtype'):       # typed data: the dense levels 0..n-1 themselves in the given dtype (spec: on the float64 values)
        a, b = a_r[None, :].astype(float), bb.astype(float)
        a_in, b_in = a_r[None, :].astype(case['dtype']), bb.astype(case['dtype'])
    tot = n * (n - 1) // 2
    nb = len(bb)
    want = np.full((1, nb), np.nan)
    if m in ('kendall', 'tau-b', 'tau-a'):
        con = np.zeros(nb, dtype=int)
        dis = np.zeros(nb, dtype=int)
        tx = 0
        ty = np.zeros(nb, dtype=int)
        for p in range(n):
            for q in range(p + 1, n):
                da = int(np.sign(a[0, p] - a[0, q]))
                db = np.sign(b[:, p] - b[:, q]).astype(int)
                tx += (da == 0)
                ty += (db == 0)
                con += (da * db > 0)
                dis += (da * db < 0)
        if m == 'tau-a':
            want[0] = (con - dis) / tot
        else:
            den = (tot - tx) * (tot - ty)
            ok = den > 0
            want[0, ok] = (con - dis)[ok] / np.sqrt(den[ok])
    elif m == 'spearman':
        ra = np.array(_midranks(a[0].tolist()))
        rb = np.zeros_like(b)
        for i in range(n):
            rb[:, i] = np.sum(b < b[:, [i]], 1) + (np.sum(b == b[:, [i]], 1) + 1) / 2.0
        ac = ra - ra.mean()
        bc = rb - rb.mean(1, keepdims=True)
        den = np.sum(ac * ac) * np.sum(bc * bc, 1)
        ok = den > 0
        want[0, ok] = (bc @ ac)[ok] / np.sqrt(den[ok])
    elif m == 'rho-a':
        blocks = [_all_breakings(n)[k] for k in sel]
        lens = np.array([len(t) for t in blocks])
        starts = np.concatenate(([0], np.cumsum(lens)[:-1]))
        allb = np.vstack(blocks)
        ta = _tie_breakings(a_r.tolist())
        colsum = np.zeros(len(allb))
        for c0 in range(0, len(ta), 48):       # every tie-breaking of a x every tie-breaking of every b (in chunks of rows)
            colsum += _pearson_rows(ta[c0:c0 + 48], allb).sum(0)
        want[0] = np.add.reduceat(colsum, starts) / (lens * len(ta))
    else:
        raise ValueError(m)
    tol_ = 1e-5 if case.get('dtype') in ('float32', 'float16') else TOL
    got = _call(m, a_in, b_in)
    r = _diff(got, want, tol_, f'{m}{" [" + case["dtype"] + "]" if case.get("dtype") else ""}, a={a[0].tolist()} against all weak '
                              f'orders of {n} entries (column = index in the stack)')
    if r:
        bad = np.argwhere(~np.isnan(want[0]) & ~(np.abs(np.asarray(got, float)[0] - np.nan_to_num(want[0])) <= tol_))
        j = int(bad[0][0]) if len(bad) else 0
        return r + f'; first failing b={b[j].tolist()}'
    # the stack the other way round: column vector of the same numbers
    if case.get('swap'):
        got2 = _call(m, b_in, a_in)
        r = _diff(got2, want.T, tol_, f'{m}, all weak orders of {n} entries against a={a[0].tolist()}')
        if r:
            return r
    return None


@oracle('C03/whitened')
def orc_whitened(case):
    a, b, sig, s = _build(case)
    m = case['method']
    want = _spec_matrix(m, a, b, s)
    for direct in (False, True):
        got = _call(m, a.copy(), b.copy(), None if sig is None else sig.copy(), direct=direct)
        r = _diff(got, want, _tol(m, sig),
                  f"{'compare_* function' if direct else 'compare'} method={m} sigma_k={case.get('sigma', 'none')}"
                  f"{'' if sig is None or sig.ndim == 2 else ' ' + np.array2string(sig, precision=4)} vs r1' V^-1 r2 / sqrt(..)")
        if r:
            return r
    return None


@oracle('C03/sigma-forms')
def orc_sigma_forms(case):
    a, b, _, _ = _build(case)
    rs = np.random.RandomState(case['seed'] + 77)
    n_cond = case['n_cond']
    m = case['method']
    if case['form'] == 'identity':
        c = 0.5 + 2 * rs.rand()
        base = _call(m, a, b, None)
        for name, sg, tol in (('identity matrix', np.eye(n_cond), TOL_CG), ('vector of ones', np.ones(n_cond), TOL_CG),
                              (f'constant vector {c:.4f}', c * np.ones(n_cond), TOL_CG),
                              (f'{c:.4f} * identity matrix', c * np.eye(n_cond), TOL_CG)):
            r = _diff(_call(m, a, b, sg), np.asarray(base, float), tol, f'{m}: sigma_k = {name} vs sigma_k omitted')
            if r:
                return r
        return None
    v = 0.5 + 2.5 * rs.rand(n_cond)
    v[0], v[-1] = 0.5, 3.0
    with_matrix = np.asarray(_call(m, a, b, np.diag(v)), float)
    r = _diff(_call(m, a, b, v.copy()), with_matrix, TOL_CG,
              f'{m}: sigma_k = variance vector {np.array2string(v, precision=4)} vs sigma_k = np.diag(vector)')
    if r:
        return r
    # the whitened cosine / correlation do not depend on the SCALE of sigma_k (V scales by its square): the same unequal
    # variances in other units (1e-6 .. 1e-12, 1e6) must give the same value -- no absolute threshold may decide what is "constant"
    for sc in (1e-6, 1e-9, 1e-12, 1e6):
        r = _diff(_call(m, a, b, v * sc), with_matrix, TOL_CG,
                  f'{m}: sigma_k = {sc:g} * variance vector vs sigma_k = np.diag(vector) (scale of sigma_k must not matter)')
        if r:
            return r
    return None


@oracle('C03/bures')
def orc_bures(case):
    a, b, _, _ = _build(case)
    for m in BURES:
        want = _spec_matrix(m, a, b)
        for direct in (False, True):
            r = _diff(_call(m, a.copy(), b.copy(), direct=direct), want, TOL_BURES,
                      f"{'compare_* function' if direct else 'compare'} method={m} vs tr sqrtm(sqrtm(K1) K2 sqrtm(K1))")
            if r:
                return r
    return None


def _methods_for(case):
    return [case['method']] if 'method' in case else list(SIMILARITIES) + ['bures_metric']


@oracle('C03/symmetry')
def orc_symmetry(case):
    a, b, sig, _ = _build(case)
    m = case['method']
    tol = _tol(m, sig)
    ab = np.asarray(_call(m, a, b, sig), float)
    ba = np.asarray(_call(m, b, a, sig), float)
    if ab.shape != (len(a), len(b)) or ba.shape != (len(b), len(a)):
        return f'{m}: shapes {ab.shape} / {ba.shape} for stacks of {len(a)} and {len(b)} RDMs'
    if not close(ba.T, ab, tol):
        i, j = np.unravel_index(np.nanargmax(np.abs(ba.T - ab)), ab.shape)
        return f'{m}: compare(A,B)[{i},{j}] = {ab[i, j]!r} but compare(B,A)[{j},{i}] = {ba[j, i]!r}'
    aa = np.asarray(_call(m, a, a, sig), float)
    if not close(aa, aa.T, tol):
        i, j = np.unravel_index(np.nanargmax(np.abs(aa.T - aa)), aa.shape)
        return f'{m}: compare(A,A) is not symmetric: [{i},{j}] = {aa[i, j]!r}, [{j},{i}] = {aa[j, i]!r}'
    return None


@oracle('C03/self')
def orc_self(case):
    a, _, sig, _ = _build(case)
    m = case['method']
    if m in ('tau-a', 'rho-a') and _has_ties(a):
        return None     # by definition < 1 with ties (see module docstring)
    tol = _tol(m, sig)
    d = np.diag(np.asarray(_call(m, a, a, sig), float))
    want = 0.0 if m == 'bures_metric' else 1.0
    unit = float(case.get('scale1', 1.0)) if m == 'bures_metric' else 1.0      # the metric is in the units of the RDMs
    d = d / unit
    if not np.all(np.abs(d - want) <= tol):
        k = int(np.argmax(np.abs(d - want)))
        return f'{m}: RDM {k} ({a[k].tolist()}) compared with itself gives {d[k]!r}, expected {want}'
    # also as a single RDM against itself (1x1 result)
    one = np.asarray(_call(m, a[:1], a[:1], sig), float) / unit
    if one.shape != (1, 1) or not abs(one[0, 0] - want) <= tol:
        return f'{m}: single RDM with itself gives {one.tolist()}, expected [[{want}]]'
    return None


@oracle('C03/range')
def orc_range(case):
    a, b, sig, _ = _build(case)
    m = case['method']
    tol = _tol(m, sig)
    unit = max(float(case.get('scale1', 1.0)), float(case.get('scale2', 1.0))) if m == 'bures_metric' else 1.0   # units of the RDMs
    for x, y, nm in ((a, b, 'compare(A,B)'), (a, a, 'compare(A,A)')):
        r = np.asarray(_call(m, x, y, sig), float) / unit
        if np.isnan(r).any():
            return f'{m}: {nm} contains NaN for non-degenerate RDMs: {r.tolist()}'
        lo, hi = (0.0, np.inf) if m == 'bures_metric' else ((0.0, 1.0) if m == 'bures' else (-1.0, 1.0))
        if r.min() < lo - tol or r.max() > hi + tol:
            return f'{m}: {nm} has values outside [{lo},{hi}]: min {r.min()!r}, max {r.max()!r}'
    return None


@oracle('C03/permutation')
def orc_permutation(case):
    a, b, sig, _ = _build(case)
    m = case['method']
    perm = case['perm']
    tol = _tol(m, sig)
    base = np.asarray(_call(m, a, b, sig), float)
    got = np.asarray(_call(m, _permute_stack(a, perm), _permute_stack(b, perm), _permute_sigma(sig, perm)), float)
    if not close(got, base, tol):
        i, j = np.unravel_index(np.nanargmax(np.abs(got - base)), base.shape)
        return (f'{m} sigma_k={case.get("sigma", "none")}: after permuting the conditions of both stacks by {perm} entry '
                f'({i},{j}) is {got[i, j]!r}, before {base[i, j]!r}')
    return None


@oracle('C03/input-forms')
def orc_input_forms(case):
    from rsatoolbox.rdm import RDMs
    a, b, sig, s = _build(case)
    m = case['method']
    tol = _tol(m, sig)
    dtype = case.get('dtype', 'float64')
    dtype2 = case.get('dtype2', dtype)          # mixed stacks: the second one in another dtype
    if dtype != 'float64':
        a = a.astype(dtype)
    if dtype2 != 'float64':
        b = b.astype(dtype2)
    if 'sigma_dtype' in case and sig is not None:       # typed sigma_k; it stands for exactly the values it holds
        sig = sig.astype(case['sigma_dtype'])
        s = np.diag(sig.astype(float)) if sig.ndim == 1 else sig.astype(float)
    if 'float32' in (dtype, dtype2) or 'float16' in (dtype, dtype2):
        tol = max(tol, 1e-5)    # the statement fixes no precision: float32 data only to 1e-5 (values are exact in float32)
    if dtype2 != dtype:
        dtype = f'{dtype} x {dtype2}'
    if 'sigma_dtype' in case:
        dtype += f', sigma_k {case["sigma_dtype"]}'
    if m in BURES:
        want = _spec_matrix(m, a, b)
    elif m in WHITENED:
        want = _spec_matrix(m, a, b, s)
    else:
        want = _spec_matrix(m, a, b)

    def objs(x):
        return RDMs(x.copy(), dissimilarity_measure='test', rdm_descriptors={'i': list(range(len(x)))})

    def objs_labelled(x):
        # str labels whose sorted order is the REVERSE of the stack / condition order: the (i,j) entry follows the position
        # in the stack, and the conditions are paired by position, whatever the descriptors say
        n_cond_ = _n_cond_of(x.shape[1])
        return RDMs(x.copy(), dissimilarity_measure='test',
                    rdm_descriptors={'name': ['m%02d' % (len(x) - k) for k in range(len(x))], 'i': [7] * len(x)},
                    pattern_descriptors={'cond': ['c%02d' % (n_cond_ - k) for k in range(n_cond_)],
                                         'index': list(range(n_cond_))[::-1]})

    def objs_square(x):
        # the same RDMs handed to the RDMs constructor as square matrices
        n_cond_ = _n_cond_of(x.shape[1])
        sq = np.zeros((len(x), n_cond_, n_cond_), dtype=x.dtype)
        for r_ in range(len(x)):
            for k_, (i_, j_) in enumerate(_pairs(n_cond_)):
                sq[r_, i_, j_] = sq[r_, j_, i_] = x[r_, k_]
        return RDMs(sq)

    def view(x):
        wide = np.zeros((x.shape[0], 2 * x.shape[1]), dtype=x.dtype)
        wide[:, ::2] = x
        return wide[:, ::2]            # non-contiguous view with the same values

    def fort(x):
        return np.asfortranarray(x.copy())

    forms = [('ndarray x ndarray', a.copy(), b.copy()), ('RDMs x RDMs', objs(a), objs(b)), ('RDMs x ndarray', objs(a), b.copy()),
             ('ndarray x RDMs', a.copy(), objs(b)), ('strided view x view', view(a), view(b)),
             ('Fortran-ordered x RDMs', fort(a), objs(b)),
             ('RDMs with str descriptors in reverse order x RDMs', objs_labelled(a), objs(b)),
             ('ndarray x RDMs with str descriptors in reverse order', a.copy(), objs_labelled(b)),
             ('RDMs built from square matrices x ndarray', objs_square(a), b.copy())]
    for nm, x, y in forms:
        r = _diff(_call(m, x, y, sig), want, tol, f'{m} [{dtype}] {nm}')
        if r:
            return r
    # a single RDM as a 1-D array is the 1 x n stack
    for i in range(len(a)):
        r = _diff(_call(m, a[i].copy(), objs(b), sig), want[i:i + 1], tol, f'{m} [{dtype}] 1-D ndarray (RDM {i}) x RDMs')
        if r:
            return r
    for j in range(len(b)):
        r = _diff(_call(m, objs(a), b[j].copy(), sig), want[:, j:j + 1], tol, f'{m} [{dtype}] RDMs x 1-D ndarray (RDM {j})')
        if r:
            return r
    r = _diff(_call(m, a[0].copy(), b[0].copy(), sig), want[:1, :1], tol, f'{m} [{dtype}] 1-D x 1-D')
    return r


@oracle('C03/sequence')
def orc_sequence(case):
    from rsatoolbox.rdm import RDMs
    a0, b0, sig0, s = _build(case)
    first = case['first']
    form = case['form']
    later = [m for m in list(SIMILARITIES) + ['bures_metric'] if not (m in BURES and not case['kind'].startswith('euclid'))]
    want = {m: _spec_matrix(m, a0, b0, s if m in WHITENED else None) for m in later}
    if form == 'rdms':
        a, b = RDMs(a0.copy()), RDMs(b0.copy())
    elif form == 'array':
        a, b = a0.copy(), b0.copy()
    elif form == 'array-1d':
        a, b = a0[0].copy(), b0.copy()
        want = {m: w[:1] for m, w in want.items()}
    elif form == 'mixed':
        a, b = a0.copy(), RDMs(b0.copy())
    elif form == 'same-object':      # the same stack on both sides
        a = RDMs(a0.copy())
        b = a
        want = {m: _spec_matrix(m, a0, a0, s if m in WHITENED else None) for m in later}
    else:
        raise ValueError(form)
    sig = None if sig0 is None else sig0.copy()
    history = []
    for rep in range(case.get('repeat', 1)):
        _call(first, a, b, sig)
        history.append(first)
    for m in later:
        got = _call(m, a, b, sig)
        r = _diff(got, want[m], _tol(m, sig), f'[{form}] {m} after calling {history} on the same inputs')
        if r:
            return r
        history.append(m)
    return None


@oracle('C03/scale')
def orc_scale(case):
    """the same RDMs in other units: every measure named by the statement is, by its definition, unchanged when either RDM is
    multiplied by a positive number (the squared Bures metric: multiplied by c when BOTH are multiplied by c), and the
    whitened measures are unchanged when sigma_k is multiplied by a positive number (V is multiplied by its square).
    Expected value: the definition evaluated on the UNSCALED stacks."""
    base = {k: v for k, v in case.items() if k not in ('scale1', 'scale2', 'sigma_scale')}
    a, b, sig, s = _build(base)
    m = case['method']
    sa, sb, sc = case.get('scale1', 1.0), case.get('scale2', 1.0), case.get('sigma_scale', 1.0)
    want = _spec_matrix(m, a, b, s if m in WHITENED else None)
    sig_in = None if sig is None else sig * sc
    for direct in (False, True):
        got = _call(m, a * sa, b * sb, sig_in, direct=direct)
        sg_txt = '' if sig is None else ', sigma_k=%s in units of %g' % (case.get('sigma'), sc)
        what = (f"{'compare_* function' if direct else 'compare'} method={m}: first stack in units of {sa:g}, second in units of "
                f"{sb:g}{sg_txt}, against the definition on the stacks in units of 1")
        if m == 'bures_metric':
            if sa != sb:
                raise ValueError('bures_metric: equal scales only')
            got = np.asarray(got, dtype=float) / sa
            what += ' (squared Bures metric divided by the common unit)'
        r = _diff(got, want, _tol(m, sig), what)
        if r:
            return r
    return None


def _snapshot(obj):
    if obj is None:
        return None
    if isinstance(obj, np.ndarray):
        return ('ndarray', obj.dtype.str, obj.shape, obj.tobytes())
    d = obj.dissimilarities
    return ('RDMs', d.dtype.str, d.shape, d.tobytes(), obj.n_rdm, obj.n_cond,
            json.dumps(obj.rdm_descriptors, sort_keys=True, default=lambda t: np.asarray(t).tolist()),
            json.dumps(obj.pattern_descriptors, sort_keys=True, default=lambda t: np.asarray(t).tolist()))


@oracle('C03/purity')
def orc_purity(case):
    """call sequences.  The value of compare(A, B) is a function of the VALUES of A, B (and sigma_k) alone, hence:
    the inputs are unchanged by the call; the same call again gives the identical matrix; a call on other stacks of the same
    shape gives THEIR measures (no result remembered by shape); a matrix the caller holds is not changed by later calls, and
    writing into it does not change what later calls return."""
    from rsatoolbox.rdm import RDMs
    a0, b0, sig0, s = _build(case)
    a1, b1, _, _ = _build(dict(case, seed=case['seed'] + 500))       # same shapes, other content
    m, form = case['method'], case['form']
    tol = _tol(m, sig0)

    def wrap(x, y):
        if form == 'rdms':
            return RDMs(x.copy(), rdm_descriptors={'i': list(range(len(x)))}), RDMs(y.copy())
        if form == 'mixed':
            return x.copy(), RDMs(y.copy())
        return x.copy(), y.copy()

    a, b = wrap(a0, b0)
    sig = None if sig0 is None else sig0.copy()
    before = (_snapshot(a), _snapshot(b), _snapshot(sig))
    want0 = _spec_matrix(m, a0, b0, s if m in WHITENED else None)
    r1 = _call(m, a, b, sig)
    r = _diff(r1, want0, tol, f'[{form}] {m} first call')
    if r:
        return r
    if (_snapshot(a), _snapshot(b), _snapshot(sig)) != before:
        which = [nm for nm, x, y in zip(('first stack', 'second stack', 'sigma_k'), (_snapshot(a), _snapshot(b), _snapshot(sig)), before)
                 if x != y]
        return f'[{form}] {m}: the call changed its inputs: {which}'
    held = np.array(r1, dtype=float, copy=True)
    r2 = _call(m, a, b, sig)
    if not np.array_equal(np.asarray(r2, dtype=float), held, equal_nan=True):
        return (f'[{form}] {m}: the same call on the same objects gives another result the second time: '
                f'{np.asarray(r2).tolist()} after {held.tolist()}')
    # other content, same shapes (the SAME sigma_k object)
    a_, b_ = wrap(a1, b1)
    r3 = _call(m, a_, b_, sig)
    r = _diff(r3, _spec_matrix(m, a1, b1, s if m in WHITENED else None), tol,
              f'[{form}] {m} on other stacks of the same shape, right after a call on the first ones')
    if r:
        return r
    if not np.array_equal(np.asarray(r1, dtype=float), held, equal_nan=True):
        return f'[{form}] {m}: the matrix returned by the first call changed when compare was called again on other stacks'
    # the caller overwrites what it was given; the library must not have kept that array
    try:
        np.asarray(r1)[...] = 99.0
        np.asarray(r3)[...] = -99.0
    except (ValueError, TypeError):
        pass                    # a read-only result cannot be corrupted
    r4 = _call(m, a, b, sig)
    if not np.array_equal(np.asarray(r4, dtype=float), held, equal_nan=True):
        return (f'[{form}] {m}: after the caller overwrote the returned matrices, the same call gives {np.asarray(r4).tolist()} '
                f'instead of {held.tolist()}')
    if (_snapshot(a), _snapshot(b), _snapshot(sig)) != before:
        return f'[{form}] {m}: the inputs changed in the course of the later calls'
    return None


_CHILD = r"""
import json, sys, warnings
import numpy as np
warnings.simplefilter('ignore')
from rsatoolbox.rdm import compare, RDMs
job = json.load(sys.stdin)
a, b = np.array(job['a'], dtype=float), np.array(job['b'], dtype=float)
sig = None if job['sigma'] is None else np.array(job['sigma'], dtype=float)
out = {}
with np.errstate(all='ignore'):
    for m in job['methods']:
        kw = dict(sigma_k=sig) if m in ('cosine_cov', 'corr_cov') else {}
        out[m] = [np.asarray(compare(a, b, method=m, **kw), dtype=float).tolist(),
                  np.asarray(compare(RDMs(a), RDMs(b), method=m, **kw), dtype=float).tolist()]
json.dump(out, sys.stdout)
"""


@oracle('C03/fresh-interpreter')
def orc_fresh_interpreter(case):
    """environment: new interpreters started with other PYTHONHASHSEEDs return the measures of the definition (and the very
    numbers this process gets) for the same stacks"""
    import subprocess
    import sys
    a, b, sig, s = _build(case)
    methods = [m for m in list(SIMILARITIES) + ['bures_metric'] if m != 'tau-b']
    job = json.dumps(dict(a=a.tolist(), b=b.tolist(), sigma=None if sig is None else sig.tolist(), methods=methods))
    procs = []
    for hs in case['hashseeds']:
        env = dict(os.environ, PYTHONHASHSEED=str(hs), MPLBACKEND='Agg')
        procs.append((hs, subprocess.Popen([sys.executable, '-c', _CHILD], stdin=subprocess.PIPE, stdout=subprocess.PIPE,
                                           stderr=subprocess.PIPE, env=env, text=True)))
    outs = []
    for hs, p in procs:
        try:
            o, e = p.communicate(job, timeout=240)
        except subprocess.TimeoutExpired:
            p.kill()
            return f'PYTHONHASHSEED={hs}: the new interpreter did not finish within 240 s'
        if p.returncode != 0:
            return f'PYTHONHASHSEED={hs}: the new interpreter failed: {e.strip().splitlines()[-1:] }'
        outs.append((hs, json.loads(o)))
    for m in methods:
        want = _spec_matrix(m, a, b, s if m in WHITENED else None)
        here = np.asarray(_call(m, a, b, sig), dtype=float)
        for hs, o in outs:
            for form, got in zip(('ndarray', 'RDMs'), o[m]):
                r = _diff(np.array(got, dtype=float), want, _tol(m, sig), f'{m} [{form}] in a new interpreter with PYTHONHASHSEED={hs}')
                if r:
                    return r
                if not close(np.array(got, dtype=float), here, 1e-12):
                    return (f'{m} [{form}]: a new interpreter with PYTHONHASHSEED={hs} returns {got}, this process '
                            f'(PYTHONHASHSEED={os.environ.get("PYTHONHASHSEED")}) {here.tolist()}')
    return None


@oracle('C03/dispatch')
def orc_dispatch(case):
    from rsatoolbox.rdm import compare
    a, b, sig, _ = _build(case)
    if 'bad' in case:
        try:
            with warnings.catch_warnings():
                warnings.simplefilter('ignore')
                res = compare(a, b, method=case['bad'])
        except ValueError:
            return None
        except Exception as e:  # noqa
            return f'unknown method {case["bad"]!r}: raised {type(e).__name__} instead of ValueError'
        return f'unknown method {case["bad"]!r} was accepted and returned {np.asarray(res).tolist()}'
    m = case['method']
    via = np.asarray(_call(m, a, b, sig), float)
    direct = np.asarray(_call(m, a, b, sig, direct=True), float)
    if not close(via, direct, 0.0 if m not in WHITENED else 1e-12):
        return f"compare(method={m!r}) differs from {FUNC[m]}: {via.tolist()} vs {direct.tolist()}"
    if m == 'kendall':
        other = np.asarray(_call('tau-b', a, b), float)
        if not close(via, other, 0.0):
            return "'kendall' and 'tau-b' give different results"
    if m in WHITENED and sig is not None:
        # sigma_k must reach the function: the result with the (non-spherical) sigma_k differs from the one without
        plain = np.asarray(_call(m, a, b, None), float)
        if close(via, plain, 1e-7):
            return f'{m}: sigma_k had no effect on the result (not forwarded?)'
    if m not in WHITENED and m not in ('kendall', 'tau-b'):
        # sigma_k is documented as used only by the whitened measures: passing it must not change the others
        with warnings.catch_warnings(), np.errstate(all='ignore'):
            warnings.simplefilter('ignore')
            n_cond = case['n_cond']
            extra = np.asarray(compare(a, b, method=m, sigma_k=np.diag(np.arange(1.0, n_cond + 1))), float)
        if not close(via, extra, 0.0):
            return f'{m}: result changes when an (unused) sigma_k is passed'
    return None


# =====================================================================================================================
# domains
# =====================================================================================================================
def _sorted_weak_orders(n):
    return [w for w in _weak_orders(n) if all(w[i] <= w[i + 1] for i in range(n - 1))]


def tier_c(run, thorough):
    bds = []

    # ---- definitions of the plain measures on seeded stacks ------------------------------------------------------
    conds = (3, 4, 5, 6, 8) if thorough else (3, 4, 5, 7)
    shapes = ((1, 1), (1, 3), (3, 1), (2, 3), (3, 2), (2, 2)) if thorough else ((1, 2), (3, 2), (2, 3))
    kinds = ('real', 'positive', 'ties', 'fewties', 'binary')
    bd = Bounded(run, 'C03/definition', 'C03/compare/oracle/definition-plain-measures',
                 'seeded stacks: %s conditions, stack sizes %s, value kinds %s (negative entries, ties, 0/1), methods %s, '
                 '%d seeds; compare() and the compare_* function; tolerance 1e-9; also 2 conditions (one dissimilarity) '
                 'for cosine' % (conds, shapes, kinds, PLAIN, 2 if thorough else 1), function='compare')
    for seed in range(2 if thorough else 1):
        for n_cond in conds:
            for si, (n1, n2) in enumerate(shapes):
                for ki, kind in enumerate(kinds):
                    if kind == 'binary' and n_cond < 4:
                        continue        # too few distinct non-constant 0/1 vectors of length 3 for a stack of 3
                    for m in PLAIN:
                        case = dict(seed=1000 * seed + 100 * n_cond + 10 * si + ki, n_cond=n_cond, n1=n1, n2=n2, kind=kind, method=m)
                        bd.check(orc_definition, case, kind, function=FUNC[m])
        for n1, n2 in ((1, 1), (2, 3)):
            bd.check(orc_definition, dict(seed=seed, n_cond=2, n1=n1, n2=n2, kind='real', method='cosine'), 'one-dissimilarity',
                     function='compare_cosine')
    bd.done()
    bds.append(bd)

    # ---- rank measures, exhaustive over weak orders --------------------------------------------------------------
    small = (2, 3, 4, 5) if thorough else (2, 3, 4)
    bd = Bounded(run, 'C03/rank-exhaustive[small]', 'C03/compare/oracle/rank-measures-all-weak-orders',
                 'ALL ordered pairs (a, b) of weak orders of n entries for n in %s (n = 3: the RDMs of 3 conditions; other n as '
                 'plain vectors), methods %s, both argument orders (tau-b on 5 entries: one); values are half-integers from -0.5; entries whose '
                 'definition is 0/0 masked' % (small, RANK), exhaustive=True, function='compare')
    for n in small:
        for w in _weak_orders(n):
            for m in RANK:
                case = dict(n=n, a=list(w), method=m, swap=not (n == 5 and m == 'kendall'))   # (b, a) as well; 5-entry tau-b: one order
                if m == 'spearman':
                    case['skip_constant'] = True        # stacks with a constant vector: domain C03/degenerate-row
                bd.check(orc_rank_exhaustive, case, 'weak-orders', function=FUNC[m])
    bd.done()
    bds.append(bd)

    # strides over the stack of all b (1 = every weak order) per method: quick subsamples, thorough is complete
    strides = {'tau-a': 1, 'spearman': 1, 'rho-a': 1, 'kendall': 1} if thorough else {'tau-a': 4, 'spearman': 4, 'rho-a': 4, 'kendall': 16}
    bd = Bounded(run, 'C03/rank-exhaustive[6 entries]', 'C03/compare/oracle/rank-measures-all-weak-orders',
                 'RDMs of 4 conditions (6 entries): a over the 32 non-decreasing weak orders x b over %s of the 4683 weak orders '
                 '(every pair of weak orders is a joint permutation of the entries of exactly one pair with sorted a); methods and '
                 'b-strides %s (offset rotating with a); Spearman without the all-tied b' %
                 ('ALL' if thorough else 'every k-th', strides), exhaustive=thorough, function='compare')
    for ai, w in enumerate(_sorted_weak_orders(6)):
        for m in ('tau-a', 'spearman', 'rho-a', 'kendall'):
            st = strides[m]
            bd.check(orc_rank_exhaustive, dict(n=6, a=list(w), method=m, skip_constant=(m == 'spearman'), stride=st, offset=ai % st),
                     'weak-orders', function=FUNC[m])
    bd.done()
    bds.append(bd)

    n_a = 60 if thorough else 6
    ustr = {'tau-a': 1, 'spearman': 1, 'rho-a': 1, 'kendall': 4} if thorough else {'tau-a': 4, 'spearman': 4, 'rho-a': 4, 'kendall': 16}
    bd = Bounded(run, 'C03/rank-exhaustive[6 entries, unsorted a]', 'C03/compare/oracle/rank-measures-all-weak-orders',
                 'RDMs of 4 conditions: %d seeded (unsorted) weak orders a x the 4683 weak orders b with b-strides %s' % (n_a, ustr),
                 function='compare')
    rs = np.random.RandomState(6)
    wo6 = _weak_orders(6)
    for k in range(n_a):
        w = wo6[int(rs.randint(len(wo6)))]
        for m in ('tau-a', 'spearman', 'rho-a', 'kendall'):
            st = ustr[m]
            bd.check(orc_rank_exhaustive, dict(n=6, a=list(w), method=m, skip_constant=(m == 'spearman'), stride=st, offset=k % st),
                     'weak-orders', function=FUNC[m])
    bd.done()
    bds.append(bd)

    # ---- stacks containing a degenerate RDM ----------------------------------------------------------------------------
    wheres = ([['a', 0]], [['a', 9]], [['b', 0]], [['b', 1]], [['b', 9]], [['a', 1], ['b', 1]])
    bd = Bounded(run, 'C03/degenerate-row', 'C03/compare/oracle/definition-with-degenerate-row',
                 'seeded stacks (2 x 2 / 1 x 2 RDMs, 3-5 conditions) into which an all-zero or a constant RDM is inserted at the '
                 'first / middle / last position of the first, second or both stacks; 6 plain measures and the whitened ones '
                 '(sigma_k none / wishart); only pairs whose definition is not 0/0 are compared', function='_cosine')
    for seed in range(2 if thorough else 1):
        for n_cond in (3, 4, 5):
            for wi, where in enumerate(wheres):
                for deg in ('zero', 'constant'):
                    for m in ('cosine', 'corr', 'spearman', 'kendall', 'tau-a', 'rho-a', 'cosine_cov', 'corr_cov'):
                        for sg in (('none', 'wishart') if m in WHITENED else ('none',)):
                            case = dict(seed=1500 + 100 * seed + 10 * n_cond + wi, n_cond=n_cond, n1=(2, 1)[wi % 2], n2=2, kind='real',
                                        sigma=sg, method=m, deg=deg, where=where)
                            via_cosine = m in ('cosine', 'corr', 'spearman') or (m in WHITENED and sg == 'none')
                            bd.check(orc_degenerate_row, case, 'degenerate-row-in-stack' if via_cosine else 'degenerate-row-in-stack,not-via-_cosine',
                                     function='_cosine' if via_cosine else FUNC[m])
    bd.done()
    bds.append(bd)

    # ---- whitened measures against the literal V -----------------------------------------------------------------
    sigmas = ('none', 'eye', 'vector-constant', 'vector', 'diag-matrix', 'wishart', 'ar1')
    wconds = (2, 3, 4, 5, 6, 7, 8, 10) if thorough else (3, 4, 6, 8)
    bd = Bounded(run, 'C03/whitened', 'C03/compare/oracle/whitened-vs-literal-V',
                 'seeded stacks on %s conditions, sizes (2,3)/(3,1)/(1,2), value kinds real / positive / ties, sigma_k in %s, '
                 'cosine_cov and corr_cov, %d seeds; V built entry by entry from the contrast covariances; tolerance 1e-9 '
                 '(2e-4 when sigma_k is given: conjugate gradients)' % (wconds, sigmas, 3 if thorough else 1),
                 function='_cosine_cov_weighted')
    for seed in range(3 if thorough else 1):
        for n_cond in wconds:
            for ki, kind in enumerate(('real', 'positive', 'ties')):
                for gi, sg in enumerate(sigmas):
                    for m in WHITENED:
                        if n_cond == 2 and (m == 'corr_cov' or sg in ('wishart', 'ar1')):
                            continue       # one dissimilarity: centred vector is zero
                        if n_cond == 2 and kind == 'ties':
                            continue
                        n1, n2 = ((2, 3), (3, 1), (1, 2))[(ki + gi + seed) % 3]
                        case = dict(seed=2000 * seed + 100 * n_cond + 10 * gi + ki, n_cond=n_cond, n1=n1, n2=n2, kind=kind, sigma=sg,
                                    method=m)
                        bd.check(orc_whitened, case, _sigma_class(sg),
                                 function='_cosine_cov_weighted_slow' if _sigma_class(sg) == 'sigma_k-matrix' else '_cov_weighting')
    bd.done()
    bds.append(bd)

    bd = Bounded(run, 'C03/sigma-forms', 'C03/compare/oracle/sigma_k-forms-agree',
                 'seeded stacks on %s conditions: sigma_k omitted vs identity matrix / ones / constant vector / multiple of the '
                 'identity; variance vector vs np.diag(vector); cosine_cov and corr_cov' % (wconds[1:] if thorough else wconds,),
                 function='_cosine_cov_weighted')
    for seed in range(2 if thorough else 1):
        for n_cond in wconds:
            if n_cond < 3:
                continue
            for m in WHITENED:
                for form in ('identity', 'vector'):
                    case = dict(seed=3000 + 100 * seed + n_cond, n_cond=n_cond, n1=2, n2=3, kind=('positive', 'real')[seed % 2],
                                method=m, form=form)
                    bd.check(orc_sigma_forms, case, 'sigma_k-vector' if form == 'vector' else 'sigma_k-identity-forms',
                             function='_cov_weighting')
    bd.done()
    bds.append(bd)

    # ---- Bures -----------------------------------------------------------------------------------------------------
    bconds = (2, 3, 4, 5, 6, 8) if thorough else (2, 3, 4, 5, 6)
    bd = Bounded(run, 'C03/bures', 'C03/compare/oracle/bures-vs-sqrtm',
                 'Euclidean-embeddable RDMs (squared distances of seeded point sets; full-rank and rank-deficient embeddings) on '
                 '%s conditions, stack sizes (2,3)/(3,2)/(1,1), %d seeds; similarity and squared metric; tolerance 1e-6' %
                 (bconds, 4 if thorough else 2), function='compare_bures_similarity')
    for seed in range(4 if thorough else 2):
        for n_cond in bconds:
            for kind, kind2 in (('euclid', 'euclid'), ('euclid-lowrank', 'euclid'), ('euclid-lowrank', 'euclid-lowrank')):
                n1, n2 = ((2, 3), (3, 2), (1, 1))[(seed + n_cond) % 3]
                case = dict(seed=4000 + 100 * seed + n_cond, n_cond=n_cond, n1=n1, n2=n2, kind=kind, kind2=kind2)
                bd.check(orc_bures, case, kind if kind == kind2 else 'euclid-mixed-rank', function='_bures_similarity_first_way')
    bd.done()
    bds.append(bd)

    # ---- structural clauses ----------------------------------------------------------------------------------------
    def structural_cases(seeds, conds_):
        for seed in range(seeds):
            for n_cond in conds_:
                for ki, kind in enumerate(('real', 'ties', 'fewties', 'positive')):
                    for m in PLAIN:
                        if m == 'tau-b':
                            continue
                        yield dict(seed=5000 + 1000 * seed + 10 * n_cond + ki, n_cond=n_cond, n1=2, n2=3, kind=kind, method=m), kind
                for ki, kind in enumerate(('real', 'positive')):
                    for gi, sg in enumerate(sigmas):
                        for m in WHITENED:
                            yield (dict(seed=6000 + 1000 * seed + 10 * n_cond + gi + ki, n_cond=n_cond, n1=2, n2=3, kind=kind, sigma=sg,
                                        method=m), _sigma_class(sg))
                for kind in ('euclid', 'euclid-lowrank'):
                    for m in BURES:
                        yield dict(seed=7000 + 1000 * seed + 10 * n_cond, n_cond=n_cond, n1=2, n2=3, kind=kind, method=m), kind

    sconds = (3, 4, 5, 6, 8) if thorough else (3, 4, 6, 7)
    nseed = 3 if thorough else 1
    for orc, name, text in ((orc_symmetry, 'symmetry', 'compare(B,A) == compare(A,B).T and compare(A,A) symmetric'),
                            (orc_self, 'self-similarity', 'diagonal of compare(A,A) is 1 (0 for the Bures metric); tau-a / rho-a '
                                                          'only for tie-free RDMs'),
                            (orc_range, 'range', 'values in [-1,1] (Bures similarity in [0,1], metric >= 0), no NaN')):
        bd = Bounded(run, orc.oracle_name, f'C03/compare/oracle/{name}',
                     '%s; seeded stacks (2 and 3 RDMs) on %s conditions, value kinds real / ties / fewties / positive for the 6 plain '
                     'measures, real / positive x 7 sigma_k forms for the whitened ones, Euclidean-embeddable (full / low rank) for '
                     'Bures; %d seed(s)' % (text, sconds, nseed), function='compare')
        for case, ic in structural_cases(nseed, sconds):
            bd.check(orc, case, ic, function=FUNC[case['method']])
        bd.done()
        bds.append(bd)

    bd = Bounded(run, 'C03/permutation[all permutations]', 'C03/compare/oracle/joint-condition-permutation',
                 'ALL permutations of 3 and 4 conditions applied to both stacks (and to sigma_k) of one seeded case per (method, '
                 'value kind / sigma_k form): 11 measures, kinds as in the structural domains', exhaustive=True, function='compare')
    for case, ic in structural_cases(1, (3, 4)):
        for perm in itertools.permutations(range(case['n_cond'])):
            if list(perm) == sorted(perm):
                continue
            bd.check(orc_permutation, dict(case, perm=list(perm)), ic, function=FUNC[case['method']])
    bd.done()
    bds.append(bd)
    pconds = (5, 6, 8) if thorough else (6, 7)
    bd = Bounded(run, 'C03/permutation[seeded]', 'C03/compare/oracle/joint-condition-permutation',
                 '%d seeded permutations (plus the reversal and one transposition) of %s conditions, same case families' %
                 (3 if thorough else 1, pconds), function='compare')
    for case, ic in structural_cases(2 if thorough else 1, pconds):
        n_cond = case['n_cond']
        prs = np.random.RandomState(case['seed'] + 1)
        perms = [list(range(n_cond))[::-1], [1, 0] + list(range(2, n_cond))]
        perms += [[int(t) for t in prs.permutation(n_cond)] for _ in range(3 if thorough else 1)]
        for perm in perms:
            bd.check(orc_permutation, dict(case, perm=perm), ic, function=FUNC[case['method']])
    bd.done()
    bds.append(bd)

    # ---- input forms ---------------------------------------------------------------------------------------------------
    bd = Bounded(run, 'C03/input-forms', 'C03/compare/oracle/ndarray-vs-RDMs',
                 'RDMs x RDMs, RDMs x ndarray, ndarray x RDMs, strided views, Fortran order, 1-D ndarray for one RDM; every entry '
                 'against the definition; 11 measures (sigma_k none / wishart), %s conditions; float64 values, and integer-valued '
                 'int64 arrays / RDMs (categorical 0/1 and small-integer RDMs)' % ((3, 4, 6) if thorough else (4, 6),),
                 function='_parse_input_rdms')
    for seed in range(2 if thorough else 1):
        for n_cond in ((3, 4, 6) if thorough else (4, 6)):
            for m in list(SIMILARITIES) + ['bures_metric']:
                if m == 'tau-b':
                    continue
                kind = 'euclid' if m in BURES else ('fewties', 'real')[seed % 2]
                sgs = ('none', 'wishart') if m in WHITENED else ('none',)
                for sg in sgs:
                    case = dict(seed=8000 + 100 * seed + n_cond, n_cond=n_cond, n1=2, n2=3, kind=kind, method=m, sigma=sg)
                    bd.check(orc_input_forms, case, 'float64', function=FUNC[m])
                if m not in BURES:
                    for kind in ('binary', 'ties'):
                        case = dict(seed=8500 + 100 * seed + n_cond, n_cond=n_cond, n1=2, n2=3, kind=kind, method=m, sigma='none',
                                    dtype='int64')
                        bd.check(orc_input_forms, case, 'int-dtype,cosine' if m == 'cosine' else 'int-dtype', function=FUNC[m])
    bd.done()
    bds.append(bd)

    # ---- one measure does not disturb a later one ----------------------------------------------------------------------
    forms = ('rdms', 'array', 'array-1d', 'mixed', 'same-object')
    bd = Bounded(run, 'C03/sequence', 'C03/compare/oracle/earlier-call-does-not-change-later-result',
                 'first measure m1 in the 11 measures (whitened: sigma_k none / wishart / vector-constant), called once or twice on '
                 '%s; then ALL measures on the same objects against the definition on pristine copies; Euclidean-embeddable '
                 'stacks on 5 conditions (all measures) and tied stacks on 4 conditions (without Bures)' % (forms,),
                 function='_parse_input_rdms')
    for first in list(SIMILARITIES) + ['bures_metric']:
        if first == 'tau-b':
            continue
        for fi, form in enumerate(forms):
            for kind, n_cond in (('euclid', 5), ('ties', 4)):
                if first in BURES and kind != 'euclid':
                    continue
                sgs = ('none', 'wishart', 'vector-constant') if first in WHITENED else (('none', 'wishart') if thorough else ('none',))
                for sg in sgs:
                    for rep in ((1, 2) if thorough else (1,)):
                        case = dict(seed=9000 + fi, n_cond=n_cond, n1=2, n2=3, kind=kind, sigma=sg, first=first, form=form, repeat=rep)
                        bd.check(orc_sequence, case, form, function=FUNC[first])
    bd.done()
    bds.append(bd)

    # ---- dispatch ------------------------------------------------------------------------------------------------------------
    bd = Bounded(run, 'C03/dispatch', 'C03/compare/oracle/dispatch',
                 "every method name against its compare_* function (bitwise), 'kendall' == 'tau-b', sigma_k reaches the whitened "
                 'measures and does not affect the others, 9 unknown / misspelt names raise ValueError', function='compare')
    for m in list(SIMILARITIES) + ['bures_metric']:
        for sg in (('wishart', 'vector') if m in WHITENED else ('none',)):
            case = dict(seed=9900, n_cond=5, n1=2, n2=3, kind='euclid', method=m, sigma=sg)
            bd.check(orc_dispatch, case, 'known-method', function='compare')
    for bad in ('Cosine', 'cosine ', '', 'tau_a', 'tau-c', 'pearson', 'rho_a', 'cosine-cov', 'kendall-tau'):
        bd.check(orc_dispatch, dict(seed=9901, n_cond=4, n1=1, n2=2, kind='real', bad=bad), 'unknown-method', function='compare')
    bd.done()
    bds.append(bd)

    # =================================================================================================================
    # dimension sweeps (tools/SWEEP_BRIEF.md): the same clauses along dimensions the domains above do not vary
    # =================================================================================================================
    ALL = [m for m in list(SIMILARITIES) + ['bures_metric'] if m != 'tau-b']

    # ---- sizes (more conditions / larger stacks than above) and stacks with REPEATED RDMs -------------------------------------
    big = ((12, 4, 5), (20, 5, 7), (20, 7, 1), (16, 1, 6)) if thorough else ((12, 4, 5),)
    bd = Bounded(run, 'C03/definition[sizes, repeated RDMs]', 'C03/compare/oracle/definition-plain-measures',
                 'plain measures %s on (conditions, stack sizes) %s, value kinds real / ties%s; and stacks on 5 conditions in which '
                 'RDMs occur repeatedly and in another order (rows [0,1,0] x [1,1,0,1] and [1,0,1,1] x [0,0] of seeded 2 x 2 stacks)'
                 % (PLAIN, big, ' / fewties / binary' if thorough else ''), function='compare')
    for n_cond, n1, n2 in big:
        for ki, kind in enumerate(('real', 'ties', 'fewties', 'binary') if thorough else ('real', 'ties')):
            for m in PLAIN:
                if m == 'tau-b' and not thorough:
                    continue
                bd.check(orc_definition, dict(seed=11000 + 10 * n_cond + ki, n_cond=n_cond, n1=n1, n2=n2, kind=kind, method=m),
                         'many-conditions', function=FUNC[m])
    for ri, (rows1, rows2) in enumerate((([0, 1, 0], [1, 1, 0, 1]), ([1, 0, 1, 1], [0, 0]))):
        for ki, kind in enumerate(('real', 'ties')):
            for m in PLAIN:
                if m == 'tau-b':
                    continue
                bd.check(orc_definition, dict(seed=11500 + 10 * ri + ki, n_cond=5, n1=2, n2=2, kind=kind, method=m, rows1=rows1, rows2=rows2),
                         'repeated-rdms', function=FUNC[m])
    bd.done()
    bds.append(bd)

    wbig = (12, 16) if thorough else (12,)
    bd = Bounded(run, 'C03/whitened[sizes, repeated RDMs]', 'C03/compare/oracle/whitened-vs-literal-V',
                 'cosine_cov / corr_cov against the literal V on %s conditions (stacks 3 x 2), sigma_k none / vector / wishart / ar1; and '
                 'stacks on 5 conditions with repeated RDMs (rows [0,1,0] x [1,1,0,1])' % (wbig,), function='_cosine_cov_weighted')
    for n_cond in wbig:
        for gi, sg in enumerate(('none', 'vector', 'wishart', 'ar1')):
            for m in WHITENED:
                bd.check(orc_whitened, dict(seed=12000 + 10 * n_cond + gi, n_cond=n_cond, n1=3, n2=2, kind='real', sigma=sg, method=m),
                         _sigma_class(sg) + ',many-conditions',
                         function='_cosine_cov_weighted_slow' if sg != 'none' else '_cov_weighting')
    for gi, sg in enumerate(('none', 'vector', 'wishart')):
        for m in WHITENED:
            bd.check(orc_whitened, dict(seed=12500 + gi, n_cond=5, n1=2, n2=2, kind='real', sigma=sg, method=m, rows1=[0, 1, 0],
                                        rows2=[1, 1, 0, 1]), 'repeated-rdms', function='_cosine_cov_weighted')
    bd.done()
    bds.append(bd)

    bbig = (10, 12, 16) if thorough else (12,)
    bd = Bounded(run, 'C03/bures[sizes, repeated RDMs]', 'C03/compare/oracle/bures-vs-sqrtm',
                 'Bures similarity / metric on %s conditions (full-rank and rank-deficient embeddings, stacks 2 x 3) and on 5 conditions with '
                 'repeated RDMs' % (bbig,), function='compare_bures_similarity')
    for n_cond in bbig:
        for kind, kind2 in (('euclid', 'euclid'), ('euclid-lowrank', 'euclid')):
            bd.check(orc_bures, dict(seed=13000 + n_cond, n_cond=n_cond, n1=2, n2=3, kind=kind, kind2=kind2), 'many-conditions',
                     function='_bures_similarity_first_way')
    bd.check(orc_bures, dict(seed=13500, n_cond=5, n1=2, n2=2, kind='euclid', rows1=[0, 1, 0], rows2=[1, 1, 0, 1]), 'repeated-rdms',
             function='_bures_similarity_first_way')
    bd.done()
    bds.append(bd)

    # ---- units: the same RDMs / the same sigma_k multiplied by 1e-26 .. 1e12 ---------------------------------------------------------
    units = ((1e-12, 1e-12), (1e-26, 1e-26), (1e6, 1e6), (1e12, 1e12), (1e-20, 1e6), (1e12, 1e-12))
    sunits = (1e-12, 1e-6, 1e6, 1e12)

    def unit_class(sa, sb):
        return 'tiny-units' if max(sa, sb) < 1 else ('huge-units' if min(sa, sb) > 1 else 'mixed-units')

    uconds = (4, 5, 7) if thorough else (5,)
    bd = Bounded(run, 'C03/scale', 'C03/compare/oracle/invariance-under-units',
                 'every measure on seeded stacks (2 x 3 RDMs, %s conditions, %d seed(s)) whose two stacks are multiplied by %s (squared '
                 'Bures metric: the pairs with equal factors, result divided by the factor), whitened measures also with sigma_k (vector / '
                 'wishart / ar1) multiplied by %s; expected: the definition on the unscaled stacks; tolerances as in the definition domains'
                 % (uconds, 2 if thorough else 1, units, sunits), function='compare')
    for seed in range(2 if thorough else 1):
        for n_cond in uconds:
            for ui, (sa, sb) in enumerate(units):
                for m in ALL:
                    if m in BURES:
                        if m == 'bures_metric' and sa != sb:
                            continue
                        for kind in ('euclid', 'euclid-lowrank'):
                            bd.check(orc_scale, dict(seed=14000 + 100 * seed + n_cond, n_cond=n_cond, n1=2, n2=3, kind=kind, method=m,
                                                     scale1=sa, scale2=sb), unit_class(sa, sb), function=FUNC[m])
                    elif m in WHITENED:
                        for gi, sg in enumerate(('none', 'vector', 'wishart')):
                            case = dict(seed=14200 + 100 * seed + n_cond + gi, n_cond=n_cond, n1=2, n2=3, kind='real', method=m, sigma=sg,
                                        scale1=sa, scale2=sb)
                            if sg != 'none' and ui % 2:
                                case['sigma_scale'] = sunits[(ui + gi) % len(sunits)]
                            bd.check(orc_scale, case, unit_class(sa, sb), function=FUNC[m])
                    else:
                        for ki, kind in enumerate(('real', 'ties')):
                            bd.check(orc_scale, dict(seed=14400 + 100 * seed + n_cond + ki, n_cond=n_cond, n1=2, n2=3, kind=kind, method=m,
                                                     scale1=sa, scale2=sb), unit_class(sa, sb), function=FUNC[m])
            for m in WHITENED:      # only sigma_k in other units
                for gi, sg in enumerate(('vector', 'wishart', 'ar1', 'diag-matrix')):
                    for sc in sunits:
                        bd.check(orc_scale, dict(seed=14600 + 100 * seed + n_cond + gi, n_cond=n_cond, n1=2, n2=3, kind='positive', method=m,
                                                 sigma=sg, sigma_scale=sc), 'sigma_k-units', function='_cosine_cov_weighted_slow')
    bd.done()
    bds.append(bd)

    sunit3 = ((1e-20, 1e-20), (1e9, 1e9), (1e-15, 1e6))
    for orc, name in ((orc_symmetry, 'symmetry'), (orc_self, 'self-similarity'), (orc_range, 'range'), (orc_permutation, 'joint-condition-permutation')):
        bd = Bounded(run, orc.oracle_name + '[units]', f'C03/compare/oracle/{name}',
                     'the structural clause on the case families of the structural domains (%s conditions) with the two stacks multiplied '
                     'by %s (rotating), sigma_k of the whitened measures by 1e-9 / 1e6; permutation: one seeded permutation' %
                     ((4, 6) if thorough else (4,), sunit3), function='compare')
        for k, (case, ic) in enumerate(structural_cases(1, (4, 6) if thorough else (4,))):
            sa, sb = sunit3[k % 3]
            case = dict(case, scale1=sa, scale2=sb)
            if case.get('sigma', 'none') != 'none':
                case['sigma_scale'] = (1e-9, 1e6)[k % 2]
            if orc is orc_permutation:
                case['perm'] = [int(t) for t in np.random.RandomState(case['seed'] + 3).permutation(case['n_cond'])]
                if case['perm'] == sorted(case['perm']):
                    case['perm'] = case['perm'][::-1]
            bd.check(orc, case, unit_class(sa, sb), function=FUNC[case['method']])
        bd.done()
        bds.append(bd)

    # ---- typed data --------------------------------------------------------------------------------------------------------------
    typed = (('uint8', 'uint8', 'u8', 'uint-dtype'), ('int8', 'int8', 'i8', 'small-int-dtype'), ('int16', 'int16', 'i16', 'small-int-dtype'),
             ('int32', 'int32', 'i32', 'small-int-dtype'), ('float32', 'float32', 'quarter', 'float32'), ('bool', 'bool', 'binary', 'bool-dtype'),
             ('int16', 'float64', 'i16', 'mixed-dtype'), ('uint8', 'int64', 'u8', 'mixed-dtype'), ('float64', 'float32', 'quarter', 'mixed-dtype'))
    typed_bures = (('int64', 'int64', 'euclid-int', 'int-dtype'), ('int8', 'int8', 'euclid-int', 'small-int-dtype'),
                   ('int16', 'int32', 'euclid-int', 'mixed-dtype'), ('float32', 'float32', 'euclid-int', 'float32'),
                   ('float64', 'int64', 'euclid-int', 'mixed-dtype'))
    tconds = (4, 5, 6) if thorough else (5,)
    bd = Bounded(run, 'C03/input-forms[typed]', 'C03/compare/oracle/ndarray-vs-RDMs',
                 'all input forms of the input-forms domain with typed stacks (first x second stack): %s for the non-Bures measures (values '
                 'over the whole range of the integer type; multiples of 1/4 for float32; 0/1 for bool), %s for the Bures measures (integer '
                 'squared lattice distances); whitened measures with sigma_k none / wishart and with int64 variance vector, int64 matrix, '
                 'float32 matrix; %s conditions; expected: the definition on the same values as float64 (tolerance 1e-5 with float32 data)'
                 % ([t[:2] for t in typed], [t[:2] for t in typed_bures], tconds), function='_parse_input_rdms')
    for n_cond in tconds:
        for ti, (dt1, dt2, kind, ic) in enumerate(typed):
            for m in ALL:
                if m in BURES:
                    continue
                sgs = (('none', 'wishart') if thorough or ti % 2 else ('wishart',)) if m in WHITENED else ('none',)
                for sg in sgs:
                    case = dict(seed=15000 + 10 * n_cond + ti, n_cond=n_cond, n1=2, n2=3, kind=kind, method=m, sigma=sg, dtype=dt1, dtype2=dt2)
                    bd.check(orc_input_forms, case, ic, function=FUNC[m])
        for ti, (dt1, dt2, kind, ic) in enumerate(typed_bures):
            for m in BURES:
                case = dict(seed=15200 + 10 * n_cond + ti, n_cond=n_cond, n1=2, n2=3, kind=kind, method=m, sigma='none', dtype=dt1, dtype2=dt2)
                bd.check(orc_input_forms, case, ic, function=FUNC[m])
        for m in WHITENED:
            for sg, sdt in (('vector-int', 'int64'), ('matrix-int', 'int64'), ('wishart', 'float32'), ('vector-int', 'uint8')):
                for dt, kind in (('float64', 'real'), ('int16', 'i16')):
                    case = dict(seed=15400 + n_cond, n_cond=n_cond, n1=2, n2=3, kind=kind, method=m, sigma=sg, dtype=dt, sigma_dtype=sdt)
                    bd.check(orc_input_forms, case, 'sigma_k-dtype', function='_cosine_cov_weighted')
        if True:   # repaired in /repo dd59809d (was pending triage): uint-dtype,bures / bool-dtype,bures
            for m in BURES:
                for dt1, dt2, kind, ic in (('uint8', 'uint8', 'euclid-int', 'uint-dtype,bures'), ('uint16', 'float64', 'euclid-int', 'uint-dtype,bures'),
                                           ('bool', 'bool', 'categorical', 'bool-dtype,bures')):
                    case = dict(seed=15300 + n_cond, n_cond=n_cond, n1=2, n2=2, kind=kind, method=m, sigma='none', dtype=dt1, dtype2=dt2)
                    bd.check(orc_input_forms, case, ic, function=FUNC[m])
    bd.done()
    bds.append(bd)

    tdt = ('uint8', 'int16', 'float32')
    bd = Bounded(run, 'C03/rank-exhaustive[typed]', 'C03/compare/oracle/rank-measures-all-weak-orders',
                 'ordered pairs (a, b) of weak orders of n entries given as the levels 0..n-1 in dtype %s: ALL pairs for n = 3%s; methods '
                 '%s, both argument orders' % (tdt, ' and n = 4' if thorough else '; n = 4: a over the 8 non-decreasing weak orders x ALL b, '
                                               'uint8 and float32', RANK), exhaustive=thorough, function='compare')
    for n in (3, 4):
        for dt in tdt:
            if n == 4 and dt == 'int16' and not thorough:
                continue
            for w in (_weak_orders(n) if thorough or n == 3 else _sorted_weak_orders(n)):
                for m in RANK:
                    case = dict(n=n, a=list(w), method=m, swap=True, dtype=dt)
                    if m == 'spearman':
                        case['skip_constant'] = True
                    bd.check(orc_rank_exhaustive, case, 'weak-orders,' + ('float32' if dt == 'float32' else 'int-dtype'), function=FUNC[m])
    bd.done()
    bds.append(bd)

    # ---- call sequences ------------------------------------------------------------------------------------------------------------
    bd = Bounded(run, 'C03/purity', 'C03/compare/oracle/result-is-a-function-of-the-values',
                 'every measure (whitened: sigma_k none / wishart / vector) on ndarray x ndarray, RDMs x RDMs, ndarray x RDMs: inputs '
                 'bitwise unchanged, second identical call bitwise equal, other stacks of the same shape give their own measures, held '
                 'results unchanged by later calls, overwriting a returned matrix does not affect later calls; Euclidean-embeddable '
                 'stacks on 5 conditions%s' % (' and tied stacks on 4 conditions (without Bures)' if thorough else '',),
                 function='compare')
    for m in ALL:
        for fi, form in enumerate(('array', 'rdms', 'mixed')):
            for kind, n_cond in ((('euclid', 5), ('ties', 4)) if thorough else (('euclid', 5),)):
                if m in BURES and kind != 'euclid':
                    continue
                for sg in (('none', 'wishart', 'vector') if m in WHITENED else ('none',)):
                    bd.check(orc_purity, dict(seed=16000 + fi, n_cond=n_cond, n1=2, n2=3, kind=kind, sigma=sg, method=m, form=form), form,
                             function=FUNC[m])
    bd.done()
    bds.append(bd)

    # ---- environment ---------------------------------------------------------------------------------------------------------------
    envs = (([1, 987654321], 'wishart'), ([2, 31337], 'vector'), ([4294967295], 'none')) if thorough else (([1, 987654321], 'wishart'),)
    bd = Bounded(run, 'C03/fresh-interpreter', 'C03/compare/oracle/new-interpreter-other-hash-seed',
                 'all 11 measures (ndarray and RDMs inputs, Euclidean-embeddable stacks 2 x 3 on 5 conditions) computed in new '
                 'interpreters started with PYTHONHASHSEED in %s (this process: %s): the definition, and the numbers of this process to 1e-12'
                 % ([e[0] for e in envs], os.environ.get('PYTHONHASHSEED')), function='compare')
    for ei, (hs, sg) in enumerate(envs):
        bd.check(orc_fresh_interpreter, dict(seed=17000 + ei, n_cond=5, n1=2, n2=3, kind='euclid', sigma=sg, hashseeds=hs), 'hash-seed',
                 function='compare')
    bd.done()
    bds.append(bd)
    return bds
