"""C08 -- bounded run-time tier (tier C): fitted model parameters maximise the training criterion within constraints.

Spec side (written from the property statement, no repo code): RDM vectors are the upper triangles in row-major pair
order; a pattern selection P (descriptor values, repeats allowed) names the positions S = sorted positions carrying these
values (with multiplicity); the selected RDM has the entry d[S[a], S[b]] for a < b and a MISSING entry where S[a] == S[b];
the score of a prediction x against the training stack Y is the mean over the training RDMs of
  cosine: x.y/(|x||y|)      corr: the same after removing the mean of the present entries
  cosine_cov / corr_cov: the same with the inner product <a,b> = a' V^-1 b,  V = (C Sigma C')**2 (element-wise square),
  C the pair-contrast matrix of the len(S) selected conditions, Sigma = sigma_k or the identity, V restricted to the
  present entries.
The prediction of a weighted / interpolation model is sum_i theta_i basis_i.

Oracles (clause of the statement -> oracle):
  C08/regress, C08/regress-nn, C08/optimize, C08/optimize-positive
      "the regression fitters return, up to scale, weights whose prediction attains the maximum average cosine or
      correlation (plain or whitened) similarity with the training RDMs on the selected conditions -- no other weight
      vector scores higher -- and the non-negative variants attain the maximum over non-negative weights; normalised
      fits have unit norm":  score(theta_fit) >= score(competitor) - 1e-6 for competitors = random directions, local
      perturbations at scales 1e-1/1e-2/1e-3, grid points, each basis RDM alone (both signs if unconstrained) and the
      independently computed optimum (dense generalised least squares on the pooled normalised training RDM;
      scipy.optimize.nnls on the whitened system for the non-negative variants); unit norm; raw and normalised fit
      proportional with a positive factor; non-negativity; for fit_regress_nn the KKT certificate of the cone problem
      (gradient of the score 0 on the support, <= 0 off the support).  Also through ModelWeighted.fit and Fitter.
  C08/select        "selection models return the best single candidate": integer index of a candidate whose spec score is
                    maximal (fit_select directly and via ModelSelect.fit).
  C08/interpolate   "interpolation models [return] a convex mixture of two adjacent RDMs that no other such mixture
                    beats": structure of theta (length n_rdm, entries in [0,1] summing to 1, support = one adjacent pair)
                    and score >= every mixture on a 41-point grid of EVERY segment, each basis RDM alone, local
                    perturbations of the mixing weight; chains incl. ones where the best single RDM is not an end point
                    of the best segment.
  C08/restriction   "Only the conditions named by the pattern indices enter the fit (with their bootstrap multiplicity)":
                    the fit is unchanged when the basis RDMs are overwritten (sentinels >= 1000) on every pair involving
                    an unselected condition, equals the fit of a model built explicitly on the selected conditions (with
                    their multiplicity and missing same-condition pairs) without pattern indices, and does not depend
                    on the order of the pattern indices; all six fitters.  (The multiplicity also enters every
                    optimality oracle through the spec score.)
  C08/predict       "A model's vector prediction and RDM-object prediction agree for the same parameters, are linear in
                    the weights, and carry the model's condition descriptors; models rebuilt from their dictionary form
                    predict identically": all four model classes, three constructor forms, explicit / default theta.
  C08/forwarding    Model.fit and Fitter.__call__ hand every argument to the fitting function unchanged (recording stub).
  C08/sequence      what "the fit is THE maximiser of the criterion of ITS arguments" implies for sequences of calls and for
                    permutations: the same call again (also after fits of other data / of another model of the same shape,
                    and with freshly built objects) returns the same parameters; the later result is the optimum of the later
                    problem and never worse than the earlier result; arguments (basis RDMs, training RDMs, sigma_k,
                    pattern_idx, descriptors) are left as they were; results held by the caller do not change; basis RDMs in
                    the opposite order give the weights in the opposite order, the order of the training RDMs is irrelevant.
  C08/cross-process the same fits and predictions in a new interpreter with another PYTHONHASHSEED, bit for bit.

Dimension sweeps (metamorphic: every criterion is invariant under positive scaling of the basis RDMs, of each training RDM and
of sigma_k, and does not depend on the numpy dtype or container the same numbers come in).  The six optimality / structure
oracles, C08/restriction and C08/predict are run in addition on (input classes in quotes; `_sweep_cases`):
  'typed-data,<dtype>'   whole-number basis and training RDMs handed over as int64 / int32 / int16 / uint8 / float32 arrays
                         (spec on the same values in float64); 'typed-data,int16,values-to-111' larger whole numbers;
  'units,basis-x<c>', 'units,training-x<c>', 'units,basis-and-training-x<c>', 'units,sigma_k-x<c>'   c = 1e-20 .. 1e+12;
  'containers,pattern_idx-list' / '-tuple', 'containers,str-labels', 'containers,model-from-vectors';
  'grouped-descriptor'   the pattern descriptor has repeated, interleaved values with unbalanced counts whose first appearance
                         is not in sorted order (int or str); pattern_idx names groups, with repeats;
  'sizes,single-basis-rdm' (incl. a negatively aligned one), 'sizes,3-conditions', 'sizes,10-12-conditions' (5-6 basis RDMs,
                         5 training RDMs);
  predictions: parameters as list / tuple / integer array / numpy integer, the dictionary with its entries in the opposite
  order, repeated calls, parameter array and constructor array untouched, held vector unchanged.
PENDING TRIAGE (fail on the unchanged tree, reported, NOT registered: `_PENDING_TRIAGE`):
  fit_regress, fit_regress_nn on 'units,*-x1e-12' / '-x1e-20' with the whitened criteria: scipy cg(..., atol=1e-9) in
      fit_regress, _nn_least_squares and pool_rdm is an ABSOLUTE tolerance -- for RDMs of norm < 1e-9 it returns the zero vector
      (LinAlgError 'Singular matrix', NaN weights, all-zero weights, or a misleading 'different nan positions' error);
  fit_regress_nn: the active-set loop `while np.max(w) > 100 * eps` compares the dual vector with an absolute threshold: for
      tiny units it stops at once (all-zero weights, also for cosine / corr), for basis RDMs of magnitude >~ 30 the rounding
      residue of w on the support stays above it and the loop NEVER ENDS (classes 'units,basis-x1e+06', '-x1e+12',
      'units,sigma_k-x1e-06'; also about a third of plain float64 problems scaled by 30 .. 1000);
  fit_regress, fit_regress_nn on 'typed-data,uint8' and 'typed-data,int16,values-to-111' with method cosine:
      `vectors @ vectors.T` is computed in the dtype of the basis RDMs and wraps around.

Input classes (they key the findings; every class is a property of the INPUT computed without repo code):
  weighted fitters: sigma_k-none | sigma_k-given,single-train | sigma_k-given,multi-train; for fit_optimize in addition
  optimum-nonnegative | optimum-with-negative-weight (sign pattern of the independently computed unconstrained maximiser);
  fit_interpolate: optimum-at-basis-rdm | optimum-inside-segment (location of the best mixture on the spec grid);
  predictions: fixed | fixed,multi-rdm | select | weighted,theta-* | interpolate,theta-default/nonneg/convex/signed.
Failing on the unchanged tree (details, concrete inputs and repairs in C08_findings.md): fit_regress and fit_regress_nn on
sigma_k-given,multi-train; fit_optimize on sigma_k-none,optimum-with-negative-weight and on the sigma_k-given classes;
fit_optimize_positive on both sigma_k-given classes; fit_interpolate on optimum-at-basis-rdm; predictions on
interpolate,theta-default, interpolate,theta-signed and fixed,multi-rdm.  All other classes hold.
An all-zero weight vector is scored 0 (the library's convention for a zero prediction) and is accepted from a fitter iff no
admissible competitor reaches a score > 1e-6 ("unit norm unless zero").

NOT covered by this tier: ridge_weight != 0; rank-based / Riemannian / Bures criteria; 1-D sigma_k; training RDMs whose
missing entries differ from those of the (selected) prediction (the library rejects them); optimality against ALL
competitors (only the finite competitor sets above, tolerance 1e-6) -- the for-all statement for the closed-form fitters
belongs to tiers B/L; convergence of BFGS outside the seeded problems.
"""
import itertools

import numpy as np

from vf.rt.harness import oracle, Bounded, replay_file, close

TOL = 1e-6          # tolerance on the score when a competitor is compared with the fit (property statement)
METHODS = ('cosine', 'corr', 'cosine_cov', 'corr_cov')


# =====================================================================================================
# spec functions (independent of the repo)
# =====================================================================================================
def _pairs(n):
    return [(a, b) for a in range(n) for b in range(a + 1, n)]


def _mat_from_vec(v, n):
    m = np.zeros((n, n))
    for p, (a, b) in enumerate(_pairs(n)):
        m[a, b] = v[p]
        m[b, a] = v[p]
    return m


def _vec_from_mat(m, sel):
    """vector of the RDM restricted to the positions `sel` (sorted, repeats allowed); same-condition pairs are missing"""
    return np.array([np.nan if sel[a] == sel[b] else m[sel[a], sel[b]] for a, b in _pairs(len(sel))])


def _spec_v(n, sigma):
    prs = _pairs(n)
    c = np.zeros((len(prs), n))
    for p, (a, b) in enumerate(prs):
        c[p, a] = 1.0
        c[p, b] = -1.0
    xi = c @ (np.eye(n) if sigma is None else np.asarray(sigma, dtype=float)) @ c.T
    return xi * xi


class _Crit:
    """the training criterion on the present entries: mean similarity of a prediction with the training RDMs"""

    def __init__(self, method, Y, V):
        self.method = method
        self.centre = method in ('corr', 'corr_cov')
        self.Vi = np.linalg.inv(V) if method in ('cosine_cov', 'corr_cov') else None
        self.Y = self._prep(np.asarray(Y, dtype=float))

    def _prep(self, A):
        A = np.atleast_2d(A)
        return A - A.mean(axis=1, keepdims=True) if self.centre else A

    def ip(self, a, b):
        return float(a @ b) if self.Vi is None else float(a @ self.Vi @ b)

    def score(self, x):
        x = self._prep(x)[0]
        nx = self.ip(x, x)
        if not nx > 0:
            return float('nan')
        tot = 0.0
        for y in self.Y:
            tot += self.ip(x, y) / np.sqrt(nx * self.ip(y, y))
        return tot / len(self.Y)

    def pooled(self):
        """the vector yhat with score(x) = <x, yhat>/|x| : mean of the normalised (centred) training RDMs"""
        return np.mean([y / np.sqrt(self.ip(y, y)) for y in self.Y], axis=0)

    def optimum(self, X, nonneg):
        """weights maximising the score of X' theta (X: basis x entries), by dense (generalised) least squares"""
        Xc = self._prep(X)
        yh = self.pooled()
        if self.Vi is None:
            A, b = Xc.T, yh
        else:
            L = np.linalg.cholesky(np.linalg.inv(self.Vi))
            A, b = np.linalg.solve(L, Xc.T), np.linalg.solve(L, yh)
        amax = float(np.max(np.abs(A)))
        if amax > 0 and not 1e-3 <= amax <= 1e3:
            # extreme units: the maximiser is only defined up to a positive factor, so the system may be rescaled
            # (scipy's nnls compares its dual vector with an absolute tolerance)
            A = A / amax
        if nonneg:
            import scipy.optimize
            return scipy.optimize.nnls(A, b)[0]
        return np.linalg.lstsq(A, b, rcond=None)[0]

    def gradient(self, X, theta):
        """gradient of the score with respect to theta at theta"""
        Xc = self._prep(X)
        yh = self.pooled()
        a = np.array([self.ip(x, yh) for x in Xc])
        M = np.array([[self.ip(x, z) for z in Xc] for x in Xc])
        q = float(theta @ M @ theta)
        return a / np.sqrt(q) - float(a @ theta) * (M @ theta) / q ** 1.5


# =====================================================================================================
# problem construction (deterministic from the case)
# =====================================================================================================
_NAMES = ('kiwi', 'apple', 'fig', 'date', 'plum', 'cherry', 'lime', 'pear', 'nut', 'yam', 'oat', 'rye')   # not in sorted order
_DTYPES = ('int64', 'int32', 'int16', 'uint8', 'float32')
SWEEP_KEYS = ('dtype', 'bscale', 'tscale', 'sscale', 'labels', 'pidx_as', 'groups', 'ctor', 'size')


def _is_sweep(case):
    """a case of the dimension sweeps (typed data, units, containers, grouped descriptors, sizes)"""
    return any(a in case for a in SWEEP_KEYS)


def _label_of(c, case):
    return _NAMES[c] if case.get('labels') == 'str' else 10 + 3 * c


def _labels(rs, n_all, desc, case=None):
    case = case or {}
    if desc == 'group':
        # a descriptor whose values repeat: position p carries the value of group case['groups'][p]
        groups = [int(g) for g in case['groups']]
        return groups, [_label_of(g, case) for g in groups]
    if desc == 'cond':
        perm = [int(c) for c in rs.permutation(n_all)]
        return perm, [_label_of(c, case) for c in perm]
    return list(range(n_all)), list(range(n_all))


def _problem(case):
    """returns dict(basis_full (k x nd_all), labels, values (pattern_idx argument or None), S, X (k x present entries),
    Y (r x present), train_vecs (r x all selected pairs, with nan), sigma, V (present x present), mask)

    optional keys of the dimension sweeps (absent = the plain problem):
      dtype   the basis and training RDMs hold whole numbers and are handed over in that numpy dtype (the spec side works on the
              same values as float64)
      bscale / tscale / sscale   units: the basis RDMs / training RDMs / sigma_k are multiplied by this positive factor
      labels='str'   string-valued descriptor (desc 'cond' or 'group');  pidx_as  list / tuple / array for pattern_idx
      desc='group', groups=[...]   a pattern descriptor whose values repeat; pidx then names GROUPS: every position that
              carries a named value is selected, as often as the value is named
      ctor='vectors'   the model is built from a plain array of RDM vectors (pattern descriptor 'index' only)"""
    rs = np.random.RandomState(case['seed'])
    k, n_all = case['k'], case['n_all']
    nd_all = n_all * (n_all - 1) // 2
    desc = case.get('desc', 'index')
    cond_of_pos, labels = _labels(rs, n_all, desc, case)
    pidx = case.get('pidx')
    if pidx is None:
        S = list(range(n_all))
        values = None
    else:
        S = sorted(p for c in pidx for p in range(n_all) if cond_of_pos[p] == c)
        values = [_label_of(c, case) for c in pidx] if desc in ('cond', 'group') else list(pidx)
    basis = 0.1 + rs.rand(k, nd_all)
    kind = case.get('kind', 'random')
    scales = np.array([1., 10., 0.1, 3., 0.5])[:case['n_train']]
    r = case['n_train']
    if kind == 'decoy':
        # chain on which the criterion is not unimodal: the training RDMs are close to basis[seg] + basis[seg+1] (which
        # have nearly disjoint support) while basis[decoy] is a noisy copy of the training pattern
        seg, decoy = case['seg'], case['decoy']
        half = rs.permutation(nd_all)[:nd_all // 2]
        lo = np.zeros(nd_all, bool)
        lo[half] = True
        basis[seg] = np.where(lo, 1 + rs.rand(nd_all), 0.02 * rs.rand(nd_all))
        basis[seg + 1] = np.where(~lo, 1 + rs.rand(nd_all), 0.02 * rs.rand(nd_all))
        target = basis[seg] + basis[seg + 1]
        basis[decoy] = target + 1.2 * rs.rand(nd_all)
        basis[decoy][::3] = 0.05
        train = np.array([target + 0.05 * rs.rand(nd_all) for _ in range(r)])
    elif kind == 'mix':
        w = rs.randn(k)
        base = w @ basis
        train = np.array([base + 0.3 * np.std(base) * rs.randn(nd_all) for _ in range(r)])
    elif kind == 'close':
        # every candidate resembles another training RDM (which are structurally different: supported on different pairs),
        # so the best single candidate depends on the exact weight each training RDM has in the criterion (1 / its norm
        # under the criterion's own metric); scores are close
        masks = [rs.rand(nd_all) < 0.6 for _ in range(r)]
        train = np.array([(0.05 + rs.rand(nd_all)) * np.where(m, 1.0, 0.08) for m in masks])
        basis = np.array([train[i % r] / np.sqrt(np.mean(train[i % r] ** 2)) + 0.35 * rs.rand(nd_all) for i in range(k)])
    elif kind == 'negaligned':
        # every basis RDM is NEGATIVELY aligned with the training data: the best non-negative weights are all zero
        w = 0.2 + rs.rand(k)
        base = w @ (basis - np.mean(basis, axis=1, keepdims=True))
        train = np.array([-base + 0.05 * np.std(base) * rs.randn(nd_all) for _ in range(r)])
    elif kind == 'correlated':
        # strongly correlated basis RDMs and a signed mixture as target: the unconstrained optimum has negative weights, so the
        # non-negative solvers have to take weights OUT of their active set on the way
        common = 0.5 + rs.rand(nd_all)
        basis = np.array([common + 0.25 * rs.rand(nd_all) for _ in range(k)])
        w = np.array([1.0, -0.9, 0.7, -0.4, 0.5, -0.3][:k])
        base = w @ basis + 1.5 * common
        train = np.array([base + 0.05 * np.std(base) * rs.randn(nd_all) for _ in range(r)])
    elif kind == 'posmix':
        w = 0.2 + rs.rand(k)
        base = w @ basis
        train = np.array([base + 0.1 * np.std(base) * rs.randn(nd_all) for _ in range(r)])
    else:
        train = rs.rand(r, nd_all)
    train = train * scales[:, None] + (0.0 if kind == 'decoy' else 1.0) * rs.rand(r, 1) * scales[:, None]
    if case.get('dtype'):
        # whole numbers that every dtype of the sweep can hold: basis 1..7 (case['vmax'] + 1), training RDM i 1..121 / 61 / 31
        if basis.min() < 0 or train.min() < 0:
            raise ValueError('typed problems need non-negative RDMs (kinds random / posmix)')
        basis = np.rint(basis * (float(case.get('vmax', 6)) / basis.max())) + 1.0
        train = np.array([np.rint(t * ((120.0, 60.0, 30.0)[i % 3] / t.max())) + 1.0 for i, t in enumerate(train)])
    basis = basis * float(case.get('bscale', 1.0))
    train = train * float(case.get('tscale', 1.0))
    n = len(S)
    Xs = np.array([_vec_from_mat(_mat_from_vec(b, n_all), S) for b in basis])
    Ts = np.array([_vec_from_mat(_mat_from_vec(t, n_all), S) for t in train])
    mask = ~np.isnan(Xs[0])
    sk = case.get('sigma', 'none')
    if sk == 'full':
        b = rs.randn(n, n)
        sigma = b @ b.T / n + np.eye(n)
    elif sk == 'diag':
        sigma = np.diag(0.5 + rs.rand(n))
    else:
        sigma = None
    if sigma is not None:
        sigma = sigma * float(case.get('sscale', 1.0))
    V = _spec_v(n, sigma)[mask][:, mask]
    return dict(basis=basis, labels=labels, values=values, S=S, X=Xs[:, mask], Y=Ts[:, mask], train_vecs=Ts,
                sel_basis_vecs=Xs, sigma=sigma, V=V, mask=mask, n_all=n_all, cond_of_pos=cond_of_pos)


def _rdms(vecs, labels, dtype=None):
    """RDMs object of the given vectors; with `dtype` the vectors are handed over in that numpy dtype (whole numbers are
    represented exactly in every dtype of the sweep; vectors with missing entries stay floating point)"""
    from rsatoolbox.rdm import RDMs
    arr = np.array(vecs, dtype=float)
    if dtype is not None and (dtype.startswith('float') or not np.any(np.isnan(arr))):
        typed = arr.astype(dtype)
        if not np.array_equal(typed.astype(float), arr, equal_nan=True):
            raise ValueError(f'values are not representable as {dtype}')
        arr = typed
    return RDMs(arr, pattern_descriptors={'cond': list(labels)})


def _model(cls_name, case, pb, name='m'):
    """the model of a fit problem: built from an RDMs object (descriptor 'cond' = the labels) or, with ctor='vectors', from a
    plain array of RDM vectors (then only the descriptor 'index' exists)"""
    import rsatoolbox.model as M
    cls = getattr(M, cls_name)
    if case.get('ctor') == 'vectors':
        arr = np.array(pb['basis'], dtype=float)
        return cls(name, arr.astype(case['dtype']) if case.get('dtype') else arr)
    return cls(name, _rdms(pb['basis'], pb['labels'], case.get('dtype')))


def _train(case, pb):
    return _rdms(pb['train_vecs'], [pb['labels'][s] for s in pb['S']], case.get('dtype'))


def _fit_kwargs(case, pb):
    kw = dict(method=case['method'])
    if pb['sigma'] is not None:
        kw['sigma_k'] = pb['sigma'].copy()
    if pb['values'] is not None:
        as_ = case.get('pidx_as', 'array')
        kw['pattern_idx'] = (list(pb['values']) if as_ == 'list' else tuple(pb['values']) if as_ == 'tuple'
                             else np.array(pb['values']))
        kw['pattern_descriptor'] = {'group': 'cond'}.get(case.get('desc', 'index'), case.get('desc', 'index'))
    return kw


class _Timeout(Exception):
    pass


class _time_limit:
    """turns a fit that does not return (an active-set or line-search loop that never meets an absolute threshold) into a
    failure of the case instead of a hanging check; used for the cases of the dimension sweeps only.  The limit is far
    above the run time of any fit of the sweeps (< 1 s), so it does not make results depend on the machine."""

    def __init__(self, seconds):
        self.seconds = seconds
        self.armed = False

    def _raise(self, *_):
        raise _Timeout(f'the call did not return within {self.seconds} s')

    def __enter__(self):
        import signal
        if self.seconds:
            try:
                self.old = signal.signal(signal.SIGALRM, self._raise)
                signal.alarm(self.seconds)
                self.armed = True
            except ValueError:        # not in the main thread: no guard
                pass
        return self

    def __exit__(self, *exc):
        import signal
        if self.armed:
            signal.alarm(0)
            signal.signal(signal.SIGALRM, self.old)
        return False


def _call_fit(fit_name, model, data, kw, via='direct', seed=0, limit=None, **extra):
    """calls the real fitter with numpy's global generator seeded (fit_optimize* draw their starting points from it)"""
    import rsatoolbox.model.fitter as F
    state = np.random.get_state()
    np.random.seed(seed)
    try:
        with _time_limit(limit):
            if via == 'model.fit':
                return model.fit(data, **kw)
            fn = getattr(F, fit_name)
            if via == 'Fitter':
                fixed = {a: kw[a] for a in ('method', 'sigma_k') if a in kw}
                rest = {a: v for a, v in kw.items() if a not in fixed}
                return F.Fitter(fn, **fixed, **extra)(model, data, **rest)
            return fn(model, data, **kw, **extra)
    finally:
        np.random.set_state(state)


def _limit(case):
    return 20 if _is_sweep(case) else None


def _fmt(v):
    return np.array2string(np.asarray(v, dtype=float), precision=6, separator=',')


# =====================================================================================================
# optimality of the weighted-sum fitters
# =====================================================================================================
def _weighted(case, fit_name, nonneg):
    pb = _problem(case)
    k = case['k']
    model = _model('ModelWeighted', case, pb, 'w')
    data = _train(case, pb)
    kw = _fit_kwargs(case, pb)
    via = case.get('via', 'direct')
    lim = _limit(case)
    if via == 'model.fit':
        theta = np.asarray(_call_fit(fit_name, model, data, kw, via, case['seed'], lim), dtype=float)
        theta_raw = None
    else:
        theta = np.asarray(_call_fit(fit_name, model, data, kw, via, case['seed'], lim), dtype=float)
        theta_raw = np.asarray(_call_fit(fit_name, model, data, kw, via, case['seed'], lim, normalize=False), dtype=float)
    if theta.shape != (k,):
        return f'theta has shape {theta.shape}, expected ({k},)'
    if not np.all(np.isfinite(theta)):
        return f'theta is not finite: {_fmt(theta)}'
    nrm = float(np.sqrt(np.sum(theta ** 2)))
    zero = nrm == 0     # "unit norm unless zero": the zero prediction has similarity 0 with everything (convention of the
    #                     library for vectors of length 0); it is optimal iff no admissible weights reach a positive score
    if not zero and abs(nrm - 1) > 1e-9:
        return f'normalised fit has norm {nrm!r}, expected 1'
    if theta_raw is not None:
        nr = float(np.sqrt(np.sum(theta_raw ** 2)))
        if theta_raw.shape != (k,) or not np.isfinite(nr) or (nr == 0) != zero:
            return f'normalize=False returned {_fmt(theta_raw)}, normalize=True {_fmt(theta)}'
        if not zero:
            cosang = float(theta @ theta_raw) / nr
            if cosang < 1 - 1e-9:
                return (f'normalised fit {_fmt(theta)} is not a positive multiple of the raw fit {_fmt(theta_raw)} '
                        f'(cosine of the angle {cosang!r})')
    if nonneg and np.any(theta < 0):
        return f'non-negative fitter returned a negative weight: {_fmt(theta)}'
    crit = _Crit(case['method'], pb['Y'], pb['V'])
    X = pb['X']
    s_fit = 0.0 if zero else crit.score(theta @ X)
    if not np.isfinite(s_fit):
        return f'score of the fitted weights {_fmt(theta)} is {s_fit}'
    rs = np.random.RandomState(case['seed'] + 7919)
    comps = []
    for _ in range(40):
        comps.append(('random direction', rs.randn(k)))
    for sc in (1e-1, 1e-2, 1e-3):
        for _ in range(15):
            comps.append((f'local perturbation (scale {sc})', theta + sc * rs.randn(k)))
    grid = (0., .25, .5, .75, 1.) if nonneg else (-1., -.5, 0., .5, 1.)
    for g in itertools.product(grid, repeat=k):
        if any(g):
            comps.append(('grid point', np.array(g)))
    for i in range(k):
        e = np.zeros(k)
        e[i] = 1.0
        comps.append((f'basis RDM {i} alone', e))
        if not nonneg:
            comps.append((f'minus basis RDM {i} alone', -e))
    if nonneg and not zero and s_fit < -TOL:
        return (f'{fit_name}({case["method"]}) weights {_fmt(theta)} reach mean similarity {s_fit:.9f} < 0, but the admissible '
                f'all-zero weights have similarity 0 by the library\'s convention (no non-negative weights score above 0 here)')
    opt_theta = crit.optimum(X, nonneg)
    if np.any(opt_theta != 0):
        comps.append(('independently computed optimum', opt_theta))
    best = None
    for what, c in comps:
        if nonneg:
            c = np.maximum(c, 0)
        if not np.any(c != 0):
            continue
        s = crit.score(c @ X)
        if np.isfinite(s) and (best is None or s > best[0]):
            best = (s, what, c)
    if best is not None and best[0] > s_fit + TOL:
        c = best[2] / np.sqrt(np.sum(best[2] ** 2))
        if zero:
            return (f'{fit_name}({case["method"]}) returned the all-zero weight vector (similarity 0) although the '
                    f'{"non-negative " if nonneg else ""}weights {_fmt(c)} ({best[1]}) reach mean similarity {best[0]:.9f}')
        return (f'{fit_name}({case["method"]}) weights {_fmt(theta)} reach mean similarity {s_fit:.9f} but the '
                f'{"non-negative " if nonneg else ""}weights {_fmt(c)} ({best[1]}) reach {best[0]:.9f} '
                f'(excess {best[0] - s_fit:.3e} > {TOL})')
    if fit_name == 'fit_regress_nn' and not zero:
        g = crit.gradient(X, theta)
        # plain criteria: exact linear algebra; whitened ones: the library solves with V by conjugate gradients (rtol 1e-5)
        # (single-precision input: the library may do its linear algebra in the precision of the data it was given)
        gtol = (1e-4 if case['method'] not in ('cosine', 'corr') else 1e-5 if case.get('dtype') == 'float32' else 1e-8)
        gtol *= max(1.0, float(np.max(np.abs(g))))
        on = theta > 0
        if np.any(np.abs(g[on]) > gtol):
            return f'KKT: gradient of the score on the support of theta is {_fmt(g[on])}, expected 0 (theta {_fmt(theta)})'
        if np.any(g[~on] > gtol):
            return f'KKT: the score increases when a zero weight is raised: gradient {_fmt(g)} at theta {_fmt(theta)}'
    return None


@oracle('C08/regress')
def orc_regress(case):
    return _weighted(case, 'fit_regress', False)


@oracle('C08/regress-nn')
def orc_regress_nn(case):
    return _weighted(case, 'fit_regress_nn', True)


@oracle('C08/optimize')
def orc_optimize(case):
    return _weighted(case, 'fit_optimize', False)


@oracle('C08/optimize-positive')
def orc_optimize_positive(case):
    return _weighted(case, 'fit_optimize_positive', True)


# =====================================================================================================
# selection and interpolation models
# =====================================================================================================
@oracle('C08/select')
def orc_select(case):
    pb = _problem(case)
    k = case['k']
    model = _model('ModelSelect', case, pb, 's')
    data = _train(case, pb)
    kw = _fit_kwargs(case, pb)
    theta = _call_fit('fit_select', model, data, kw, case.get('via', 'direct'), case['seed'], _limit(case))
    if isinstance(theta, (bool, np.bool_)) or not isinstance(theta, (int, np.integer)):
        return f'fit_select returned {theta!r} of type {type(theta).__name__}, expected an integer index'
    if not 0 <= int(theta) < k:
        return f'fit_select returned index {theta} outside 0..{k - 1}'
    crit = _Crit(case['method'], pb['Y'], pb['V'])
    scores = [crit.score(x) for x in pb['X']]
    if scores[int(theta)] < max(scores) - TOL:
        return (f'fit_select({case["method"]}) chose candidate {int(theta)} with mean similarity {scores[int(theta)]:.9f} but '
                f'candidate {int(np.argmax(scores))} reaches {max(scores):.9f}')
    return None


@oracle('C08/interpolate')
def orc_interpolate(case):
    pb = _problem(case)
    k = case['k']
    model = _model('ModelInterpolate', case, pb, 'i')
    data = _train(case, pb)
    kw = _fit_kwargs(case, pb)
    theta = np.asarray(_call_fit('fit_interpolate', model, data, kw, case.get('via', 'direct'), case['seed'], _limit(case)),
                       dtype=float)
    if theta.shape != (k,):
        return f'theta has shape {theta.shape}, expected ({k},)'
    if not np.all(np.isfinite(theta)) or np.any(theta < 0) or np.any(theta > 1) or abs(theta.sum() - 1) > 1e-9:
        return f'theta {_fmt(theta)} is not a convex mixture (entries in [0,1] summing to 1)'
    nz = np.flatnonzero(theta)
    if nz.size > 2 or (nz.size == 2 and nz[1] - nz[0] != 1):
        return f'theta {_fmt(theta)} mixes RDMs that are not two adjacent ones'
    crit = _Crit(case['method'], pb['Y'], pb['V'])
    X = pb['X']
    s_fit = crit.score(theta @ X)
    if not np.isfinite(s_fit):
        return f'score of the fitted mixture {_fmt(theta)} is {s_fit}'
    comps = []
    for i in range(k - 1):
        for w in np.linspace(0, 1, 41):
            c = np.zeros(k)
            c[i] = w
            c[i + 1] = 1 - w
            comps.append((f'grid mixture on segment {i}-{i + 1}', c))
    i0 = int(nz[0]) if nz.size == 2 or nz[0] < k - 1 else int(nz[0]) - 1
    w0 = theta[i0]
    for sc in (1e-1, 1e-2, 1e-3):
        for sg in (-1, 1):
            w = min(1.0, max(0.0, w0 + sg * sc))
            c = np.zeros(k)
            c[i0] = w
            c[i0 + 1] = 1 - w
            comps.append((f'local perturbation of the mixing weight ({sg * sc:+g})', c))
    best = None
    for what, c in comps:
        s = crit.score(c @ X)
        if np.isfinite(s) and (best is None or s > best[0]):
            best = (s, what, c)
    if best[0] > s_fit + TOL:
        return (f'fit_interpolate({case["method"]}) mixture {_fmt(theta)} reaches mean similarity {s_fit:.9f} but the adjacent '
                f'mixture {_fmt(best[2])} ({best[1]}) reaches {best[0]:.9f} (excess {best[0] - s_fit:.3e} > {TOL})')
    return None


def _interp_optimum_kind(case):
    """where (by the spec) the best adjacent mixture of the chain lies: at a basis RDM or inside a segment"""
    pb = _problem(case)
    crit = _Crit(case['method'], pb['Y'], pb['V'])
    k = case['k']
    best = (-np.inf, None)
    for i in range(k - 1):
        for w in np.linspace(0, 1, 41):
            c = np.zeros(k)
            c[i], c[i + 1] = w, 1 - w
            s = crit.score(c @ pb['X'])
            if s > best[0]:
                best = (s, w)
    return 'optimum-at-basis-rdm' if best[1] in (0.0, 1.0) else 'optimum-inside-segment'


# =====================================================================================================
# restriction to the selected conditions, with multiplicity
# =====================================================================================================
_FITTER_MODEL = dict(fit_regress='ModelWeighted', fit_regress_nn='ModelWeighted', fit_optimize='ModelWeighted',
                     fit_optimize_positive='ModelWeighted', fit_select='ModelSelect', fit_interpolate='ModelInterpolate')


@oracle('C08/restriction')
def orc_restriction(case):
    import rsatoolbox.model as M
    pb = _problem(case)
    fit_name = case['fitter']
    cls = getattr(M, _FITTER_MODEL[fit_name])
    n_all, S = pb['n_all'], pb['S']
    data = _rdms(pb['train_vecs'], [pb['labels'][s] for s in S])
    kw = _fit_kwargs(case, pb)
    seed = case['seed']
    th1 = np.asarray(_call_fit(fit_name, cls('m', _rdms(pb['basis'], pb['labels'])), data, kw, 'direct', seed), dtype=float)
    # (1) overwrite every pair that involves an unselected condition
    sel = set(S)
    other = pb['basis'].copy()
    n_changed = 0
    for p, (a, b) in enumerate(_pairs(n_all)):
        if a not in sel or b not in sel:
            other[:, p] = 1000.0 + 7 * p + np.arange(other.shape[0])
            n_changed += 1
    if n_changed:
        th2 = np.asarray(_call_fit(fit_name, cls('m', _rdms(other, pb['labels'])), data, kw, 'direct', seed), dtype=float)
        if not close(th2, th1, 1e-9):
            return (f'{fit_name}: changing the basis RDMs only at unselected conditions changed the fit: {_fmt(th1)} -> '
                    f'{_fmt(th2)} (pattern_idx {pb["values"]})')
    # (2) the model built explicitly on the selected conditions (with multiplicity), fitted without pattern indices
    kw3 = {a: v for a, v in kw.items() if a not in ('pattern_idx', 'pattern_descriptor')}
    m3 = cls('m', _rdms(pb['sel_basis_vecs'], [pb['labels'][s] for s in S]))
    th3 = np.asarray(_call_fit(fit_name, m3, data, kw3, 'direct', seed), dtype=float)
    # the closed forms must agree to 1e-9; the BFGS-based fitters amplify last-bit differences between the two evaluation
    # orders up to the accuracy of their stopping rule (a fit that used other conditions / multiplicities differs by >1e-2)
    if not close(th3, th1, 1e-4 if fit_name.startswith('fit_optimize') else 1e-9):
        return (f'{fit_name}: fit with pattern_idx {pb["values"]} is {_fmt(th1)} but the fit of the model restricted to these '
                f'conditions (with their multiplicity) is {_fmt(th3)}')
    # (3) the order in which the conditions are named does not matter
    if pb['values'] is not None and len(pb['values']) > 1:
        kw4 = dict(kw)
        kw4['pattern_idx'] = np.array(pb['values'][1:] + pb['values'][:1])
        th4 = np.asarray(_call_fit(fit_name, cls('m', _rdms(pb['basis'], pb['labels'])), data, kw4, 'direct', seed), dtype=float)
        if not close(th4, th1, 1e-9):
            return f'{fit_name}: rotating the list of pattern indices changed the fit: {_fmt(th1)} -> {_fmt(th4)}'
    return None


# =====================================================================================================
# call sequences, untouched inputs, permutation relations; a new interpreter
# =====================================================================================================
def _theta_score(crit, X, theta, fit_name):
    """spec score of a fitter's result (index for fit_select; the all-zero weights score 0 by the library's convention)"""
    if fit_name == 'fit_select':
        return crit.score(X[int(theta)])
    theta = np.asarray(theta, dtype=float)
    return crit.score(theta @ X) if np.any(theta != 0) else 0.0


def _same(a, b):
    a, b = np.asarray(a), np.asarray(b)
    return a.shape == b.shape and a.dtype == b.dtype and bool(np.array_equal(a, b, equal_nan=a.dtype.kind == 'f'))


@oracle('C08/sequence')
def orc_sequence(case):
    """What the optimality statement implies for SEQUENCES of calls: the fit is a function of its arguments (the same call
    again returns the same parameters -- with numpy's generator seeded alike for the fitters that draw starting points --, also
    after fits of other data of the same shape or of another model of the same shape; an earlier result is never better for
    the later problem than the later result), the arguments are left as they were, results held by the caller are not
    changed by later calls; and for PERMUTATIONS: listing the basis RDMs in the opposite order gives the weights in the
    opposite order (closed forms; for the iterative fitters, the selection and the interpolation model: a result of the same
    score), listing the training RDMs in another order changes nothing.  case['desc'] must not be 'cond' (labels independent
    of the seed)."""
    fit_name = case['fitter']
    cls_name = _FITTER_MODEL[fit_name]
    closed = fit_name in ('fit_regress', 'fit_regress_nn')
    pbA = _problem(case)
    pbB = _problem(dict(case, seed=case['seed'] + 1))       # same shapes, labels and selection, other content
    if pbA['labels'] != pbB['labels'] or pbA['S'] != pbB['S']:
        raise ValueError('the case must not draw its labels from the seed')
    model, model2 = _model(cls_name, case, pbA), _model(cls_name, case, pbB)
    dataA, dataB = _train(case, pbA), _train(case, pbB)
    kw = _fit_kwargs(case, pbA)
    via = case.get('via', 'direct')

    def fit(mdl, dat, kw_=kw):
        return _call_fit(fit_name, mdl, dat, kw_, via, case['seed'], 20)

    def snapshot():
        out = dict(model=np.array(model.rdm_obj.dissimilarities, copy=True), model_rdm=np.array(model.rdm, copy=True),
                   data=np.array(dataA.dissimilarities, copy=True),
                   model_desc={a: list(np.asarray(v).tolist()) for a, v in model.rdm_obj.pattern_descriptors.items()},
                   data_desc={a: list(np.asarray(v).tolist()) for a, v in dataA.pattern_descriptors.items()})
        if 'sigma_k' in kw:
            out['sigma_k'] = np.array(kw['sigma_k'], copy=True)
        if 'pattern_idx' in kw:
            out['pattern_idx'] = (type(kw['pattern_idx']).__name__, list(np.asarray(kw['pattern_idx']).tolist()))
        return out

    def changed(before):
        now = snapshot()
        for a in before:
            same = _same(before[a], now[a]) if isinstance(before[a], np.ndarray) else before[a] == now[a]
            if not same:
                return a
        return None
    before = snapshot()
    th1 = fit(model, dataA)
    held = np.array(th1, copy=True)
    a = changed(before)
    if a:
        return f'{fit_name} changed its argument {a}'
    th1b = fit(model, dataA)
    if not _same(th1b, held):
        return f'{fit_name}: the same call twice returned {_fmt(held)} and then {_fmt(th1b)}'
    thB = fit(model, dataB)
    thM = fit(model2, dataA)
    # a result does not depend on what the same objects were used for before: freshly built objects give the same numbers
    for what, th_seq, th_fresh in (('other training data', thB, fit(_model(cls_name, case, pbA), _train(case, pbB))),
                                   ('another model', thM, fit(_model(cls_name, case, pbB), _train(case, pbA)))):
        if not _same(th_seq, th_fresh):
            return (f'{fit_name}: called with {what} of the same shape after an earlier fit it returns {_fmt(th_seq)}, with freshly '
                    f'built objects {_fmt(th_fresh)}')
    if not _same(th1, held):
        return (f'{fit_name}: the result held by the caller changed from {_fmt(held)} to {_fmt(th1)} when the fitter was called '
                f'again with other data / another model')
    th1c = fit(model, dataA)
    if not _same(th1c, held):
        return (f'{fit_name}: after fits of other data and of another model (same shapes) the first call returns {_fmt(th1c)} '
                f'instead of {_fmt(held)}')
    a = changed(before)
    if a:
        return f'{fit_name} changed its argument {a}'
    method = case['method']
    critA = _Crit(method, pbA['Y'], pbA['V'])
    if fit_name != 'fit_optimize':
        # (fit_optimize on arbitrary problems is the known finding F3 of the plain domain)
        critB = _Crit(method, pbB['Y'], pbA['V'])           # the sigma_k of the call is the one of problem A
        for what, crit, X, th_new in (('other training data', critB, pbA['X'], thB), ('another model', critA, pbB['X'], thM)):
            s_new, s_old = _theta_score(crit, X, th_new, fit_name), _theta_score(crit, X, held, fit_name)
            if not s_new >= s_old - TOL:
                return (f'{fit_name}({method}) called with {what} of the same shape returned {_fmt(th_new)} (mean similarity '
                        f'{s_new:.9f}); the result of the EARLIER call, {_fmt(held)}, reaches {s_old:.9f} there')
            if fit_name != 'fit_interpolate':
                # ... and it is the optimum of the LATER problem (independently computed; for fit_interpolate the plain domain
                # has the known finding F6 on arbitrary chains)
                if fit_name == 'fit_select':
                    s_best = max(crit.score(x) for x in X)
                else:
                    o = crit.optimum(X, fit_name in ('fit_regress_nn', 'fit_optimize_positive'))
                    s_best = _theta_score(crit, X, o, fit_name)
                if not s_new >= s_best - TOL:
                    return (f'{fit_name}({method}) called with {what} of the same shape after an earlier fit returned {_fmt(th_new)} '
                            f'(mean similarity {s_new:.9f}); the independently computed optimum reaches {s_best:.9f}')
    # ---- permutations ----
    s1 = _theta_score(critA, pbA['X'], held, fit_name)
    k = case['k']
    if k > 1:
        rev = dict(pbA, basis=pbA['basis'][::-1].copy())
        th_r = fit(_model(cls_name, case, rev), dataA)
        if closed:
            if not close(np.asarray(th_r, dtype=float)[::-1], held, 1e-7):
                return (f'{fit_name}({method}): with the basis RDMs listed in the opposite order the weights are {_fmt(th_r)}, '
                        f'expected the reverse of {_fmt(held)}')
        else:
            back = k - 1 - int(th_r) if fit_name == 'fit_select' else np.asarray(th_r, dtype=float)[::-1]
            s_r = _theta_score(critA, pbA['X'], back, fit_name)
            if abs(s_r - s1) > TOL:
                return (f'{fit_name}({method}): with the basis RDMs listed in the opposite order the result {_fmt(th_r)} reaches mean '
                        f'similarity {s_r:.9f}, in the original order {_fmt(held)} reaches {s1:.9f}')
    if case['n_train'] > 1:
        from rsatoolbox.rdm import RDMs
        data_r = RDMs(np.array(dataA.dissimilarities[::-1], copy=True),
                      pattern_descriptors={'cond': list(dataA.pattern_descriptors['cond'])})
        th_t = fit(model, data_r)
        if closed:
            ok = close(th_t, held, 1e-9)
        else:
            ok = abs(_theta_score(critA, pbA['X'], th_t, fit_name) - s1) <= TOL
        if not ok:
            return (f'{fit_name}({method}): with the training RDMs listed in the opposite order the result is {_fmt(th_t)} instead '
                    f'of {_fmt(held)}')
    return None


def _xproc_child():
    """child interpreter: fits and predictions of a string-labelled problem, printed with full precision"""
    import json
    import sys
    import warnings
    warnings.simplefilter('ignore')
    case = json.loads(sys.argv[1])
    print('XPROC ' + json.dumps(_xproc_battery(case)))


def _xproc_battery(case):
    from rsatoolbox.model import model_from_dict
    out = {}
    pb = _problem(case)
    kw = _fit_kwargs(case, pb)
    for fit_name, cls_name in _FITTER_MODEL.items():
        if fit_name == 'fit_interpolate' and case['k'] < 2:
            continue
        model = _model(cls_name, case, pb)
        try:
            th = _call_fit(fit_name, model, _train(case, pb), kw, 'direct', case['seed'], 20)
            out[fit_name] = [float(v).hex() for v in np.atleast_1d(np.asarray(th, dtype=float))]
            arg = int(th) if fit_name == 'fit_select' else np.asarray(th)
            rebuilt = model_from_dict(model.to_dict())
            pr = rebuilt.predict_rdm(arg)
            out[fit_name + '/prediction'] = [float(v).hex() for v in pr.dissimilarities[0]]
            out[fit_name + '/descriptors'] = {a: [str(x) for x in np.asarray(v).tolist()] for a, v in pr.pattern_descriptors.items()}
        except Exception as e:                                           # noqa: BLE001
            out[fit_name] = f'EXC {type(e).__name__}: {str(e)[:80]}'
    return out


@oracle('C08/cross-process')
def orc_cross_process(case):
    """the fitted parameters and the predictions of the fitted (dictionary-rebuilt) models are functions of the inputs: new
    interpreters started with other PYTHONHASHSEED values return bit for bit what this interpreter returns"""
    import json
    import os
    import subprocess
    import sys
    sub = {a: v for a, v in case.items() if a != 'hash_seeds'}
    here = _xproc_battery(sub)
    root = os.path.dirname(os.path.dirname(os.path.abspath(__file__)))
    procs = []
    for hs in case['hash_seeds']:
        env = dict(os.environ, PYTHONHASHSEED=str(hs), MPLBACKEND='Agg',
                   PYTHONPATH=os.pathsep.join([q for q in sys.path if q]))
        procs.append(subprocess.Popen([sys.executable, '-c', 'from contracts.C08_c import _xproc_child; _xproc_child()',
                                       json.dumps(sub)], env=env, stdout=subprocess.PIPE, stderr=subprocess.PIPE, text=True,
                                      cwd=root))
    for hs, pr in zip(case['hash_seeds'], procs):
        so, se = pr.communicate(timeout=600)
        line = [ln for ln in so.splitlines() if ln.startswith('XPROC ')]
        if not line:
            raise RuntimeError('child interpreter failed: ' + (se or so)[-300:])
        there = json.loads(line[-1][6:])
        for a in here:
            if there.get(a) != here[a]:
                return (f'{a}: an interpreter started with PYTHONHASHSEED={hs} returns {str(there.get(a))[:200]}, this one '
                        f'{str(here[a])[:200]}')
    return None


# =====================================================================================================
# predictions
# =====================================================================================================
def _desc_equal(got, want):
    if set(got.keys()) != set(want.keys()):
        return False
    return all(list(np.asarray(got[a]).tolist()) == list(np.asarray(want[a]).tolist()) for a in want)


def _build_model_arg(cls_name, ctor, vecs, n, labels, name='m', dtype=None):
    """-> (model, the array / RDMs object it was built from)"""
    import rsatoolbox.model as M
    cls = getattr(M, cls_name)
    vecs = np.asarray(vecs, dtype=float)
    if cls_name == 'ModelFixed' and ctor != 'rdms':
        arg = vecs[0].copy() if ctor == 'vectors' else _mat_from_vec(vecs[0], n)
    elif ctor == 'rdms':
        arg = _rdms(vecs.copy(), labels, dtype)
    elif ctor == 'vectors':
        arg = vecs.copy()
    else:
        arg = np.array([_mat_from_vec(v, n) for v in vecs])
    if dtype is not None and isinstance(arg, np.ndarray):
        arg = arg.astype(dtype)
    return cls(name, arg), arg


def _build_model(cls_name, ctor, vecs, n, labels, name='m'):
    return _build_model_arg(cls_name, ctor, vecs, n, labels, name)[0]


def _reordered(d):
    """the same dictionary with the keys of every level in the opposite order"""
    if isinstance(d, dict):
        return {a: _reordered(d[a]) for a in reversed(list(d.keys()))}
    return d


@oracle('C08/predict')
def orc_predict(case):
    """optional keys of the dimension sweeps: dtype (whole-number basis RDMs handed over in that dtype), bscale (units of the
    basis RDMs), labels='str' (string condition labels)"""
    from rsatoolbox.rdm import RDMs
    from rsatoolbox.model import model_from_dict
    rs = np.random.RandomState(case['seed'])
    cls_name, ctor, k, n = case['cls'], case['ctor'], case['k'], case['n']
    nd = n * (n - 1) // 2
    vecs = 1.0 + np.arange(k * nd).reshape(k, nd) + rs.rand(k, nd)        # distinct sentinels
    labels = [10 + 3 * int(c) for c in rs.permutation(n)]
    sweep = any(a in case for a in ('dtype', 'bscale', 'labels'))
    if case.get('dtype'):
        vecs = np.floor(vecs)                                             # distinct whole numbers 1 .. k * nd <= 60
    unit = float(case.get('bscale', 1.0))                                 # comparisons are made in this unit
    vecs = vecs * unit
    if case.get('labels') == 'str':
        labels = [_NAMES[(c - 10) // 3] for c in labels]

    def cl(a, b, tol):
        return close(np.asarray(a, dtype=float) / unit, np.asarray(b, dtype=float) / unit, tol)
    model, ctor_arg = _build_model_arg(cls_name, ctor, vecs, n, labels, name='model-%d' % case['seed'], dtype=case.get('dtype'))
    ctor_vals = np.array(ctor_arg.dissimilarities if isinstance(ctor_arg, RDMs) else ctor_arg, copy=True)
    want_desc = {'index': list(range(n))}
    if ctor == 'rdms':
        want_desc['cond'] = labels
    tk = case['theta']
    if cls_name == 'ModelFixed':
        thetas = [None] if tk == 'default' else [rs.randn(2)]
        spec = lambda th: vecs.mean(axis=0)
    elif cls_name == 'ModelSelect':
        thetas = [None] if tk == 'default' else list(range(k))
        spec = lambda th: vecs[0 if th is None else th]
    else:
        if tk == 'default':
            thetas = [None]
        elif tk == 'nonneg':
            thetas = [rs.rand(k), np.eye(k)[k - 1]]
        elif tk == 'convex':
            t = np.zeros(k)
            j = case['seed'] % (k - 1)
            t[j], t[j + 1] = 0.3, 0.7
            thetas = [t, np.eye(k)[0]]
        else:
            t = rs.randn(k)
            t[case['seed'] % k] = -abs(t[case['seed'] % k]) - 0.1
            thetas = [t, -np.ones(k)]
        if cls_name == 'ModelWeighted':
            spec = lambda th: (np.ones(k) if th is None else np.asarray(th, dtype=float)) @ vecs
        else:
            spec = lambda th: np.asarray(th, dtype=float) @ vecs
    rebuilt = model_from_dict(model.to_dict())
    if type(rebuilt) is not type(model):
        return f'model_from_dict(to_dict()) is a {type(rebuilt).__name__}, the model a {type(model).__name__}'
    if rebuilt.name != model.name:
        return f'model_from_dict(to_dict()) has name {rebuilt.name!r}, the model {model.name!r}'
    # the order of the entries of the dictionary (e.g. after a round trip through a file) carries no information
    shuffled = model_from_dict(_reordered(model.to_dict()))
    for th in thetas:
        tdesc = 'default theta' if th is None else f'theta={_fmt(th) if not isinstance(th, int) else th}'
        for mname, m in (('model', model), ('model rebuilt from its dict', rebuilt),
                         ('model rebuilt from its dict with the entries in the opposite order', shuffled)):
            args = () if th is None else (th if isinstance(th, int) else np.array(th),)
            pv = np.asarray(m.predict(*args), dtype=float)
            pr = m.predict_rdm(*args)
            if not isinstance(pr, RDMs):
                return f'{mname}: predict_rdm returned a {type(pr).__name__}'
            if pv.ndim != 1 or pv.shape[0] != nd:
                return f'{mname}: predict({tdesc}) has shape {pv.shape}, expected ({nd},)'
            if pr.n_rdm != 1 or pr.dissimilarities.shape != (1, nd):
                return (f'{mname}: predict_rdm({tdesc}) holds {pr.n_rdm} RDMs (shape {pr.dissimilarities.shape}) while predict '
                        f'returns one vector')
            if not cl(pr.dissimilarities[0], pv, 1e-12):
                return (f'{mname}: predict and predict_rdm disagree for {tdesc}: predict[:3]={_fmt(pv[:3] / unit)}, '
                        f'predict_rdm[:3]={_fmt(pr.dissimilarities[0][:3] / unit)}' + (f' (in units of {unit:g})' if unit != 1 else ''))
            if not (cls_name == 'ModelInterpolate' and th is None):
                want = spec(th)
                if not cl(pv, want, 1e-12):
                    return (f'{mname}: predict({tdesc})[:3]={_fmt(pv[:3] / unit)}, expected the weighted sum {_fmt(want[:3] / unit)}'
                            + (f' (in units of {unit:g})' if unit != 1 else ''))
            if not _desc_equal(pr.pattern_descriptors, want_desc):
                return (f'{mname}: predict_rdm({tdesc}) carries pattern descriptors {dict(pr.pattern_descriptors)}, '
                        f'expected {want_desc}')
            if th is not None and not isinstance(th, int) and cls_name in ('ModelWeighted', 'ModelInterpolate'):
                # same parameters given as a list / as a tuple
                for cont in (list, tuple):
                    if not cl(np.asarray(m.predict(cont(th)), dtype=float), pv, 1e-12):
                        return f'{mname}: predict differs between {cont.__name__} and array {tdesc}'
                    if not cl(m.predict_rdm(cont(th)).dissimilarities[0], pv, 1e-12):
                        return f'{mname}: predict_rdm differs between {cont.__name__} and array {tdesc}'
            if isinstance(th, int):
                # the index of a selection model as a numpy integer (what fit_select returns)
                if not cl(np.asarray(m.predict(np.int64(th)), dtype=float), pv, 0) \
                        or not cl(m.predict_rdm(np.int64(th)).dissimilarities[0], pv, 1e-12):
                    return f'{mname}: predictions differ between theta={th} given as int and as numpy.int64'
            if th is not None and not isinstance(th, int):
                # the same call again gives the same numbers, and the caller's parameter array is left as it was
                a = np.array(th)
                keep = a.copy()
                p1 = np.array(m.predict(a), dtype=float)
                r1 = np.array(m.predict_rdm(a).dissimilarities[0], dtype=float)
                if not np.array_equal(a, keep):
                    return f'{mname}: predict / predict_rdm changed the parameter array they were given: {_fmt(keep)} -> {_fmt(a)}'
                if not np.array_equal(p1, pv) or not np.array_equal(r1, np.asarray(pr.dissimilarities[0], dtype=float)):
                    return f'{mname}: the same prediction call twice gave different numbers for {tdesc}'
    # predictions held by the caller stay what they were when the model predicts again with other parameters
    held = []
    for th in thetas:
        if th is None:
            continue
        args = (th if isinstance(th, int) else np.array(th),)
        pvh = model.predict(*args)
        held.append((th, model.predict_rdm(*args), pvh, np.asarray(pvh, dtype=float).copy()))
    for th, pr, pvh, pv in held:
        if not cl(pr.dissimilarities[0], pv, 1e-12):
            return (f'the RDMs object returned by predict_rdm(theta={_fmt(th) if not isinstance(th, int) else th}) changed when the '
                    f'model predicted again with other parameters: now {_fmt(pr.dissimilarities[0][:3])}, was {_fmt(pv[:3])}')
        if not np.array_equal(np.asarray(pvh, dtype=float), pv):
            return (f'the vector returned by predict(theta={_fmt(th) if not isinstance(th, int) else th}) changed when the '
                    f'model predicted again with other parameters: now {_fmt(np.asarray(pvh)[:3])}, was {_fmt(pv[:3])}')
    if cls_name in ('ModelWeighted', 'ModelInterpolate') and tk != 'default':
        t1, t2 = (rs.rand(k), rs.rand(k)) if tk in ('nonneg', 'convex') else (rs.randn(k), rs.randn(k))
        a, b = (0.25, 1.5) if tk in ('nonneg', 'convex') else (-0.75, 2.0)
        for fn_name, fn in (('predict', lambda t: np.asarray(model.predict(t), dtype=float)),
                            ('predict_rdm', lambda t: model.predict_rdm(t).dissimilarities[0])):
            lhs = fn(a * t1 + b * t2)
            rhs = a * fn(t1) + b * fn(t2)
            if not cl(lhs, rhs, 1e-11):
                return (f'{fn_name} is not linear in the weights: f({a}*t1+{b}*t2)[:3]={_fmt(lhs[:3])} but '
                        f'{a}*f(t1)+{b}*f(t2)[:3]={_fmt(rhs[:3])} (t1={_fmt(t1)}, t2={_fmt(t2)})')
            if sweep and tk == 'signed':
                # whole-number weights given as an integer array (with integer-typed basis RDMs nothing is a float)
                ti = np.array([(-2, 3, 1, -1)[j % 4] for j in range(k)])
                if not cl(fn(ti), fn(ti.astype(float)), 1e-12) or not cl(fn(ti), ti.astype(float) @ vecs, 1e-12):
                    return (f'{fn_name} with the integer-typed weights {ti.tolist()}: [:3]={_fmt(fn(ti)[:3] / unit)}, with the same '
                            f'weights as floats {_fmt(fn(ti.astype(float))[:3] / unit)}, expected {_fmt((ti.astype(float) @ vecs)[:3] / unit)}')
    # the array / RDMs object the model was built from is left as it was
    now = np.asarray(ctor_arg.dissimilarities if isinstance(ctor_arg, RDMs) else ctor_arg)
    if now.dtype != ctor_vals.dtype or not np.array_equal(now, ctor_vals):
        return 'predicting changed the array the model was built from'
    return None


# =====================================================================================================
# argument forwarding of Model.fit and Fitter
# =====================================================================================================
@oracle('C08/forwarding')
def orc_forwarding(case):
    import rsatoolbox.model as M
    from rsatoolbox.model.fitter import Fitter
    rs = np.random.RandomState(case['seed'])
    n, k = 5, 3
    nd = n * (n - 1) // 2
    vecs = rs.rand(k, nd)
    data = _rdms(rs.rand(2, nd), list(range(n)))
    sigma = np.eye(n) + 0.1
    pidx = np.array([0, 2, 2, 4, 1])
    calls = []

    def rec(*args, **kwargs):
        calls.append((args, kwargs))
        return 'token-%d' % case['seed']

    if case['what'] == 'Fitter':
        fixed = dict(method='corr_cov', sigma_k=sigma, ridge_weight=0.5)
        model = M.ModelWeighted('w', _rdms(vecs, list(range(n))))
        out = Fitter(rec, **fixed)(model, data, pattern_idx=pidx, pattern_descriptor='cond')
        if out != 'token-%d' % case['seed']:
            return f'Fitter did not return the value of the fitting function: {out!r}'
        if len(calls) != 1:
            return f'Fitter called the fitting function {len(calls)} times'
        args, kwargs = calls[0]
        if len(args) != 2 or args[0] is not model or args[1] is not data:
            return 'Fitter did not pass (model, data) positionally'
        want = dict(fixed, pattern_idx=pidx, pattern_descriptor='cond')
        if set(kwargs) != set(want):
            return f'Fitter passed the keyword arguments {sorted(kwargs)}, expected {sorted(want)}'
        for a in want:
            if not (kwargs[a] is want[a] or (not isinstance(want[a], np.ndarray) and kwargs[a] == want[a])):
                return f'Fitter passed {a}={kwargs[a]!r} instead of {want[a]!r}'
        calls.clear()
        out = Fitter(rec, method='corr')(model, data, 'cosine_x', pidx)
        args, kwargs = calls[0]
        if len(args) != 4 or args[2] != 'cosine_x' or args[3] is not pidx or kwargs != dict(method='corr'):
            return 'Fitter did not forward extra positional arguments / stored keyword arguments'
        return None
    cls = getattr(M, case['what'])
    model = cls('m', _rdms(vecs[:1] if case['what'] == 'ModelFixed' else vecs, list(range(n))))
    model.default_fitter = rec
    out = model.fit(data, method='corr_cov', pattern_idx=pidx, pattern_descriptor='cond', sigma_k=sigma)
    if out != 'token-%d' % case['seed'] or len(calls) != 1:
        return f'{case["what"]}.fit did not return the value of one call of its fitter ({out!r}, {len(calls)} calls)'
    args, kwargs = calls[0]
    got = dict(kwargs)
    names = ('model', 'data', 'method', 'pattern_idx', 'pattern_descriptor', 'sigma_k')
    for a, v in zip(names, args):
        got[a] = v
    want = dict(model=model, data=data, method='corr_cov', pattern_idx=pidx, pattern_descriptor='cond', sigma_k=sigma)
    for a in want:
        if a not in got:
            return f'{case["what"]}.fit did not pass {a} to the fitter'
        same = got[a] is want[a] or (isinstance(want[a], str) and got[a] == want[a])
        if not same:
            return f'{case["what"]}.fit passed {a}={got[a]!r} instead of {want[a]!r}'
    if set(got) != set(want):
        return f'{case["what"]}.fit passed unexpected arguments {sorted(set(got) - set(want))}'
    return None


# =====================================================================================================
# domains
# =====================================================================================================
def _sigma_class(case):
    if case.get('sigma', 'none') == 'none':
        return 'sigma_k-none'
    return 'sigma_k-given,' + ('multi-train' if case['n_train'] > 1 else 'single-train')


def _optimum_sign_class(case):
    """whether (by the spec) the unconstrained maximiser of the criterion has a negative weight"""
    pb = _problem(case)
    o = _Crit(case['method'], pb['Y'], pb['V']).optimum(pb['X'], False)
    return 'optimum-with-negative-weight' if np.any(o < 0) else 'optimum-nonnegative'


_SELECTIONS = {
    # n_all -> pattern selections (condition numbers; None = all conditions, no pattern_idx)
    5: [None, [0, 1, 2, 3, 4], [3, 0, 1, 4], [0, 1, 1, 3, 4], [4, 4, 2, 0, 1, 2]],
    6: [None, [0, 1, 1, 3, 4, 4], [5, 2, 0, 3, 1], [0, 0, 2, 3, 4, 5], [2, 5, 5, 5, 1, 0, 3]],
    8: [None, [7, 0, 3, 3, 5, 1, 6, 6], [1, 2, 4, 5, 6, 7], [0, 0, 0, 2, 4, 6, 7, 7]],
}


def _weighted_cases(thorough, fit_name):
    """cases for one weighted-sum fitter.  The BFGS-based fitters are slow when sigma_k is given (an iterative solve per
    evaluation) and fit_optimize also when its iterates run away, hence their smaller lists; no time budgets are used, so
    the case lists (and the results) are deterministic."""
    bfgs = fit_name.startswith('fit_optimize')
    cases = []
    for seed in range(1 if (not thorough or fit_name == 'fit_optimize') else 3):
        for method in METHODS:
            for n_all in ((5, 6, 8) if thorough else (5, 6)):
                for si, pidx in enumerate(_SELECTIONS[n_all]):
                    for k in ((2, 3, 4) if thorough else (2, 3)):
                        if not thorough and (si + k + n_all) % 2:
                            continue
                        kind = ('random', 'mix', 'posmix')[(si + k + seed + n_all) % 3]
                        if not thorough and fit_name == 'fit_optimize' and kind == 'mix' and (si + k) % 4 > 1:
                            continue
                        desc = ('index', 'cond')[(si + seed + n_all) % 2]
                        n_train = (1, 3, 4)[(si + k) % 3]
                        cases.append(dict(seed=1000 * seed + 37 * si + k, k=k, n_all=n_all, pidx=pidx, desc=desc, kind=kind,
                                          method=method, n_train=n_train, sigma='none',
                                          via=('direct', 'direct', 'Fitter')[(si + k + seed) % 3]))
    # given sigma_k (whitened criteria only): one and several training RDMs
    for seed in range(1 if (not thorough or bfgs) else 3):
        for method in ('cosine_cov', 'corr_cov'):
            for n_all, sis in ((5, (0, 3)), (6, (1, 2))):
                for si in sis:
                    for n_train in (1, 3):
                        for sigma in (('full', 'diag') if (thorough and not bfgs) else ('full',)):
                            for k in ((2,) if (bfgs and not thorough) else (2, 3)):
                                if bfgs and not thorough and n_all != 5:
                                    continue
                                cases.append(dict(seed=5000 + 1000 * seed + 37 * si + k + n_train, k=k, n_all=n_all,
                                                  pidx=_SELECTIONS[n_all][si], desc='index',
                                                  kind=('mix', 'random', 'posmix')[(si + k + n_train) % 3],
                                                  method=method, n_train=n_train, sigma=sigma, via='direct'))
    return cases


# =====================================================================================================
# dimension sweeps: typed data, units, containers, grouped descriptors, sizes  (cases for every fitter)
# =====================================================================================================
_GROUPS = {      # position -> group: values repeat, are interleaved, unbalanced, and first appear in non-sorted order
    6: [2, 0, 2, 1, 0, 2],
    7: [1, 3, 0, 3, 3, 1, 0],
    9: [4, 1, 1, 0, 4, 2, 4, 0, 4],
}
_GROUP_SELECTIONS = {6: [[0, 2], [2, 2, 1], [1, 0, 0, 2]], 7: [[3, 0], [0, 1, 1, 3]], 9: [[4, 0, 2], [2, 1, 1, 0, 0]]}
_SCALES = (1e-20, 1e12, 1e-12, 1e6, 1e-6, 1e2)

# Classes of the sweeps that FAIL on the unchanged tree (genuine defects, reported to the main session; mechanisms in the
# module docstring): not registered until it has been decided whether they are repaired or recorded as known findings.
_TINY_UNITS = tuple('units,%s-x%s' % (w, sc) for sc in ('1e-20', '1e-12') for w in ('basis', 'training', 'basis-and-training'))
_PENDING_TRIAGE = {
    # cg(..., atol=1e-9) in fit_regress / pool_rdm; integer overflow in the dtype of the input
    'fit_regress': _TINY_UNITS + ('typed-data,uint8', 'typed-data,int16,values-to-111'),
    # the same, the absolute threshold `np.max(w) > 100 * eps` of the active-set loop (tiny units: all-zero weights; large
    # numbers: the loop never ends)
    'fit_regress_nn': _TINY_UNITS + ('typed-data,uint8', 'typed-data,int16,values-to-111', 'units,basis-x1e+12',
                                     'units,basis-and-training-x1e+12', 'units,basis-x1e+06', 'units,sigma_k-x1e-06'),
}
SWEEP_NOTE = ('; dimension sweeps on positive problems: whole numbers as int64/int32/int16/uint8/float32 arrays, units x1e-20 .. '
              'x1e+12 of basis / training RDMs / sigma_k, pattern_idx as list/tuple/array, str labels, model built from plain '
              'vectors, a descriptor with repeated interleaved values (groups), 1 basis RDM, 3 conditions, 10-12 conditions')


def _sweep_cases(thorough, fit_name):
    """-> list of (input class, case) along the dimensions the plain domains do not vary.  Every problem is a positive
    mixture / random problem (whole numbers need non-negative RDMs); for fit_optimize only problems whose unconstrained
    maximiser is non-negative and for fit_interpolate only chains whose best mixture lies inside a segment are used (the other
    classes are known findings F3 / F6 of the plain domains and would only repeat them under another name).  The quick list is
    a sub-list of the thorough one (one method per problem instead of four; for the iterative fitters two, and every other
    problem in the quick run)."""
    slow = fit_name.startswith('fit_optimize')
    out = []
    count = [0]

    def add(ic, **kw):
        i = count[0]
        count[0] += 1
        if slow and not thorough and i % 2:
            return          # quick run: every other problem for the iterative fitters
        if 'method' in kw:
            methods = (kw.pop('method'),)
        elif not thorough:
            methods = (METHODS[i % 4],)
        elif slow:
            methods = (METHODS[i % 4], METHODS[(i + 2) % 4])
        else:
            methods = METHODS[i % 4:] + METHODS[:i % 4]
        for method in methods:
            case = dict(seed=8000 + 13 * i, k=(2, 3)[i % 2], n_all=(6, 5)[(i // 2) % 2], pidx=None, desc='index',
                        kind=('posmix', 'random')[(i // 3) % 2] if not slow else 'posmix', method=method,
                        n_train=(3, 1, 4)[i % 3], sigma='none', via='direct')
            case.update(kw)
            for _ in range(6):     # deterministic search for a problem of the wanted plain class
                if fit_name == 'fit_optimize' and _optimum_sign_class(case) != 'optimum-nonnegative':
                    case['seed'] += 1000
                elif fit_name == 'fit_interpolate' and _interp_optimum_kind(case) != 'optimum-inside-segment':
                    case['seed'] += 1000
                else:
                    out.append((ic, case))
                    break

    # ---- typed data: whole numbers handed over as int64 / int32 / int16 / uint8 / float32 arrays
    for dt in _DTYPES:
        add('typed-data,' + dt, dtype=dt)
        add('typed-data,' + dt, dtype=dt, pidx=[3, 0, 1, 4])                       # subset, no repeats
        add('typed-data,' + dt, dtype=dt, pidx=[0, 1, 1, 3, 4], ctor='vectors')    # repeats: the training data hold NaN
    add('typed-data,int16,values-to-111', dtype='int16', vmax=110, method='cosine')
    add('typed-data,int16,values-to-111', dtype='int16', vmax=110, pidx=[3, 0, 1, 4], method='cosine')
    # ---- units: the same problem in units in which the numbers are tiny or huge (every criterion is invariant)
    for sc in _SCALES:
        add('units,basis-x%g' % sc, bscale=sc)
        add('units,training-x%g' % sc, tscale=sc)
        add('units,basis-x%g' % sc, bscale=sc, pidx=[0, 1, 1, 3, 4])
        add('units,training-x%g' % sc, tscale=sc, n_train=3)
        add('units,basis-and-training-x%g' % sc, bscale=sc, tscale=sc)
    if not slow:     # (the iterative fitters with a given sigma_k are the known findings F4 / F5)
        for j, sc in enumerate((1e-12, 1e12, 1e-6, 1e6)):
            for method in ('cosine_cov', 'corr_cov'):
                add('units,sigma_k-x%g' % sc, sscale=sc, sigma=('full', 'diag')[j % 2], method=method, n_train=(1, 3)[j % 2])
    # ---- containers and label types
    add('containers,pattern_idx-list', pidx=[3, 0, 1, 1, 4], pidx_as='list')
    add('containers,pattern_idx-tuple', pidx=[4, 4, 2, 0, 1], pidx_as='tuple')
    add('containers,str-labels', pidx=[3, 0, 1, 1, 4], desc='cond', labels='str')
    add('containers,str-labels', pidx=[1, 4, 2, 0], desc='cond', labels='str', pidx_as='list')
    add('containers,model-from-vectors', ctor='vectors')
    add('containers,model-from-vectors', ctor='vectors', pidx=[4, 4, 2, 0, 1, 2], pidx_as=('array', 'list')[count[0] % 2])
    # ---- a pattern descriptor whose values repeat (groups of conditions): interleaved, unbalanced, unsorted first appearance
    for n_all in (6, 7):
        for j, sel in enumerate(_GROUP_SELECTIONS[n_all]):
            add('grouped-descriptor', n_all=n_all, desc='group', groups=_GROUPS[n_all], pidx=sel,
                labels=('int', 'str')[(j + n_all) % 2], pidx_as=('array', 'list', 'tuple')[(j + n_all) % 3])
    # ---- sizes
    if _FITTER_MODEL[fit_name] != 'ModelInterpolate':
        add('sizes,single-basis-rdm', k=1, size='k=1')
        add('sizes,single-basis-rdm', k=1, size='k=1', pidx=[0, 0, 2, 3, 4], n_all=5)
        # the only basis RDM is negatively aligned with the training data: weight -1, or 0 for the non-negative fitters
        add('sizes,single-basis-rdm', k=1, size='k=1', kind='negaligned', method='corr')
        add('sizes,single-basis-rdm', k=1, size='k=1', kind='negaligned', method='corr', n_all=5, pidx=[3, 0, 1, 1, 4])
    add('sizes,3-conditions', n_all=3, k=2, size='n=3')
    add('sizes,3-conditions', n_all=5, k=2, pidx=[4, 0, 2], size='n=3')
    add('sizes,3-conditions', n_all=4, k=2, pidx=[3, 1, 1, 0], size='n=3+1')
    add('sizes,10-12-conditions', n_all=10, k=(4 if slow else 5), n_train=5, size='n=10')
    if thorough:
        add('sizes,10-12-conditions', n_all=12, k=4, pidx=[11, 0, 3, 3, 5, 1, 6, 6, 9, 10, 2], n_train=5, size='n=12')
        add('sizes,10-12-conditions', n_all=12, k=(3 if slow else 6), n_train=2, size='n=12', desc='cond')
        for j, sel in enumerate(_GROUP_SELECTIONS[9]):
            add('grouped-descriptor', n_all=9, desc='group', groups=_GROUPS[9], pidx=sel, labels=('str', 'int')[j],
                pidx_as=('tuple', 'array')[j])
    return out


def _run_sweeps(bd, orc, fit_name, thorough, function=None):
    pending = _PENDING_TRIAGE.get(fit_name, ())
    for ic, case in _sweep_cases(thorough, fit_name):
        if ic in pending:
            if True:   # repaired in /repo 7c4854cc, b503be68, 1522d760 (was pending triage): the classes listed in _PENDING_TRIAGE
                bd.check(orc, case, ic, function=function or fit_name)
            continue
        bd.check(orc, case, ic, function=function or fit_name)


def _sequence_cases(thorough, fit_name):
    slow = fit_name.startswith('fit_optimize')
    variants = [dict(), dict(pidx=[4, 0, 1, 1, 3, 4]),
                dict(desc='group', groups=_GROUPS[6], pidx=[2, 2, 1], labels='str', pidx_as='list'),
                dict(ctor='vectors', pidx=[5, 2, 0, 3, 1], pidx_as='tuple'), dict(dtype='float32'), dict(sigma='full'),
                dict(sigma='diag', pidx=[0, 0, 2, 3, 4, 5], n_train=1), dict(k=1, size='k=1')]
    out = []
    for i, v in enumerate(variants):
        if (slow and v.get('sigma')) or (fit_name == 'fit_interpolate' and v.get('k') == 1):
            continue
        if slow and not thorough and i not in (2, 4):
            continue
        for j, method in enumerate(METHODS):
            if v.get('sigma') and not method.endswith('_cov'):
                continue
            if not thorough and not v.get('sigma') and (i + j) % 2:
                continue
            if slow and (i + j) % (2 if thorough else 4):
                continue
            for seed in range(2 if thorough and not slow else 1):
                case = dict(seed=600 + 50 * seed + i, fitter=fit_name, k=(3, 2)[i % 2], n_all=6, pidx=None, desc='index', kind='posmix',
                            method=method, n_train=(3, 4, 2)[i % 3], sigma='none',
                            via=('direct', 'Fitter')[(i + j) % 2] if _FITTER_MODEL[fit_name] == 'ModelWeighted' else 'direct')
                case.update(v)
                for _ in range(6):
                    if fit_name == 'fit_optimize' and _optimum_sign_class(case) != 'optimum-nonnegative':
                        case['seed'] += 1000
                    elif fit_name == 'fit_interpolate' and _interp_optimum_kind(case) != 'optimum-inside-segment':
                        case['seed'] += 1000
                    else:
                        out.append(case)
                        break
    return out


def _restriction_sweeps(thorough, fit_name):
    slow = fit_name.startswith('fit_optimize')
    variants = [('grouped-descriptor', dict(desc='group', groups=_GROUPS[6], pidx=[2, 2, 1])),
                ('grouped-descriptor', dict(desc='group', n_all=7, groups=_GROUPS[7], pidx=[0, 1, 1, 3], labels='str', pidx_as='list')),
                ('containers', dict(desc='cond', labels='str', pidx=[3, 0, 1, 1, 4], pidx_as='tuple')),
                ('containers', dict(pidx=[5, 2, 0, 3], pidx_as='list')),
                ('sizes,3-conditions', dict(n_all=5, pidx=[4, 0, 2], size='n=3')),
                ('units', dict(bscale=1e6, tscale=1e-6, pidx=[5, 2, 0, 3, 1]))]
    out = []
    for i, (ic, v) in enumerate(variants):
        for j, method in enumerate(METHODS):
            if (j - i) % 4 and (not thorough or (slow and (j - i) % 2)):
                continue
            case = dict(seed=760 + i, fitter=fit_name, k=2 + (i + j) % 2, n_all=6, pidx=None, desc='index',
                        kind='posmix' if slow else ('random', 'posmix')[i % 2], method=method, n_train=(1, 3)[i % 2], sigma='none')
            case.update(v)
            if ic == 'sizes,3-conditions':
                case['k'] = 2
            out.append((ic, case))
    return out


def tier_c(run, thorough):
    bds = []
    # ---- weighted-sum fitters ------------------------------------------------------------------
    for orc, fit_name in ((orc_regress, 'fit_regress'), (orc_regress_nn, 'fit_regress_nn'),
                          (orc_optimize, 'fit_optimize'), (orc_optimize_positive, 'fit_optimize_positive')):
        wc = _weighted_cases(thorough, fit_name)
        n_sig = sum(c['sigma'] != 'none' for c in wc)
        bd = Bounded(run, orc.oracle_name, f'C08/{fit_name}/oracle/optimal-among-competitors',
                     '%d seeded problems: 2..%d basis RDMs on %s conditions, pattern selections none / permuted / subsets / with '
                     'repeats (<= 8 selected, descriptor index or a relabelled one), 1/3/4 training RDMs of different scale '
                     '(random, signed mixtures of the basis, positive mixtures), methods cosine, corr, cosine_cov, corr_cov, '
                     'sigma_k none / given 2-D (full%s; %d of the problems), ridge 0, normalize on+off, direct call / Fitter '
                     '/ Model.fit; competitors: 40 random directions, 45 local perturbations (scales 1e-1,1e-2,1e-3), 5-level '
                     'grid, each basis RDM alone, independent (NN)LS optimum; tolerance 1e-6 on the score'
                     % ((len(wc), 4, '5/6/8', '' if fit_name.startswith('fit_optimize') else ', diagonal', n_sig) if thorough
                        else (len(wc), 3, '5/6', '', n_sig)) + SWEEP_NOTE, function=fit_name)
        for case in wc:
            ic = _sigma_class(case)
            if fit_name == 'fit_optimize':
                ic += ',' + _optimum_sign_class(case)
            bd.check(orc, case, ic, function=fit_name)
        if fit_name in ('fit_regress_nn', 'fit_optimize_positive'):
            # training data negatively aligned with every basis RDM: the all-zero weights (similarity 0) are the optimum
            for seed in range(6 if thorough else 3):
                for method in ('cosine', 'corr'):
                    case = dict(seed=9500 + seed, k=(2, 3)[seed % 2], n_all=(5, 6)[seed % 2], pidx=None, desc='index', kind='negaligned',
                                method=method, n_train=(1, 3)[seed % 2], sigma='none', via='direct')
                    bd.check(orc, case, 'sigma_k-none,negatively-aligned-training-data', function=fit_name)
        if fit_name in ('fit_regress_nn', 'fit_optimize_positive', 'fit_regress'):
            # correlated basis RDMs, 4 regressors, all four criteria with and without sigma_k
            for seed in range((8 if thorough else 4) if fit_name != 'fit_optimize_positive' else (3 if thorough else 1)):
                for method in (METHODS if fit_name != 'fit_optimize_positive' or thorough else ('cosine',)):
                    for sig in ('none', 'full'):
                        if sig == 'full' and method in ('cosine', 'corr'):
                            continue
                        case = dict(seed=9700 + seed, k=4, n_all=6, pidx=None, desc='index', kind='correlated', method=method,
                                    n_train=(1, 3)[seed % 2], sigma=sig, via='direct')
                        # (fit_optimize_positive with a sigma_k given: the open non-convergence finding F4 -- its own classes)
                        ic = _sigma_class(case) if (fit_name == 'fit_optimize_positive' and sig != 'none') else \
                            f'sigma_k-{"given" if sig != "none" else "none"},correlated-basis'
                        bd.check(orc, case, ic, function=fit_name)
        if fit_name == 'fit_optimize':
            # the default fitter of ModelWeighted, called through Model.fit
            for seed in range(2 if thorough else 1):
                for method in METHODS:
                    case = dict(seed=9000 + seed, k=3, n_all=6, pidx=[0, 1, 1, 3, 4, 4], desc='cond', kind='posmix', method=method,
                                n_train=3, sigma='none', via='model.fit')
                    bd.check(orc, case, _sigma_class(case) + ',' + _optimum_sign_class(case), function='ModelWeighted.fit')
        _run_sweeps(bd, orc, fit_name, thorough)
        bd.done()
        bds.append(bd)
    # ---- selection -----------------------------------------------------------------------------
    bd = Bounded(run, 'C08/select', 'C08/fit_select/oracle/best-single-candidate',
                 'seeded problems: 2..5 candidate RDMs on 5/6/8 conditions, the pattern selections of the weighted domain, '
                 '1/3/4 training RDMs, 4 methods, sigma_k none / given; plus seeded problems with CLOSE candidates (perturbations of one pattern) and 3/4 heterogeneous training RDMs, sigma_k none / full / diagonal; fit_select and ModelSelect.fit' + SWEEP_NOTE, function='fit_select')
    for seed in range(3 if thorough else 1):
        for method in METHODS:
            for n_all in (5, 6, 8):
                for si, pidx in enumerate(_SELECTIONS[n_all]):
                    for k in ((2, 3, 5) if thorough else (3, 5)):
                        sigma = 'full' if (method.endswith('_cov') and (si + k) % 2 == 0) else 'none'
                        case = dict(seed=100 * seed + 11 * si + k, k=k, n_all=n_all, pidx=pidx, desc=('index', 'cond')[si % 2],
                                    kind=('random', 'mix')[k % 2], method=method, n_train=(1, 3, 4)[(si + k) % 3], sigma=sigma,
                                    via=('direct', 'model.fit')[(si + k + seed) % 2])
                        bd.check(orc_select, case, _sigma_class(case), function='fit_select')
    for seed in range(180 if thorough else 66):     # close candidates, several heterogeneous training RDMs, all criteria
        method = ('cosine_cov', 'corr_cov', 'corr_cov', 'cosine_cov', 'cosine', 'corr')[seed % 6]
        case = dict(seed=7000 + seed, k=(3, 4, 5)[seed % 3], n_all=(5, 6, 8)[(seed // 3) % 3], pidx=None, desc='index', kind='close',
                    method=method, n_train=(3, 4)[seed % 2], sigma=('full', 'diag')[(seed // 4) % 2] if method.endswith('_cov') else 'none',
                    via=('direct', 'model.fit')[seed % 2])
        bd.check(orc_select, case, _sigma_class(case) + ',close-candidates', function='fit_select')
    _run_sweeps(bd, orc_select, 'fit_select', thorough)
    bd.done()
    bds.append(bd)
    # ---- interpolation -------------------------------------------------------------------------
    bd = Bounded(run, 'C08/interpolate', 'C08/fit_interpolate/oracle/best-adjacent-mixture',
                 'seeded chains of 2..5 RDMs on 5/6/8 conditions (random, signed mixtures, and chains whose best single RDM '
                 'is not an end point of the best segment: every (segment, decoy) position), pattern selections as above, '
                 '1/3 training RDMs, 4 methods, sigma_k none / given; competitors: 41-point grid on every segment, basis RDMs '
                 'alone, local perturbations of the mixing weight; tolerance 1e-6' + SWEEP_NOTE + ' (chains whose best mixture '
                 'lies inside a segment)', function='fit_interpolate')
    for seed in range(3 if thorough else 1):
        for method in METHODS:
            for n_all in ((5, 6, 8) if thorough else (6, 8)):
                for si, pidx in enumerate(_SELECTIONS[n_all]):
                    for k in ((2, 3, 4, 5) if thorough else (2, 4)):
                        sigma = 'full' if (method.endswith('_cov') and (si + k) % 3 == 0) else 'none'
                        case = dict(seed=100 * seed + 11 * si + k, k=k, n_all=n_all, pidx=pidx, desc=('index', 'cond')[si % 2],
                                    kind=('random', 'mix')[(k + si) % 2], method=method, n_train=(1, 3)[(si + k) % 2],
                                    sigma=sigma, via=('direct', 'model.fit')[(si + k + seed) % 2])
                        bd.check(orc_interpolate, case, _interp_optimum_kind(case), function='fit_interpolate')
            for k in ((3, 4, 5) if thorough else (3, 4)):
                for seg in range(k - 1):
                    for decoy in range(k):
                        if decoy in (seg, seg + 1):
                            continue
                        for si, pidx in enumerate([None, [0, 0, 2, 3, 4, 5]]):
                            case = dict(seed=300 + 10 * seed + si, k=k, n_all=6, pidx=pidx, desc='index', kind='decoy', seg=seg,
                                        decoy=decoy, method=method, n_train=3, sigma='none',
                                        via=('direct', 'model.fit')[(seg + decoy) % 2])
                            bd.check(orc_interpolate, case, _interp_optimum_kind(case), function='fit_interpolate')
    _run_sweeps(bd, orc_interpolate, 'fit_interpolate', thorough)
    bd.done()
    bds.append(bd)
    # ---- restriction to the selected conditions ---------------------------------------------------
    bd = Bounded(run, 'C08/restriction', 'C08/fitters/oracle/only-selected-conditions',
                 'all six fitters x 4 methods x pattern selections (subsets, repeats, permuted, relabelled descriptor) on 5/6 '
                 'conditions, 2-3 basis RDMs, sigma_k none / given: sentinel overwrite of unselected conditions, explicit '
                 'restricted model, rotation of the index list; plus per fitter: a descriptor with repeated interleaved values '
                 '(groups, int / str), str labels, pattern_idx as list / tuple, 3 selected conditions, basis x1e6 with training '
                 'x1e-6', function='fit_*')
    for fit_name in _FITTER_MODEL:
        slow = fit_name.startswith('fit_optimize')
        for seed in range(2 if (thorough and not slow) else 1):
            for method in METHODS:
                for n_all in (5, 6):
                    for si, pidx in enumerate(_SELECTIONS[n_all]):
                        if pidx is None:
                            continue
                        if slow and not thorough and (si + n_all) % 2:
                            continue
                        k = 2 + (si + n_all) % 2
                        sigma = 'full' if (method.endswith('_cov') and si == 3 and not slow) else 'none'
                        if fit_name == 'fit_optimize_positive' and sigma != 'none':
                            sigma = 'none'
                        case = dict(seed=700 + 100 * seed + si, fitter=fit_name, k=k, n_all=n_all, pidx=pidx,
                                    desc=('cond', 'index')[si % 2],
                                    kind='posmix' if slow else ('random', 'mix')[si % 2], method=method,
                                    n_train=(1, 3)[si % 2], sigma=sigma)
                        bd.check(orc_restriction, case, fit_name + ',' + _sigma_class(case), function=fit_name)
        for ic, case in _restriction_sweeps(thorough, fit_name):
            bd.check(orc_restriction, case, fit_name + ',' + ic, function=fit_name)
    bd.done()
    bds.append(bd)
    # ---- call sequences and permutations ----------------------------------------------------------
    bd = Bounded(run, 'C08/sequence', 'C08/fitters/oracle/call-sequences-inputs-permutations',
                 'all six fitters on seeded positive problems (6 conditions, 1-3 basis RDMs, 2-4 training RDMs, 4 methods; '
                 'selections none / repeats / grouped str descriptor / model from vectors, float32 data, sigma_k full / diagonal): '
                 'the same call twice, again after fits of other data and of another model of the same shape, earlier result as '
                 'competitor for the later problem, arguments unchanged, held results unchanged, basis RDMs and training RDMs in '
                 'the opposite order', function='fit_*')
    for fit_name in _FITTER_MODEL:
        for case in _sequence_cases(thorough, fit_name):
            bd.check(orc_sequence, case, fit_name, function=fit_name)
    bd.done()
    bds.append(bd)
    # ---- a new interpreter ------------------------------------------------------------------------
    bd = Bounded(run, 'C08/cross-process', 'C08/fitters/oracle/same-result-in-a-new-interpreter',
                 'all six fitters and the predictions of the dictionary-rebuilt fitted models on %d string-labelled grouped '
                 'problem(s), each repeated in %d child interpreter(s) with another PYTHONHASHSEED; compared bit for bit'
                 % ((2, 2) if thorough else (1, 1)), function='fit_*')
    xcases = [dict(seed=77, k=3, n_all=7, desc='group', groups=_GROUPS[7], pidx=[0, 1, 1, 3], labels='str', pidx_as='list',
                   kind='posmix', method='corr', n_train=3, sigma='none')]
    if thorough:
        xcases.append(dict(seed=78, k=2, n_all=6, desc='cond', pidx=[3, 0, 1, 1, 4], labels='str', kind='posmix',
                           method='cosine_cov', n_train=2, sigma='none'))
    for case in xcases:
        bd.check(orc_cross_process, dict(case, hash_seeds=[31337, 1] if thorough else [31337]), 'string-descriptors',
                 function='fit_*')
    bd.done()
    bds.append(bd)
    # ---- predictions ---------------------------------------------------------------------------
    bd = Bounded(run, 'C08/predict', 'C08/Model.predict/oracle/predict-agree-linear-descriptors-dict',
                 'ModelFixed / ModelSelect / ModelWeighted / ModelInterpolate built from an RDMs object, from vectors and from '
                 'matrices; 1..4 basis RDMs on 3..6 conditions with distinct sentinel entries; theta: default, non-negative, '
                 'convex adjacent mixture, signed; to_dict/model_from_dict round trip (also with the dictionary entries in the '
                 'opposite order); parameters as array / list / tuple / integer array / numpy integer; repeated calls, held '
                 'results, untouched arguments; sweeps: whole-number basis RDMs as int64/int32/int16/uint8/float32, units x1e-20 '
                 '.. x1e+12, str labels', function='Model.predict')
    for seed in range(3 if thorough else 1):
        for ctor in ('rdms', 'vectors', 'matrices'):
            for n in ((3, 4, 6) if thorough else (4, 5)):
                for th in ('default', 'given'):
                    bd.check(orc_predict, dict(seed=seed, cls='ModelFixed', ctor=ctor, k=1, n=n, theta=th), 'fixed',
                             function='ModelFixed.predict')
                for k in (2, 4):
                    for th in ('default', 'given'):
                        bd.check(orc_predict, dict(seed=seed, cls='ModelSelect', ctor=ctor, k=k, n=n, theta=th), 'select',
                                 function='ModelSelect.predict')
                    for th in ('default', 'nonneg', 'signed'):
                        bd.check(orc_predict, dict(seed=seed, cls='ModelWeighted', ctor=ctor, k=k, n=n, theta=th),
                                 'weighted,theta-' + th, function='ModelWeighted.predict')
                    for th in ('default', 'nonneg', 'convex', 'signed'):
                        bd.check(orc_predict, dict(seed=seed, cls='ModelInterpolate', ctor=ctor, k=k, n=n, theta=th),
                                 'interpolate,theta-' + th, function='ModelInterpolate.predict_rdm')
        for n in (4, 5):
            bd.check(orc_predict, dict(seed=seed, cls='ModelFixed', ctor='rdms', k=2, n=n, theta='default'), 'fixed,multi-rdm',
                     function='ModelFixed.predict_rdm')
    # dimension sweeps (the classes that are known findings of the plain domain -- interpolate,theta-default / theta-signed and
    # fixed,multi-rdm -- are left out: they would only repeat F7-F9)
    extras = ([('typed-data,' + d, dict(dtype=d)) for d in _DTYPES]
              + [('units,x%g' % b, dict(bscale=b)) for b in (1e-20, 1e-12, 1e6, 1e12)] + [('str-labels', dict(labels='str'))])
    i = 0
    for seed in range(2 if thorough else 1):
        for ctor in ('rdms', 'vectors', 'matrices'):
            for dim, extra in extras:
                n = (4, 5, 6)[i % 3] if thorough else (4, 5)[i % 2]
                k = (2, 4, 3)[i % 3]
                i += 1
                if dim == 'str-labels' and ctor != 'rdms':
                    continue
                cs = [('fixed', 'ModelFixed.predict', dict(cls='ModelFixed', k=1, theta=('default', 'given')[i % 2])),
                      ('select', 'ModelSelect.predict', dict(cls='ModelSelect', k=k, theta='given'))]
                cs += [('weighted,theta-' + th, 'ModelWeighted.predict', dict(cls='ModelWeighted', k=k, theta=th))
                       for th in ('default', 'nonneg', 'signed')]
                cs += [('interpolate,theta-' + th, 'ModelInterpolate.predict_rdm', dict(cls='ModelInterpolate', k=k, theta=th))
                       for th in ('nonneg', 'convex')]
                for ic, fn, c in cs:
                    bd.check(orc_predict, dict(seed=10 + seed, ctor=ctor, n=n, **c, **extra), ic + ',' + dim, function=fn)
    bd.done()
    bds.append(bd)
    # ---- forwarding ----------------------------------------------------------------------------
    bd = Bounded(run, 'C08/forwarding', 'C08/Model.fit/oracle/arguments-forwarded',
                 'Fitter.__call__ and the fit method of the four model classes with a recording fitter', exhaustive=True,
                 function='Model.fit')
    for what in ('Fitter', 'ModelFixed', 'ModelSelect', 'ModelWeighted', 'ModelInterpolate'):
        bd.check(orc_forwarding, dict(seed=1, what=what), what, function='Fitter.__call__' if what == 'Fitter' else what + '.fit')
    bd.done()
    bds.append(bd)
    return bds


def replay(path):
    return replay_file(path)
