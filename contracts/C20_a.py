"""C20, deductive tier: the BIDS path grammar with SYMBOLIC entity values (structured strings).

For every presence/absence combination of the optional entities (enumerated: finite and complete) and for ALL values of the
entities (atoms = arbitrary non-empty alphanumeric tokens), the real BidsFile._deconstruct / _findEntity and
BidsLayout._replace / find_* are symbolically executed on the structured path string."""
import itertools

import z3

from vf.pyvc.values import V, SV, Obj, SeqV, CaseV, DictV, StrV, Undecided, fresh_name
from vf.pyvc.api import FuncCheck
from vf.pyvc.core import PyRaise
from contracts.common import new_engine, finish_engine

BIDS = 'rsatoolbox.io.bids.'
OPTIONAL = ('derivative', 'ses', 'task', 'run', 'space', 'desc')


def atom(name):
    return SV(z3.Const('atom_' + name, V), 'val', tag='atom')


def build_path(present, ext_kind):
    """(path StrV, dict entity -> value) for one presence combination"""
    ent = {k: (atom(k) if k in present else None) for k in OPTIONAL}
    ent['sub'], ent['modality'], ent['suffix'] = atom('sub'), atom('modality'), atom('suffix')
    ent['ext'] = atom('ext') if ext_kind == 'atom' else StrV([atom('ext'), '.', atom('ext2')])
    parts = []
    if ent['derivative'] is not None:
        parts += ['derivatives/', ent['derivative'], '/']
    parts += ['sub-', ent['sub'], '/']
    if ent['ses'] is not None:
        parts += ['ses-', ent['ses'], '/']
    parts += [ent['modality'], '/', 'sub-', ent['sub']]
    for k in ('ses', 'task', 'run', 'space', 'desc'):
        if ent[k] is not None:
            parts += [f'_{k}-', ent[k]]
    parts += ['_', ent['suffix'], '.', ent['ext']]
    return StrV(parts), ent


def same(a, b):
    if a is None or b is None:
        return a is None and b is None
    x = a if isinstance(a, StrV) else StrV([a])
    y = b if isinstance(b, StrV) else StrV([b])
    return x.key() == y.key()


def deductive(run):
    E = new_engine(run)
    E.exec_classes = {'BidsFile', 'BidsTableFile', 'BidsJsonFile', 'BidsMriFile'}
    E.schemas['BidsFile'] = {'__closed__': True}
    fails = []
    n_cases = 0
    results = {}

    def record(name, ok, detail):
        results.setdefault(name, []).append((ok, detail))

    layout = Obj(z3.Const('layout', V), 'BidsLayout')
    replace_fv = E.find_function(BIDS + 'BidsLayout._replace')
    if replace_fv is None:
        run.undecide('C20/BidsLayout._replace/exists', 'function not found')
        return fails
    for r in range(len(OPTIONAL) + 1):
        for present in itertools.combinations(OPTIONAL, r):
            for ext_kind in ('atom', 'two-part'):
                n_cases += 1
                path, ent = build_path(set(present), ext_kind)
                tag = ','.join(present) or 'none'
                E.pc, E.facts, E._fact_keys, E.loops = [], [], set(), []
                from vf.pyvc.core import Scope
                E.scopes = [Scope([])]
                try:
                    cls = E.resolve_global('rsatoolbox.io.bids', 'BidsFile')
                    f = E.call(cls, [path, layout], {})
                    # (1) parsing recovers exactly the entities encoded in the path, for all entity values
                    for k in ('sub', 'ses', 'task', 'run', 'space', 'desc', 'derivative', 'modality', 'suffix', 'ext'):
                        got = f.fields.get(k, 'MISSING')
                        record('parse/' + k, got != 'MISSING' and same(got, ent[k]), f'[{tag};ext={ext_kind}] parsed {k} = {got!r}, encoded {ent[k]!r}')
                    # (2) rebuilding the path from the entities returns the original path
                    fv = E.find_method('BidsLayout', '_replace')
                    from vf.pyvc.values import FuncV
                    rb = E.run_function(FuncV('repo', fv.name, node=fv.node, module=fv.module, self_val=layout), [f, DictV({})], {})
                    record('rebuild/round-trip', same(rb, path), f'[{tag};ext={ext_kind}] rebuilt {rb!r} from {path!r}')
                    # (3) sibling look-ups change only the entities they are asked to change
                    d2, s2 = atom('newdesc'), atom('newsuffix')
                    rb2 = E.run_function(FuncV('repo', fv.name, node=fv.node, module=fv.module, self_val=layout),
                                         [f, DictV({'desc': d2, 'suffix': s2})], {})
                    want, _ = build_path(set(present) | {'desc'}, ext_kind)
                    want = StrV([(d2 if (isinstance(p, SV) and str(p.z) == 'atom_desc') else
                                  (s2 if (isinstance(p, SV) and str(p.z) == 'atom_suffix') else p)) for p in want.parts])
                    record('lookup/mri-sibling-changes-only-desc-and-suffix', same(rb2, want), f'[{tag};ext={ext_kind}] got {rb2!r}, expected {want!r}')
                    rb3 = E.run_function(FuncV('repo', fv.name, node=fv.node, module=fv.module, self_val=layout),
                                         [f, DictV({'ext': 'json'})], {})
                    want3, _ = build_path(set(present), ext_kind)
                    k_ext = [k for k, p in enumerate(want3.parts) if isinstance(p, SV) and str(p.z) == 'atom_ext'][0]
                    want3 = StrV(want3.parts[:k_ext] + ['json'])
                    record('lookup/meta-changes-only-the-extension', same(rb3, want3), f'[{tag};ext={ext_kind}] got {rb3!r}, expected {want3!r}')
                except Undecided as u:
                    record('engine', None, f'[{tag};ext={ext_kind}] {u}')
                except PyRaise as e:
                    record('raises-free', False, f'[{tag};ext={ext_kind}] raised {e.exc_name} {e.msg}')
    run.function(BIDS + 'BidsFile._deconstruct / _findEntity; BidsLayout._replace')
    for name, rs in sorted(results.items()):
        nm = f'C20/bids/S/{name}'
        und = [d for ok, d in rs if ok is None]
        bad = [d for ok, d in rs if ok is False]
        if bad:
            run.obligation(nm, 'refuted', 'structured-strings', 0.0, detail=bad[0][:400])
            fails.append((nm, name, dict(first_counterexample_shape=bad[0][:600], n_failing_shapes=len(bad))))
        elif und:
            run.obligation(nm, 'unknown', 'structured-strings', 0.0, detail=und[0][:300])
        else:
            run.obligation(nm, 'proved', 'structured-strings', 0.0,
                           detail=f'{len(rs)} presence/absence shapes x ALL alphanumeric entity values')
    finish_engine(E, run)
    run.trust('structured strings: entity values are arbitrary non-empty ALPHANUMERIC tokens (the BIDS value grammar); os.path.join / '
              'normpath / basename on relative normalised paths; all 2^6 presence combinations x {one-part, two-part} extension enumerated')
    run.extra['bids_shapes'] = n_cases
    return fails
