"""C19 -- searchlights hold exactly the voxels in radius; RDMs match direct computation."""
import z3

from vf.pyvc.values import V, SV, Obj, SeqV, CaseV, ArrV, DictV, Undecided, fresh_name
from vf.pyvc.api import FuncCheck
from contracts.common import new_engine, finish_engine, install_dataset
from contracts._wrap import z3_lemma, finish, replay  # noqa
from contracts.C04 import peel, call_repo

LEVEL = 'other'
SL = 'rsatoolbox.util.searchlight.'


def lemmas(run):
    fails = []
    dx, dy, dz, r, s, q = z3.Reals('dx dy dz r s q')
    ab = lambda v: z3.If(v < 0, -v, v)
    # (i) the per-axis bounding-box pre-filter |v_d - c_d| < r removes no member of the open ball
    fails.append(z3_lemma(run, 'C19/lemma/prefilter-keeps-every-member',
                          z3.Implies(z3.And(r >= 0, dx * dx + dy * dy + dz * dz < r * r),
                                     z3.And(ab(dx) < r, ab(dy) < r, ab(dz) < r)),
                          doc='sum of squares < r^2 implies each |coordinate difference| < r (over the reals)'))
    # (ii) the distance test sqrt(s) < r is the test s < r^2 (q = sqrt(s): q >= 0, q*q = s)
    fails.append(z3_lemma(run, 'C19/lemma/euclidean-distance-test-is-squared-test',
                          z3.Implies(z3.And(s >= 0, q >= 0, q * q == s, r >= 0), (q < r) == (s < r * r)),
                          doc='for r >= 0: sqrt(s) < r  <=>  s < r^2 (strict: voxels AT the radius are excluded)'))
    # (iii) chunking: cut points floor(k*n/100), k = 0..100, are monotone from 0 to n, so the 100 blocks
    #       [c_k, c_{k+1}) partition [0, n): every row of the result is written exactly once
    n, k, x = z3.Ints('n k x')
    c = lambda kk: (kk * n) / 100
    fails.append(z3_lemma(run, 'C19/lemma/chunk-cut-points-monotone',
                          z3.Implies(z3.And(n >= 0, k >= 0, k < 100), z3.And(c(k) <= c(k + 1), c(0) == 0, c(100) == n)),
                          doc='linspace(0,n,101,dtype=int) is non-decreasing from 0 to n'))
    k2 = z3.Int('k2')
    fails.append(z3_lemma(run, 'C19/lemma/chunks-disjoint',
                          z3.Implies(z3.And(n >= 0, 0 <= k, k < k2, k2 < 100, c(k) <= x, x < c(k + 1)),
                                     z3.Not(z3.And(c(k2) <= x, x < c(k2 + 1)))),
                          doc='two different blocks share no index'))
    return fails


def check_rdms(run, E):
    """get_searchlight_RDMs, unchunked branch: dataset c is built from the columns neighbors[c] with the event labels
    as conditions; the result is the list-calc_rdm of these datasets, labelled by the centres"""
    ck = FuncCheck(E, run, 'C19', SL + 'get_searchlight_RDMs', 'n_centers<=1000')

    def mk(E):
        data = E.sym_val('data_2d', tag='ndarray')
        n = z3.Int('n_centers')
        centers = E.sym_val('centers', tag='ndarray')
        centers.shape = (n,)
        nbs = E.sym_list('neighbors')
        return [data, centers, nbs, E.sym_val('events', tag='ndarray')], \
            dict(method=E.sym_val('method', tag='scalar')), [n >= 0, n <= 1000, nbs.zlen() == n]

    def post(ck, E, args, kw, p):
        data, centers, neighbors, events = args
        res = p.value
        ok = isinstance(res, Obj) and res.cls == 'RDMs'
        ck.ensure('post/returns-RDMs', z3.BoolVal(ok))
        if not ok:
            return
        ck.ensure_eq('post/labelled-by-centres-in-order', res.fields.get('rdm_descriptors'), DictV({'voxel_index': centers}))
        ck.ensure_eq('post/measure-is-method', res.fields.get('dissimilarity_measure'), kw['method'])
        d = res.fields.get('dissimilarities')
        a1 = peel(d, 'attr.dissimilarities')
        a2 = peel(a1[0], 'rsatoolbox.rdm.calc.calc_rdm') if a1 else None
        ck.ensure('post/values-are-list-calc_rdm', z3.BoolVal(a2 is not None), structure=True)
        if a2 is None:
            return
        fv = E.find_function('rsatoolbox.rdm.calc.calc_rdm')
        names = [a.arg for a in fv.node.args.args]
        got = dict(zip(names, a2))
        ck.ensure_eq('post/method-forwarded', got['method'], kw['method'])
        ck.ensure_eq('post/conditions-are-the-event-labels', got['descriptor'], 'events')
        lst = got['dataset']
        ck.ensure('post/one-dataset-per-centre', z3.BoolVal(isinstance(lst, SeqV)) if not isinstance(lst, SeqV)
                  else lst.zlen() == centers.shape[0])
        if not isinstance(lst, SeqV):
            return
        c = z3.Int(fresh_name('c'))
        E.pc.append(z3.And(c >= 0, c < centers.shape[0]))
        p.pc = list(E.pc)
        ds = E.seq_elem(lst, c)
        ok = isinstance(ds, Obj) and ds.cls == 'Dataset'
        ck.ensure('post/element-is-Dataset', z3.BoolVal(ok))
        if ok:
            nb = E.seq_elem(neighbors, c)
            ck.ensure_eq('post/dataset-c-holds-exactly-the-columns-of-searchlight-c', ds.fields.get('measurements'),
                         E.getitem(data, (slice(None, None, None), nb)))
            ck.ensure_eq('post/dataset-c-conditions-are-events', ds.fields.get('obs_descriptors'), DictV({'events': events}))
    ck.execute(mk, post=post, allow_raise=lambda *a: None)
    yield ck


def run(run):
    fails = lemmas(run)
    E = new_engine(run)
    install_dataset(E)
    E.schemas.pop('Dataset', None)      # Dataset(...) is a record constructor here
    for ck in check_rdms(run, E):
        fails += ck.failed
    finish_engine(E, run)
    # callee contract: per-centre RDMs group the events by get_unique_inverse
    from contracts.common import discharge_unique_inverse
    fails += discharge_unique_inverse(run, 'C19')
    # ... and calc_rdm hands the dataset to the estimator of the method with the method's options (contract generated by C01)
    from contracts import C01
    E1 = C01.engine(run)
    for ck in C01.check_single(run, E1, pid='C19'):
        fails += ck.failed
    finish_engine(E1, run)
    run.trust('joblib.Parallel returns results in submission order (assumed contract; real worker schedules cannot be explored)')
    run.trust('scipy cdist(euclidean) = sqrt of the sum of squared differences; np.meshgrid/vstack enumerate the full product of the three filtered ranges')
    finish(run, fails, 'C19')
    run.explanation = ('lemma layer (z3 NRA/LIA): pre-filter soundness, strict distance test, chunk partition; engine A: per-centre dataset '
                       'construction of get_searchlight_RDMs (unchunked branch) for all inputs; membership, centres, chunked branch and '
                       'n_jobs order by the exhaustive / seeded bounded tier')
