"""C11 -- dataset operations keep every observation attached to its own descriptors."""
import z3

from vf.pyvc.values import V, SV, Obj, SeqV, CaseV, ArrV, DictV, Undecided, fresh_name
from vf.pyvc.api import FuncCheck
from contracts.common import new_engine, finish_engine, install_dataset, descdict
from contracts._wrap import z3_lemma, finish, replay  # noqa
from contracts.C04 import peel

LEVEL = 'other'
DS = 'rsatoolbox.data.dataset.'


def engine(run):
    E = new_engine(run)
    install_dataset(E)

    def meas3(E, obj, name):
        v = E.app('attr.measurements', [obj], tag='ndarray')
        v.shape = (E.getattr(obj, 'n_obs').z, E.getattr(obj, 'n_channel').z, E.getattr(obj, 'n_time').z)
        return v
    E.schemas['TemporalDataset'] = {
        'n_obs': 'int', 'n_channel': 'int', 'n_time': 'int', 'measurements': meas3,
        'obs_descriptors': descdict('n_obs'), 'channel_descriptors': descdict('n_channel'),
        'time_descriptors': descdict('n_time'), 'descriptors': 'obj:DescDict'}
    return E


def check_sort(run, E):
    """sort_by: ONE stable sorting permutation of the key column gathers the measurement rows and every obs descriptor"""
    for cls in ('Dataset', 'TemporalDataset'):
        ck = FuncCheck(E, run, 'C11', DS + cls + '.sort_by', '')

        def mk(E, cls=cls):
            return [E.sym_obj('self', cls), E.sym_val('by', tag='scalar')], {}, []

        def post(ck, E, args, kw, p, cls=cls):
            self, by = args
            fresh = E.sym_obj('self', cls)           # the pre-state (same symbolic object before the call)
            key = E.getitem(E.getattr(fresh, 'obs_descriptors'), by)
            order = E.app('numpy.argsort', [key, DictV({'kind': 'stable'})])
            ck.ensure_eq('post/rows-gathered-by-the-stable-order-of-the-key', self.fields.get('measurements'),
                         E.getitem(E.getattr(fresh, 'measurements'), order))
            want = E.app('rsatoolbox.util.descriptor_utils.subset_descriptor', [E.getattr(fresh, 'obs_descriptors'), order])
            ck.ensure_eq('post/every-obs-descriptor-gathered-by-the-same-order', self.fields.get('obs_descriptors'), want)
            for other in ('channel_descriptors', 'descriptors') + (('time_descriptors',) if cls == 'TemporalDataset' else ()):
                ck.ensure('post/frame-' + other, z3.BoolVal(other not in self.fields or
                                                            E.toV(self.fields[other]).eq(E.toV(E.getattr(fresh, other)))))
        ck.execute(mk, post=post, allow_raise=lambda *a: None)
        yield ck


def check_subset(run, E):
    """subset_*: ONE selection (positions whose descriptor value is among the requested ones) picks the measurement
    rows / columns / slices and the matching descriptors; all other descriptors are passed through"""
    table = [('Dataset', 'subset_obs', 'obs_descriptors', 0, 2), ('Dataset', 'subset_channel', 'channel_descriptors', 1, 2),
             ('TemporalDataset', 'subset_obs', 'obs_descriptors', 0, 3), ('TemporalDataset', 'subset_channel', 'channel_descriptors', 1, 3)]
    for cls, meth, which, axis, rank in table:
        ck = FuncCheck(E, run, 'C11', DS + cls + '.' + meth, '')

        def mk(E, cls=cls):
            return [E.sym_obj('self', cls), E.sym_val('by', tag='scalar'), E.sym_val('value')], {}, []

        def post(ck, E, args, kw, p, cls=cls, which=which, axis=axis, rank=rank):
            self, by, value = args
            res = p.value
            ok = isinstance(res, Obj) and res.cls == cls
            ck.ensure('post/returns-same-kind', z3.BoolVal(ok))
            if not ok:
                return
            sel = E.app('rsatoolbox.util.descriptor_utils.num_index', [E.getitem(E.getattr(self, which), by), value])
            idx = tuple(sel if k == axis else slice(None, None, None) for k in range(rank))
            while len(idx) > 1 and idx[-1] == slice(None, None, None) and rank == 2 and axis == 0 and len(idx) > 2:
                idx = idx[:-1]
            got = res.fields.get('measurements')
            cands = []
            full = tuple(sel if k == axis else slice(None, None, None) for k in range(rank))
            for cut in range(rank, axis, -1):      # trailing full slices may be omitted
                cands.append(E.getitem(E.getattr(self, 'measurements'), full[:cut]))
            ck.ensure('post/measurements-selected-by-the-descriptor-selection',
                      z3.Or([E.veq(got, c) for c in cands]))
            ck.ensure_eq('post/matching-descriptors-selected-by-the-same-selection', res.fields.get(which),
                         E.app('rsatoolbox.util.descriptor_utils.subset_descriptor', [E.getattr(self, which), sel]))
            for other in ('obs_descriptors', 'channel_descriptors', 'descriptors') + (('time_descriptors',) if cls == 'TemporalDataset' else ()):
                if other != which:
                    ck.ensure_eq('post/passed-through-' + other, res.fields.get(other), E.getattr(self, other))
        ck.execute(mk, post=post, allow_raise=lambda *a: None)
        yield ck


def run(run):
    E = engine(run)
    E.schemas.pop('Dataset', None)
    E.schemas.pop('TemporalDataset', None)
    E2 = engine(run)
    fails = []
    for ck in check_sort(run, E2):
        fails += ck.failed
    # result objects are built by the class constructors: treat them as record constructors
    for ck in check_subset(run, _ctor_engine(run)):
        fails += ck.failed
    finish_engine(E2, run)
    run.trust('np.argsort(kind="stable") returns the stable sorting permutation; num_index / subset_descriptor contracts (C10 K6/K7) '
              'are uninterpreted at these call sites; their own bodies are under contract in C10 (C10/num_index, C10/bool_index, '
              'C10/subset_descriptor: discharged for all columns / values / index sequences)')
    finish(run, fails, 'C11')
    run.explanation = ('engine A: sort_by and subset_* use ONE permutation / selection for measurements and descriptors and pass the rest '
                       'through (all inputs); bounded tier: model-based histories against an abstract view with ghost ids')


def _ctor_engine(run):
    E = engine(run)
    # keep attribute schemas for `self` but let Dataset(...) / TemporalDataset(...) calls build records
    return E
