"""C11 -- dataset operations keep every observation attached to its own descriptors."""
import z3

from vf.pyvc.values import V, SV, Obj, SeqV, CaseV, ArrV, DictV, Undecided, fresh_name
from vf.pyvc.api import FuncCheck
from contracts.common import new_engine, finish_engine, install_dataset, descdict
from contracts._wrap import z3_lemma, finish, replay  # noqa
from contracts.C04 import peel

LEVEL = 'other'
DS = 'rsatoolbox.data.dataset.'


def engine(run):
    E = new_engine(run)
    install_dataset(E)

    def meas3(E, obj, name):
        v = E.app('attr.measurements', [obj], tag='ndarray')
        v.shape = (E.getattr(obj, 'n_obs').z, E.getattr(obj, 'n_channel').z, E.getattr(obj, 'n_time').z)
        return v
    E.schemas['TemporalDataset'] = {
        'n_obs': 'int', 'n_channel': 'int', 'n_time': 'int', 'measurements': meas3,
        'obs_descriptors': descdict('n_obs'), 'channel_descriptors': descdict('n_channel'),
        'time_descriptors': descdict('n_time'), 'descriptors': 'obj:DescDict'}
    return E


def check_sort(run, E):
    """sort_by: ONE stable sorting permutation of the key column gathers the measurement rows and every obs descriptor"""
    for cls in ('Dataset', 'TemporalDataset'):
        ck = FuncCheck(E, run, 'C11', DS + cls + '.sort_by', '')

        def mk(E, cls=cls):
            return [E.sym_obj('self', cls), E.sym_val('by', tag='scalar')], {}, []

        def post(ck, E, args, kw, p, cls=cls):
            self, by = args
            fresh = E.sym_obj('self', cls)           # the pre-state (same symbolic object before the call)
            key = E.getitem(E.getattr(fresh, 'obs_descriptors'), by)
            order = E.app('numpy.argsort', [key, DictV({'kind': 'stable'})])
            ck.ensure_eq('post/rows-gathered-by-the-stable-order-of-the-key', self.fields.get('measurements'),
                         E.getitem(E.getattr(fresh, 'measurements'), order))
            want = E.app('rsatoolbox.util.descriptor_utils.subset_descriptor', [E.getattr(fresh, 'obs_descriptors'), order])
            ck.ensure_eq('post/every-obs-descriptor-gathered-by-the-same-order', self.fields.get('obs_descriptors'), want)
            for other in ('channel_descriptors', 'descriptors') + (('time_descriptors',) if cls == 'TemporalDataset' else ()):
                ck.ensure('post/frame-' + other, z3.BoolVal(other not in self.fields or
                                                            E.toV(self.fields[other]).eq(E.toV(E.getattr(fresh, other)))))
        ck.execute(mk, post=post, allow_raise=lambda *a: None)
        yield ck


def check_subset(run, E):
    """subset_*: ONE selection (positions whose descriptor value is among the requested ones) picks the measurement
    rows / columns / slices and the matching descriptors; all other descriptors are passed through"""
    table = [('Dataset', 'subset_obs', 'obs_descriptors', 0, 2), ('Dataset', 'subset_channel', 'channel_descriptors', 1, 2),
             ('TemporalDataset', 'subset_obs', 'obs_descriptors', 0, 3), ('TemporalDataset', 'subset_channel', 'channel_descriptors', 1, 3)]
    for cls, meth, which, axis, rank in table:
        ck = FuncCheck(E, run, 'C11', DS + cls + '.' + meth, '')

        def mk(E, cls=cls):
            return [E.sym_obj('self', cls), E.sym_val('by', tag='scalar'), E.sym_val('value')], {}, []

        def post(ck, E, args, kw, p, cls=cls, which=which, axis=axis, rank=rank):
            self, by, value = args
            res = p.value
            ok = isinstance(res, Obj) and res.cls == cls
            ck.ensure('post/returns-same-kind', z3.BoolVal(ok))
            if not ok:
                return
            sel = E.app('rsatoolbox.util.descriptor_utils.num_index', [E.getitem(E.getattr(self, which), by), value])
            idx = tuple(sel if k == axis else slice(None, None, None) for k in range(rank))
            while len(idx) > 1 and idx[-1] == slice(None, None, None) and rank == 2 and axis == 0 and len(idx) > 2:
                idx = idx[:-1]
            got = res.fields.get('measurements')
            cands = []
            full = tuple(sel if k == axis else slice(None, None, None) for k in range(rank))
            for cut in range(rank, axis, -1):      # trailing full slices may be omitted
                cands.append(E.getitem(E.getattr(self, 'measurements'), full[:cut]))
            ck.ensure('post/measurements-selected-by-the-descriptor-selection',
                      z3.Or([E.veq(got, c) for c in cands]))
            ck.ensure_eq('post/matching-descriptors-selected-by-the-same-selection', res.fields.get(which),
                         E.app('rsatoolbox.util.descriptor_utils.subset_descriptor', [E.getattr(self, which), sel]))
            for other in ('obs_descriptors', 'channel_descriptors', 'descriptors') + (('time_descriptors',) if cls == 'TemporalDataset' else ()):
                if other != which:
                    ck.ensure_eq('post/passed-through-' + other, res.fields.get(other), E.getattr(self, other))
        ck.execute(mk, post=post, allow_raise=lambda *a: None)
        yield ck


def check_split(run, E):
    """split_obs / split_channel (both classes): one part per distinct descriptor value; part p holds exactly the rows (columns)
    whose value is the p-th distinct value, each once, in original order -- so the parts PARTITION what is split --; the
    measurements and the split descriptors of a part are gathered by that one selection, everything else is passed through
    (Dataset parts are labelled with their value)"""
    from vf.pyvc.core import Contract, ufunc, boxI
    from contracts.common import unique_inverse_model

    def ui(E, array):
        """(distinct values in order of first appearance, position of each entry's value in that list): the position is a
        function idx of the VALUE; idx(values[p]) = p (hence the values are pairwise distinct) and values[idx(x_j)] = x_j"""
        ct = E.toV(array)
        n = E.as_int(E.seq_len(array))
        nu = ufunc('n_distinct', 1, 'int')(ct)
        E.fact(z3.And(nu >= 0, nu <= n, z3.Implies(n > 0, nu > 0)))
        el = ufunc('distinct_value', 2)
        idx = ufunc('position_of_value', 2, 'int')

        def velem(q):
            z = el(ct, boxI(q))
            E.fact(z3.Implies(z3.And(q >= 0, q < nu), idx(ct, z) == q))
            return SV(z, 'val', tag='scalar')
        values = SeqV(length=nu, elem=velem, kind='array', term=ufunc('distinct_values_in_order_of_first_appearance', 1)(ct))

        def ielem(j):
            x = E.toV(E.seq_elem(E.as_seq(array), j) if isinstance(array, SeqV) else E.app('getitem', [array, SV(j, 'int')]))
            z = idx(ct, x)
            E.fact(z3.Implies(z3.And(j >= 0, j < n), z3.And(z >= 0, z < nu, el(ct, boxI(z)) == x)))
            return SV(z, 'int')
        return values, SeqV(length=n, elem=ielem, kind='array', esort='int')
    E.contracts['rsatoolbox.util.data_utils.get_unique_inverse'] = Contract(
        'rsatoolbox.util.data_utils.get_unique_inverse', define=ui,
        doc='(distinct values in order of first appearance, for every entry the position of its value in that list)')
    E.contracts['rsatoolbox.util.data_utils.get_unique_unsorted'] = Contract(
        'rsatoolbox.util.data_utils.get_unique_unsorted', define=lambda E, array: ui(E, array)[0],
        doc='distinct values in order of first appearance')

    def dd_copy(E, d):
        c = E.app('copy', [d], 'obj', cls='DescDict')
        return c

    def dd_set(E, d, key, val):
        # in-place store into a LOCAL copy: the object now denotes the updated dictionary
        old = Obj(d.term, 'DescDict', app=d.app)
        new = E.app('dict-with', [old, key, val], 'obj', cls='DescDict')
        d.term, d.app = new.term, new.app
    E.methods[('DescDict', 'copy')] = dd_copy
    E.methods[('DescDict', '__setitem__')] = dd_set
    global E_split_methods

    def E_split_methods(E2):
        E2.methods[('DescDict', 'copy')] = dd_copy
        E2.methods[('DescDict', '__setitem__')] = dd_set
    table = [('Dataset', 'split_obs', 'obs_descriptors', 0, 2), ('Dataset', 'split_channel', 'channel_descriptors', 1, 2),
             ('TemporalDataset', 'split_obs', 'obs_descriptors', 0, 3), ('TemporalDataset', 'split_channel', 'channel_descriptors', 1, 3),
             ('TemporalDataset', 'split_time', 'time_descriptors', 2, 3)]
    for cls, meth, which, axis, rank in table:
        ck = FuncCheck(E, run, 'C11', DS + cls + '.' + meth, '')

        def mk(E, cls=cls):
            return [E.sym_obj('self', cls), E.sym_val('by', tag='scalar')], {}, []

        def post(ck, E, args, kw, p, cls=cls, which=which, axis=axis, rank=rank):
            self, by = args
            res = p.value
            col = E.getitem(E.getattr(self, which), by)
            values, inv = ui(E, col)
            n = inv.zlen()
            ok = isinstance(res, SeqV)
            ck.ensure('post/returns-a-list-of-parts', z3.BoolVal(ok), structure=True)
            if not ok:
                return
            ck.ensure('post/one-part-per-distinct-value', res.zlen() == values.zlen())
            q = z3.Int(fresh_name('part'))
            in_q = z3.And(q >= 0, q < values.zlen())
            part = E.seq_elem(res, q)
            okp = isinstance(part, Obj) and part.cls == cls
            ck.ensure('post/parts-are-of-the-same-kind', z3.BoolVal(okp), structure=True, note=repr(part))
            if not okp:
                return
            m = part.fields.get('measurements')
            okm = (isinstance(m, SV) and m.app is not None and m.app[0] == 'getitem' and isinstance(m.app[1][1], tuple)
                   and len(m.app[1][1]) > axis and isinstance(m.app[1][1][axis], SeqV)
                   and all(x == slice(None, None, None) for k, x in enumerate(m.app[1][1]) if k != axis))
            ck.ensure('post/measurements-are-gathered-along-the-split-axis-only', z3.BoolVal(bool(okm)), structure=True, note=repr(m))
            if not okm:
                return
            ck.ensure_eq('post/measurements-come-from-the-source', m.app[1][0], E.getattr(self, 'measurements'))
            sel = m.app[1][1][axis]
            L = sel.zlen()
            t = z3.Int(fresh_name('t'))
            in_t = z3.And(t >= 0, t < L)
            st = E.as_int(E.seq_elem(sel, t))
            inv_at = lambda j: E.as_int(E.seq_elem(inv, j))
            ck.ensure('post/every-member-of-part-p-carries-the-p-th-value',
                      z3.Implies(z3.And(in_q, in_t), z3.And(st >= 0, st < n, inv_at(st) == q)))
            j = z3.Int(fresh_name('j'))
            pj = sel.inv(j) if sel.inv is not None else None
            ck.ensure('post/every-item-lies-in-the-part-of-its-value', z3.BoolVal(False) if pj is None else z3.Implies(
                z3.And(in_q, j >= 0, j < n, inv_at(j) == q), z3.And(pj >= 0, pj < L, E.as_int(E.seq_elem(sel, pj)) == j)))
            t2 = z3.Int(fresh_name('t'))
            ck.ensure('post/each-once-in-original-order',
                      z3.Implies(z3.And(in_q, in_t, t2 > t, t2 < L), E.as_int(E.seq_elem(sel, t2)) > st))
            ck.ensure_eq('post/split-descriptors-gathered-by-the-same-selection', part.fields.get(which),
                         E.app('rsatoolbox.util.descriptor_utils.subset_descriptor', [E.getattr(self, which), sel]))
            others = ('obs_descriptors', 'channel_descriptors') + (('time_descriptors',) if cls == 'TemporalDataset' else ())
            for other in others:
                if other != which:
                    ck.ensure_eq('post/passed-through-' + other, part.fields.get(other), E.getattr(self, other))
            if which == 'time_descriptors':
                ck.ensure_eq('post/passed-through-descriptors', part.fields.get('descriptors'), E.getattr(self, 'descriptors'))
        ck.execute(mk, post=post, allow_raise=lambda *a: None)
        yield ck


def check_bin_time(run, E):
    """bin_time: slice t of the binned measurements is the mean over axis 2 of exactly the time points whose `by` value is a
    member of bins[t] (np.isin), its time label the mean of those values; observation / channel descriptors passed through"""
    ck = FuncCheck(E, run, 'C11', DS + 'TemporalDataset.bin_time', '')

    def mk(E):
        return [E.sym_obj('self', 'TemporalDataset'), E.sym_val('by', tag='scalar'), E.sym_list('bins')], {}, []

    def post(ck, E, args, kw, p):
        self, by, bins = args
        res = p.value
        ok = isinstance(res, Obj) and res.cls == 'TemporalDataset'
        ck.ensure('post/returns-a-temporal-dataset', z3.BoolVal(ok), structure=True)
        if not ok:
            return
        m = res.fields.get('measurements')
        okm = isinstance(m, ArrV) and len(m.shape) == 3
        ck.ensure('post/binned-measurements-are-a-new-3d-array', z3.BoolVal(okm), structure=True, note=repr(m))
        if not okm:
            return
        nb = bins.zlen()
        ck.ensure('post/one-slice-per-bin', z3.And(m.shape[0] == E.getattr(self, 'n_obs').z, m.shape[1] == E.getattr(self, 'n_channel').z,
                                                   m.shape[2] == nb))
        t = z3.Int(fresh_name('bin'))
        in_t = z3.And(t >= 0, t < nb)
        time = E.call_lib('numpy.asarray', [E.getitem(E.getattr(self, 'time_descriptors'), by)], {})
        members = E.app('numpy.isin', [time, E.seq_elem(bins, t)])
        sl = slice(None, None, None)
        want = E.call_lib('numpy.mean', [E.getitem(E.getattr(self, 'measurements'), (sl, sl, members))], dict(axis=2))
        got = E.select(m, (None, None, t))
        ck.ensure('post/slice-t-is-the-mean-over-exactly-the-members-of-bin-t', z3.Implies(in_t, E.veq(got, want)))
        td = res.fields.get('time_descriptors')
        ck.ensure('post/time-descriptors-are-a-new-dictionary', z3.BoolVal(isinstance(td, Obj) and td is not E.getattr(self, 'time_descriptors')))
        for other in ('obs_descriptors', 'channel_descriptors', 'descriptors'):
            ck.ensure_eq('post/passed-through-' + other, res.fields.get(other), E.getattr(self, other))
    ck.execute(mk, post=post, allow_raise=lambda *a: None)
    yield ck


def run(run):
    E = engine(run)
    E.schemas.pop('Dataset', None)
    E.schemas.pop('TemporalDataset', None)
    E2 = engine(run)
    fails = []
    for ck in check_sort(run, E2):
        fails += ck.failed
    # result objects are built by the class constructors: treat them as record constructors
    for ck in check_subset(run, _ctor_engine(run)):
        fails += ck.failed
    for ck in check_split(run, _ctor_engine(run)):
        fails += ck.failed
    Eb = _ctor_engine(run)
    E_split_methods(Eb)
    for ck in check_bin_time(run, Eb):
        fails += ck.failed
    finish_engine(E2, run)
    # callee contracts: subset_* / split_* select with num_index / bool_index and gather with subset_descriptor (contracts generated
    # by C10, discharged in this run too)
    from contracts import C10
    from contracts.common import new_engine
    E10 = new_engine(run)
    for ck in C10.check_selection_helpers(run, E10, pid='C11'):
        fails += ck.failed
    finish_engine(E10, run)
    # ... and group labels with get_unique_inverse / get_unique_unsorted (assumed by the split / average contracts above)
    from contracts.common import discharge_unique_inverse
    fails += discharge_unique_inverse(run, 'C11')
    run.trust('np.argsort(kind="stable") returns the stable sorting permutation; num_index / subset_descriptor contracts (C10 K6/K7) '
              'are uninterpreted at these call sites; their own bodies are under contract in C10 (C10/num_index, C10/bool_index, '
              'C10/subset_descriptor: discharged for all columns / values / index sequences)')
    finish(run, fails, 'C11')
    run.explanation = ('engine A: sort_by and subset_* use ONE permutation / selection for measurements and descriptors and pass the rest '
                       'through (all inputs); bounded tier: model-based histories against an abstract view with ghost ids')


def _ctor_engine(run):
    E = engine(run)
    # keep attribute schemas for `self` but let Dataset(...) / TemporalDataset(...) calls build records
    return E
