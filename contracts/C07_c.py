"""C07 tier C -- bounded run-time oracles: the upper noise ceiling is unbeatable, the lower one is leave-one-group-out and
(for cosine / correlation type measures) not above it.

Real functions under test: `rsatoolbox.inference.noise_ceiling.boot_noise_ceiling`, `cv_noise_ceiling` (and through them
`util.inference_util.pool_rdm`, `_nan_mean`, `_nan_rank_data`, `crossvalsets.sets_leave_one_out_rdm`, `rdm.compare`),
`Result.noise_ceiling` of `eval_fixed` / `crossval`.

Everything EXPECTED is computed in this file from the property statement with numpy primitives and explicit loops:
`_sim` (cosine, Pearson, rho-a with O(n^2) tie-averaged ranks, cosine / correlation after whitening with the literal
V = (C C^T) o (C C^T) restricted to the non-missing entries), `_pool` (the maximiser of the average similarity: mean of the
RMS-normalised / standardised / rank-transformed RDMs on the non-missing entries), `_weak_orders` (all orderings with ties).
Repo code is only used to build inputs (`RDMs(...)`, `.subset`, `.subset_pattern`, `ModelFixed`) and as the thing observed.

oracles (clause of the statement -> oracle)
* C07/rho-a-exhaustive   "no candidate RDM scores above it, and the pooled RDM attains it" for rho-a: the score depends on the
                  candidate only through its weak order, so ALL weak orders of the <= 6 non-missing entries are scored
                  (13 / 75 / 541 / 4683 candidates); upper == max over all of them; pool_rdm's RDM scored with the real
                  compare attains it; the lower bound is inside the leave-one-out range (see "ties" below).
                  Data with ties, common missing entries included.
* C07/optimal     same clause for cosine, corr, rho-a at larger sizes: candidates = spec maximiser, the data RDMs themselves,
                  their raw mean and pairwise means, uniform / normal random RDMs, perturbations of the pooled RDM at
                  4 magnitudes, adjacent transpositions of the pooled order; scored by `_sim` AND by the real compare: none
                  above upper, the spec maximiser and the real pooled RDM attain it; closed form |sum u_i| / n for
                  cosine / corr.  RDMs on wildly different scales, negative values, ties, near-duplicates, missing entries.
* C07/loo         "The lower bound is the average over left-out RDM GROUPS of the similarity between the left-out data and
                  the best-fitting RDM of the remaining groups only": literal recomputation for every set partition of the
                  RDMs into >= 2 groups (balanced, unbalanced, interleaved; int / unsorted int / string labels; default
                  descriptor for singleton groups); with singleton groups also upper == average similarity of the pooled RDM.
* C07/upper-grouped  companion of the previous clause for NON-singleton groups (the statement defines the upper bound only for
                  singleton groups; the two bounds are comparable only if they average alike): upper == average over the same
                  groups of the mean similarity between the group and the best-fitting RDM of ALL data.  Own obligation
                  ('.../upper-averages-over-groups') so that it can be judged separately from the stated clauses.
* C07/ordering    "for cosine- and correlation-type measures, plain or whitened, with singleton groups it never exceeds the
                  upper bound": lower <= upper (both finite) for cosine, corr, cosine_cov, corr_cov.
* C07/invariance  "invariant to rescaling individual data RDMs (cosine) or shifting and rescaling them (correlation)": both
                  bounds of boot_noise_ceiling (any grouping) and of cv_noise_ceiling unchanged under x_i -> a_i x_i (a_i > 0;
                  cosine, cosine_cov) / a_i x_i + b_i (corr, corr_cov); whitened variants carry their own input_class.
* C07/missing     "Both bounds ignore entries missing from all RDMs": (1) all entries of one or two conditions missing ==
                  the bounds of the data without these conditions (5 methods, any grouping); (2) the literal specs above
                  are evaluated on the non-missing entries only (oracles optimal / loo / rho-a-exhaustive / cv with
                  missing entries, incl. the bootstrap pattern "same condition drawn twice").
* C07/cv          "(in cross-validation: of the training RDMs at the test conditions)": cv_noise_ceiling == literal
                  recomputation from ceil_set / test_set: lower = mean over folds of the mean similarity between the test
                  RDMs and the pooled ceil RDMs at the test conditions, upper = the same with the pooled complete data at
                  the test conditions (the function's documented upper bound); hand-built fold structures (k-fold grids,
                  overlapping random test sets, leave-one-RDM-out with all conditions, ceil sets that still contain all
                  conditions), 'index' and string pattern descriptors, repeated pattern labels.
* C07/result      observe_at "Result.noise_ceiling": eval_fixed -> singleton-group bounds; crossval with a ceil_set ->
                  cv bounds; crossval without ceil_set -> per-fold leave-one-RDM-out bounds at the test conditions.

ties: for rho-a the best-fitting RDM of a training set is not unique when its mean ranks tie (every ordering inside a tie
block fits the training RDMs equally well).  The statement fixes the lower bound then only up to the range spanned by these
orderings; the range [lo, hi] is computed exactly (rearrangement inside each tie block) and the observed bound must lie in
it; without such ties lo == hi and the check is an equality.  Likewise for cosine / corr when the (normalised) training RDMs
cancel exactly (pooled RDM = 0, e.g. two exactly anti-correlated integer RDMs on 3 entries): every RDM fits them equally
well, the term is undetermined in [-1, 1]; the invariance oracle skips such stacks (`_undetermined`), the generators avoid
RDMs that are constant on a set of entries on which a similarity is taken (no direction: outside the property).

why no counterexample to lower <= upper is expected for the whitened variants either: with singleton groups the pooled RDM of
all data is (n-1)/n * (pooled RDM without i) + a_i * x_i with a_i > 0 (any positive normalisation), and cos_W(x_i, q + a x_i)
is non-decreasing in a >= 0 for every inner product W, so the inequality holds term by term; the check is kept as a guard
(it catches sign errors / swapped bounds / non-positive weights in the pooling of the whitened methods).

input_class = '<method>,<kind of data>[,<representation>][,nan][,<grouping kind>]' (see `_ic`, `_dim`).

dimension sweeps (`_sweeps`, Bounded names 'C07/sweep-<dimension>/<oracle>'): the oracles above on inputs that vary along one
further dimension each; the expected values stay what the statement says for the VALUES of the data (case keys in brackets)
* dtype      [dtype] data RDMs handed over as int64 / int32 / int16 / uint8 / float32 (float32: tolerance 1e-5); plus
             C07/dtype-promotion (metamorphic, all five measures): typed data get the bounds of the same values as float64
* unit       [unit] all values times 10^u, u = -26 .. +12 (squared MEG units are 1e-26): literal oracles, invariance, missing
* containers [label_container, vals_container, matrix_input, decoys, label_style] descriptors and fold values as list /
             tuple / ndarray; group labels float, negative, bool, numeric strings, mixed-length strings, numpy scalars; data as
             square matrices; other descriptors (with other groupings) before and after the named one
* sizes      one-entry RDMs (n_cond 2, cosine), 30 / 60 RDMs in unbalanced interleaved groups, (20, 9) .. (6, 20) for optimal
* calls      C07/calls: f(B), f(A), f(B), f(A) on the same objects: repeated calls identical, each stack its stated value
             (a cache keyed by shape would show), inputs / fold sets unchanged, a pooled RDM held by the caller unchanged
* order      C07/permutation: order of the RDMs in the stack and order in which the conditions are listed do not enter
* environment C07/new-interpreter: a child interpreter with another PYTHONHASHSEED gets the same bounds (string labels)
* competitors (in `_candidates`, all optimal cases): every basis element and its complement, leave-one-out maximisers,
             maximisers of the other measures, median, convex combinations of the data, 1e-6 / 1e-8 sd neighbours
pending triage (registrations behind `if False:`): integer data whose squares leave the integer type (cosine, cosine_cov),
float32 data whose squares leave the float32 range (cosine, corr, cosine_cov, corr_cov) -- pool_rdm squares in the input type.

NOT covered by this tier: all-real-values optimality (Lean lemma `pooled_optimal`, engine B pooling contract); candidates
outside the enumerated / sampled sets for > 6 entries; lower <= upper for rho-a (not claimed by the property) and for
non-singleton groups; optimality of the upper bound for non-singleton groups (the statement defines it for singleton
groups only); a single group (no remaining groups: undefined); entries missing from only SOME RDMs; sigma_k-weighted whitening;
degenerate RDMs (constant, all zero) for cosine / corr; the fold generators themselves (C05) and the non-interference of
fitting (C05); bootstrap plumbing of the ceilings (C04); util/pooling.py's pool_rdm (used by the fitters, C08).
"""
import copy
import functools
import itertools
import json
import os
import subprocess
import sys
import warnings

import numpy as np

from vf.rt.harness import oracle, Bounded, replay_file

TOL = 1e-9
OPT_METHODS = ('cosine', 'corr', 'rho-a')
ORD_METHODS = ('cosine', 'corr', 'cosine_cov', 'corr_cov')
ALL_METHODS = ('cosine', 'corr', 'rho-a', 'cosine_cov', 'corr_cov')

OB_OPT = 'C07/boot_noise_ceiling/oracle/upper-is-best-achievable'
OB_LOO = 'C07/boot_noise_ceiling/oracle/lower-is-leave-one-group-out'
OB_UPG = 'C07/boot_noise_ceiling/oracle/upper-averages-over-groups'
OB_ORD = 'C07/boot_noise_ceiling/oracle/lower-le-upper'
OB_INV = 'C07/noise_ceiling/oracle/scale-shift-invariance'
OB_MISS = 'C07/noise_ceiling/oracle/common-missing-entries-ignored'
OB_CV = 'C07/cv_noise_ceiling/oracle/literal-recomputation'
OB_RES = 'C07/Result.noise_ceiling/oracle/literal-recomputation'
OB_CALL = 'C07/noise_ceiling/oracle/call-sequence-and-inputs-unchanged'
OB_ENV = 'C07/noise_ceiling/oracle/same-result-in-a-new-interpreter'
OB_PERM = 'C07/boot_noise_ceiling/oracle/order-of-rdms-and-conditions-irrelevant'
OB_TYPE = 'C07/noise_ceiling/oracle/typed-data-like-the-same-values-as-float64'

INT_DTYPES = ('int64', 'int32', 'int16', 'uint8')
TOL_F32 = 1e-5      # data handed over as float32: the library may compute in single precision (eps 6e-8, mild conditioning)


# =====================================================================================================
# spec functions (numpy + stdlib only)
# =====================================================================================================
def _pairs(nc):
    return [(i, j) for i in range(nc) for j in range(i + 1, nc)]


def _ranks(x):
    """tie-averaged ranks by literal pair counting"""
    n = len(x)
    r = np.zeros(n)
    for i in range(n):
        less = sum(1 for j in range(n) if x[j] < x[i])
        equal = sum(1 for j in range(n) if x[j] == x[i])
        r[i] = less + (equal + 1) / 2.0
    return r


@functools.lru_cache(maxsize=None)
def _vmat(nc):
    pr = _pairs(nc)
    c = np.zeros((len(pr), nc))
    for k, (i, j) in enumerate(pr):
        c[k, i] = 1.0
        c[k, j] = -1.0
    xi = c @ c.T
    return xi * xi


def _sim(method, a, b, nc):
    """similarity of two RDM vectors on the entries present (NaN pattern must coincide)"""
    a = np.asarray(a, dtype=float)
    b = np.asarray(b, dtype=float)
    ok = ~np.isnan(a)
    if not np.array_equal(ok, ~np.isnan(b)):
        raise AssertionError('spec: NaN patterns differ')
    x, y = a[ok].copy(), b[ok].copy()
    n = len(x)
    if method == 'cosine':
        return float(np.sum(x * y) / np.sqrt(np.sum(x * x) * np.sum(y * y)))
    if method == 'corr':
        x -= np.mean(x)
        y -= np.mean(y)
        return float(np.sum(x * y) / np.sqrt(np.sum(x * x) * np.sum(y * y)))
    if method == 'rho-a':
        m = (n + 1) / 2.0
        return float(12.0 * np.sum((_ranks(x) - m) * (_ranks(y) - m)) / (n ** 3 - n))
    if method in ('cosine_cov', 'corr_cov'):
        if method == 'corr_cov':
            x -= np.mean(x)
            y -= np.mean(y)
        v = _vmat(nc)[ok][:, ok]
        vx = np.linalg.solve(v, x)
        vy = np.linalg.solve(v, y)
        return float(x @ vy / np.sqrt((x @ vx) * (y @ vy)))
    raise ValueError(method)


def _pool(method, vecs):
    """the RDM with the highest average similarity to the rows of vecs (on the entries present), NaN elsewhere"""
    vecs = np.asarray(vecs, dtype=float)
    ok = ~np.isnan(vecs[0])
    acc = np.zeros(int(ok.sum()))
    for row in vecs:
        x = row[ok]
        if method == 'cosine':
            acc += x / np.sqrt(np.mean(x * x))
        elif method == 'corr':
            xc = x - np.mean(x)
            acc += xc / np.sqrt(np.mean(xc * xc))
        elif method == 'rho-a':
            acc += _ranks(x)
        else:
            raise ValueError(method)
    out = np.full(vecs.shape[1], np.nan)
    out[ok] = acc / len(vecs)
    return out


def _score_range(method, pred, tests, nc):
    """(lo, canonical, hi) of the mean similarity between pred and the rows of tests.  lo < hi only for rho-a when pred has
    tied entries: every ordering inside a tie block of pred is an equally good prediction for its training data."""
    if method != 'rho-a':
        x = pred[~np.isnan(pred)]
        if method == 'corr':
            x = x - np.mean(x)
        if np.sqrt(np.mean(x * x)) < 1e-7:   # the training RDMs cancel: EVERY RDM fits them equally well (average similarity 0),
            return -1.0, 0.0, 1.0            # the statement leaves the prediction, hence this term, undetermined
        can = float(np.mean([_sim(method, pred, t, nc) for t in tests]))
        return can, can, can
    can = float(np.mean([_sim(method, pred, t, nc) for t in tests]))
    ok = ~np.isnan(pred)
    p = pred[ok]
    n = len(p)
    rbar = np.mean([_ranks(np.asarray(t, dtype=float)[ok]) for t in tests], axis=0)
    order = sorted(range(n), key=lambda k: p[k])
    lo, hi = np.zeros(n), np.zeros(n)
    k = 0
    while k < n:
        j = k
        while j + 1 < n and p[order[j + 1]] == p[order[k]]:
            j += 1
        block = sorted(order[k:j + 1], key=lambda q: rbar[q])
        rk = list(range(k + 1, j + 2))
        for q, r in zip(block, rk):
            hi[q] = r
        for q, r in zip(block, reversed(rk)):
            lo[q] = r
        k = j + 1
    m = (n + 1) / 2.0
    f = 12.0 / (n ** 3 - n)
    return float(f * np.sum((lo - m) * (rbar - m))), can, float(f * np.sum((hi - m) * (rbar - m)))


def _spec_bounds(method, vecs, labels, nc):
    """(lower range, upper range) of the leave-one-GROUP-out noise ceiling, literal"""
    n = len(vecs)
    groups = []
    for lab in labels:
        if lab not in groups:
            groups.append(lab)
    pool_all = _pool(method, vecs)
    lows, ups = [], []
    for g in groups:
        inside = [i for i in range(n) if labels[i] == g]
        rest = [i for i in range(n) if labels[i] != g]
        pred = _pool(method, vecs[rest])
        lows.append(_score_range(method, pred, vecs[inside], nc))
        ups.append(_score_range(method, pool_all, vecs[inside], nc))
    return tuple(np.mean(np.array(lows), axis=0)), tuple(np.mean(np.array(ups), axis=0))


def _in_range(val, rng, tol=TOL):
    return np.isfinite(val) and rng[0] - tol <= val <= rng[2] + tol


def _tol(case, base=TOL):
    return max(base, TOL_F32) if case.get('dtype') == 'float32' else base


def _fmt(rng):
    return f'{rng[1]:.12g}' if rng[2] - rng[0] <= TOL else f'[{rng[0]:.12g}, {rng[2]:.12g}]'


@functools.lru_cache(maxsize=None)
def _weak_orders(n):
    """all weak orders of n items as level vectors (levels used = 0..k-1), with their tie-averaged rank vectors"""
    levels = [s for s in itertools.product(range(n), repeat=n) if set(s) == set(range(max(s) + 1))]
    ranks = np.array([_ranks(np.array(s, dtype=float)) for s in levels])
    return levels, ranks


def _restrict(vec, nc, pos):
    """entries of an RDM vector over nc conditions for the pairs inside the (sorted) positions pos"""
    pos = sorted(pos)
    idx = {p: k for k, p in enumerate(_pairs(nc))}
    return np.array([vec[idx[(pos[a], pos[b])]] for a in range(len(pos)) for b in range(a + 1, len(pos))])


# =====================================================================================================
# inputs
# =====================================================================================================
def _nan_entries(case):
    nc = case['n_cond']
    nan = set(case.get('nan') or [])
    pr = _pairs(nc)
    for c in case.get('nan_conds') or []:
        nan |= {k for k, p in enumerate(pr) if c in p}
    plab = case.get('pattern_labels')
    if plab is not None:
        nan |= {k for k, (i, j) in enumerate(pr) if plab[i] == plab[j]}
    return sorted(nan)


def _data(case):
    """n_rdm x n_pair data vectors, deterministic in the case; NaN at the common missing entries"""
    nc = case['n_cond']
    npair = nc * (nc - 1) // 2
    nan = _nan_entries(case)
    ok = np.array([k not in nan for k in range(npair)])
    if 'levels' in case:
        lev = np.array(case['levels'], dtype=float)
        v = np.full((lev.shape[0], npair), np.nan)
        v[:, ok] = 0.25 + 0.5 * lev
        return v
    rs = np.random.RandomState(case['seed'])
    n = case['n_rdm']
    kind = case.get('kind', 'pos')
    sig = rs.rand(npair) + 0.1
    if kind == 'pos':
        v = sig + 1.5 * rs.rand(n, npair)
    elif kind == 'neg':
        v = rs.randn(n, npair)
    elif kind == 'int':
        v = rs.randint(0, case.get('nlev', 3), size=(n, npair)).astype(float)
    elif kind == 'dup':
        v = sig + 1e-4 * rs.randn(n, npair)
    elif kind == 'anti':
        sgn = np.array([1.0 if i % 2 == 0 else -0.8 for i in range(n)])[:, None]
        v = 2.0 + sgn * (sig - sig.mean()) + 0.05 * rs.randn(n, npair)
    elif kind == 'scaled':
        v = (sig + 1.0 * rs.rand(n, npair)) * 10.0 ** rs.uniform(-3, 3, size=(n, 1))
    else:
        raise ValueError(kind)
    v[:, ~ok] = np.nan
    # constant RDMs have no direction (cosine of 0 / correlation of a constant): outside the property.  Make every row
    # non-constant on every set of entries on which a similarity is taken (all entries; per fold; without dropped conditions)
    pr = _pairs(nc)
    subsets = [[k for k in range(npair) if ok[k]]]
    plab = case.get('pattern_labels') or list(range(nc))
    for f in case.get('folds') or []:
        subsets.append([k for k, (i, j) in enumerate(pr) if ok[k] and plab[i] in f['vals'] and plab[j] in f['vals']])
    if case.get('drop'):
        subsets.append([k for k, (i, j) in enumerate(pr) if ok[k] and i not in case['drop'] and j not in case['drop']])
    for _ in range(4):
        for sub in subsets:
            for row in v:
                if np.max(row[sub]) == np.min(row[sub]):
                    row[sub[0]] += 1.0 + 0.5 * len(sub)
    # --- representation sweeps: the VALUES the library is given (the spec always works on these values as float64)
    dt = case.get('dtype')
    if dt in INT_DTYPES:
        if kind != 'int':
            raise ValueError('integer-typed data need kind int')
        if np.any(v[:, ok] != np.rint(v[:, ok])):      # the fix above may add x.5
            v = 2.0 * v
    if case.get('unit'):
        v = v * 10.0 ** case['unit']                    # the same RDMs in another (legitimate) unit
    if dt == 'float32':
        v = v.astype(np.float32).astype(float)          # exactly representable, so that spec and library see the same numbers
    return v


def _dim(case):
    """suffix of the input class: the representation dimensions varied by the sweeps (empty for the original cases)"""
    s = ''
    if case.get('dtype'):
        s += f",dtype={case['dtype']}"
    if case.get('unit'):
        s += f",unit=1e{case['unit']:+d}"
    if case.get('label_container'):
        s += f",labels-as-{case['label_container']}"
    if case.get('vals_container'):
        s += f",fold-values-as-{case['vals_container']}"
    if case.get('matrix_input'):
        s += ',square-matrix-input'
    if case.get('decoys'):
        s += ',decoy-descriptors'
    if case.get('label_style'):
        s += f",{case['label_style']}-labels"
    return s


def _ic(method, case, labels=None):
    s = f"{method},{case.get('kind', 'levels' if 'levels' in case else 'pos')}"
    s += _dim(case)
    if _nan_entries(case):
        s += ',nan'
    if labels is not None:
        sizes = sorted(labels.count(g) for g in set(labels))
        if sizes[-1] == 1:
            s += ',singleton'
        elif sizes[0] == sizes[-1]:
            s += ',balanced-groups'
        else:
            s += ',unbalanced-groups'
    return s


def _container(vals, how):
    if how == 'tuple':
        return tuple(vals)
    if how == 'ndarray':
        return np.array(vals)
    return list(vals)


def _mk_rdms(vecs, labels=None, pattern_labels=None, style=None):
    """the DATA RDMs as the caller would hand them over.  `style` (normally the case dict) selects the representation:
    dtype (integer types / float32), square matrices instead of vectors, descriptors as list / tuple / ndarray, further
    ('decoy') descriptors around the one that is used.  None of this changes the values, hence not the expected result."""
    from rsatoolbox.rdm import RDMs
    style = style or {}
    arr = np.array(vecs, dtype=float).copy()
    n, npair = arr.shape
    nc = int(round((1 + np.sqrt(1 + 8 * npair)) / 2))
    dt = style.get('dtype')
    if dt in INT_DTYPES:
        info = np.iinfo(dt)
        if np.isnan(arr).any() or np.any(arr != np.rint(arr)) or arr.min() < info.min or arr.max() > info.max:
            raise AssertionError(f'spec: values not representable as {dt}')
    if style.get('matrix_input'):
        mats = np.zeros((n, nc, nc))
        for k, (i, j) in enumerate(_pairs(nc)):
            mats[:, i, j] = arr[:, k]
            mats[:, j, i] = arr[:, k]
        arr = mats
    if dt:
        arr = arr.astype(dt)
    how = style.get('label_container')
    kw = {}
    rdm_d, pat_d = {}, {}
    if style.get('decoys'):     # other descriptors, with other groupings, before and after the one that is meant
        rdm_d['aaa'] = _container([i % 2 for i in range(n)], how)
        pat_d['aaa'] = _container(['p%d' % (i % 2) for i in range(nc)], how)
    if labels is not None:
        rdm_d['grp'] = _container(labels, how)
    if pattern_labels is not None:
        pat_d['cond'] = _container(pattern_labels, how)
    if style.get('decoys'):
        rdm_d['zzz'] = _container(['all'] * n, how)
        pat_d['zzz'] = _container(list(range(nc - 1, -1, -1)), how)
    if rdm_d:
        kw['rdm_descriptors'] = rdm_d
    if pat_d:
        kw['pattern_descriptors'] = pat_d
    return RDMs(arr, **kw)


def _boot_rd(rd, method, grouped):
    from rsatoolbox.inference.noise_ceiling import boot_noise_ceiling
    with warnings.catch_warnings():
        warnings.simplefilter('ignore')
        if grouped:
            lo, up = boot_noise_ceiling(rd, method=method, rdm_descriptor='grp')
        else:
            lo, up = boot_noise_ceiling(rd, method=method)
    return float(lo), float(up)


def _boot(vecs, method, labels=None, style=None):
    return _boot_rd(_mk_rdms(vecs, labels, style=style), method, labels is not None)


def _real_scores(cands, vecs, method, style=None):
    from rsatoolbox.rdm import compare
    with warnings.catch_warnings():
        warnings.simplefilter('ignore')
        return np.mean(compare(_mk_rdms(cands), _mk_rdms(vecs, style=style), method), axis=1)


def _real_pooled_score(vecs, method, style=None):
    from rsatoolbox.rdm import compare
    from rsatoolbox.util.inference_util import pool_rdm
    with warnings.catch_warnings():
        warnings.simplefilter('ignore')
        rd = _mk_rdms(vecs, style=style)
        return float(np.mean(compare(pool_rdm(rd, method=method), rd, method)))


# =====================================================================================================
# oracles
# =====================================================================================================
@oracle('C07/rho-a-exhaustive')
def orc_rho_exhaustive(case):
    nc = case['n_cond']
    vecs = _data(case)
    ok = ~np.isnan(vecs[0])
    n = int(ok.sum())
    levels, cand_ranks = _weak_orders(n)
    m = (n + 1) / 2.0
    dbar = np.mean([_ranks(v[ok]) for v in vecs], axis=0)
    scores = 12.0 * ((cand_ranks - m) @ (dbar - m)) / (n ** 3 - n)      # average rho-a of every weak order with the data
    best = int(np.argmax(scores))
    lower, upper = _boot(vecs, 'rho-a')
    if not np.isfinite(upper) or abs(upper - scores[best]) > TOL:
        rel = 'beats' if scores[best] > upper else 'shows unattained'
        return (f'upper bound {upper:.12g} but the best of all {len(levels)} candidate orderings, levels {list(levels[best])}, '
                f'scores {scores[best]:.12g} ({rel} the bound); data ranks {[list(_ranks(v[ok])) for v in vecs]}')
    att = _real_pooled_score(vecs, 'rho-a')
    if abs(att - upper) > TOL:
        return f'pooled RDM scores {att:.12g} (real compare) != upper bound {upper:.12g}'
    lo_rng, _ = _spec_bounds('rho-a', vecs, list(range(len(vecs))), nc)
    if not _in_range(lower, lo_rng):
        return f'lower bound {lower:.12g} != leave-one-out value {_fmt(lo_rng)}'
    return None


def _candidates(case, method, vecs):
    """named candidate RDM vectors (NaN at the missing entries)"""
    rs = np.random.RandomState(case['seed'] + 7919)
    ok = ~np.isnan(vecs[0])
    nv = int(ok.sum())
    n = len(vecs)

    def full(x):
        out = np.full(vecs.shape[1], np.nan)
        out[ok] = x
        return out
    p = _pool(method, vecs)[ok]
    cands = [('spec maximiser', p)]
    for i in range(n):
        cands.append((f'data rdm {i}', vecs[i][ok]))
    cands.append(('raw mean of the data', np.mean(vecs[:, ok], axis=0)))
    for i in range(min(n, 4)):
        for j in range(i + 1, min(n, 4)):
            cands.append((f'mean of data {i},{j}', (vecs[i][ok] + vecs[j][ok]) / 2))
    if method != 'cosine':   # affine images of the maximiser are equally good for corr / rho-a
        cands.append(('maximiser shifted', p + 3.0))
    cands.append(('maximiser rescaled', p * 7.5))
    nr = case.get('n_rand', 12)
    for k in range(nr):
        cands.append((f'uniform random {k}', rs.rand(nv)))
        cands.append((f'normal random {k}', rs.randn(nv)))
    sd = np.std(p) if np.std(p) > 0 else 1.0
    for eps in (1.0, 1e-1, 1e-2, 1e-4):
        for k in range(nr // 2):
            cands.append((f'maximiser + {eps:g} sd noise {k}', p + eps * sd * rs.randn(nv)))
    order = np.argsort(p, kind='stable')
    for k in range(nv - 1):   # local moves in order space: swap neighbours of the pooled ordering
        q = p.copy()
        q[order[k]], q[order[k + 1]] = p[order[k + 1]], p[order[k]]
        cands.append((f'maximiser with ranks {k},{k + 1} swapped', q))
    # ---- competitor sweep (appended, own random stream: the candidates above are unchanged).  The trivial candidates: every
    # basis element and its complement (the zero RDM has no direction: not a candidate); the obvious rivals of the pooled RDM:
    # the best-fitting RDM of all data but one, the maximisers of the OTHER measures, median, random convex combinations of
    # the data; close candidates: the maximiser with 1e-6 / 1e-8 sd noise and with single entries nudged
    rs2 = np.random.RandomState(case['seed'] + 15485863)
    step = max(1, -(-nv // 28))
    for k in range(0, nv, step):
        e = np.zeros(nv)
        e[k] = 1.0
        cands.append((f'basis element {k}', e))
        cands.append((f'all ones minus basis element {k}', 1.0 - e))
    if n > 2:
        for i in range(min(n, 6)):
            cands.append((f'spec maximiser of the data without rdm {i}', _pool(method, np.delete(vecs, i, axis=0))[ok]))
    for other in OPT_METHODS:
        if other != method:
            cands.append((f'spec maximiser for {other}', _pool(other, vecs)[ok]))
    cands.append(('entrywise median of the data', np.median(vecs[:, ok], axis=0)))
    for k in range(4):
        w = rs2.dirichlet(np.ones(n))
        cands.append((f'random convex combination {k} of the data', w @ vecs[:, ok]))
    for eps in (1e-6, 1e-8):
        for k in range(2):
            cands.append((f'maximiser + {eps:g} sd noise {k}', p + eps * sd * rs2.randn(nv)))
    for k in range(0, nv, max(1, nv // 4)):
        q = p.copy()
        q[k] += 1e-3 * sd
        cands.append((f'maximiser with entry {k} raised by 1e-3 sd', q))
    out = []
    for name, x in cands:   # a constant candidate has no direction
        if np.max(x) > np.min(x):
            out.append((name, full(x)))
    return out


@oracle('C07/optimal')
def orc_optimal(case):
    method = case['method']
    nc = case['n_cond']
    vecs = _data(case)
    n = len(vecs)
    tol = _tol(case)
    lower, upper = _boot(vecs, method, style=case)
    if not np.isfinite(upper):
        return f'upper bound is {upper}'
    cands = _candidates(case, method, vecs)
    spec = np.array([np.mean([_sim(method, c, v, nc) for v in vecs]) for _, c in cands])
    k = int(np.argmax(spec))
    if spec[k] > upper + tol:
        return f'candidate "{cands[k][0]}" scores {spec[k]:.12g} > upper bound {upper:.12g}'
    if spec[k] < upper - tol:
        return f'upper bound {upper:.12g} is not attained: the best candidate "{cands[k][0]}" scores only {spec[k]:.12g}'
    real = _real_scores([c for _, c in cands], vecs, method, style=case)
    k = int(np.argmax(real))
    if real[k] > upper + tol:
        return f'candidate "{cands[k][0]}" scores {real[k]:.12g} (real compare) > upper bound {upper:.12g}'
    att = _real_pooled_score(vecs, method, style=case)
    if abs(att - upper) > tol:
        return f'pooled RDM scores {att:.12g} (real compare) != upper bound {upper:.12g}'
    if method in ('cosine', 'corr'):
        ok = ~np.isnan(vecs[0])
        s = np.zeros(int(ok.sum()))
        for v in vecs:
            x = v[ok] - (np.mean(v[ok]) if method == 'corr' else 0.0)
            s += x / np.sqrt(np.sum(x * x))
        closed = float(np.sqrt(np.sum(s * s)) / n)
        if abs(closed - upper) > tol:
            return f'upper bound {upper:.12g} != |sum of unit vectors| / n = {closed:.12g}'
    return None


@oracle('C07/loo')
def orc_loo(case):
    method = case['method']
    nc = case['n_cond']
    vecs = _data(case)
    labels = case.get('labels')
    spec_labels = list(labels) if labels is not None else list(range(len(vecs)))
    if case.get('draw') is not None:
        # a bootstrap resample of the stack (RDMs.subsample by the default 'index'): copies of one RDM share their index value and
        # form ONE group for the default grouping of the ceiling
        draw = [int(i) for i in case['draw']]
        sample = _mk_rdms(vecs, None, style=case).subsample('index', draw)
        lower, upper = _boot_rd(sample, method, False)
        vecs = np.asarray(vecs)[draw]
        spec_labels = list(draw)
    else:
        lower, upper = _boot(vecs, method, labels, style=case)
    lo_rng, up_rng = _spec_bounds(method, vecs, spec_labels, nc)
    if not _in_range(lower, lo_rng, _tol(case)):
        return (f'lower bound {lower:.12g} != average over the {len(set(spec_labels))} left-out groups {_fmt(lo_rng)} '
                f'(labels {spec_labels})')
    if len(set(spec_labels)) == len(spec_labels) and not _in_range(upper, up_rng, _tol(case)):
        return f'upper bound {upper:.12g} != average similarity of the best-fitting RDM of all data {_fmt(up_rng)}'
    return None


@oracle('C07/upper-grouped')
def orc_upper_grouped(case):
    """companion of the lower-bound clause for non-singleton groups: the upper bound averages over the same left-out groups,
    with the best-fitting RDM of ALL data as the prediction"""
    method = case['method']
    vecs = _data(case)
    labels = list(case['labels'])
    _, upper = _boot(vecs, method, labels, style=case)
    _, up_rng = _spec_bounds(method, vecs, labels, case['n_cond'])
    if not _in_range(upper, up_rng, _tol(case)):
        return (f'upper bound {upper:.12g} != average over the {len(set(labels))} groups of the mean similarity between the group '
                f'and the best-fitting RDM of all data {_fmt(up_rng)} (labels {labels})')
    return None


@oracle('C07/ordering')
def orc_ordering(case):
    method = case['method']
    vecs = _data(case)
    lower, upper = _boot(vecs, method, style=case)
    if not (np.isfinite(lower) and np.isfinite(upper)):
        return f'bounds not finite: lower {lower}, upper {upper}'
    if lower > upper + _tol(case):
        return f'lower bound {lower:.12g} > upper bound {upper:.12g}'
    return None


def _cv_sets(vecs, case):
    """ceil_set / test_set as the fold generators deliver them, built from explicit fold descriptions"""
    plab = case.get('pattern_labels')
    nc = case['n_cond']
    desc = 'cond' if plab is not None else 'index'
    plab_eff = list(plab) if plab is not None else list(range(nc))
    rd = _mk_rdms(vecs, pattern_labels=plab, style=case)
    how = case.get('vals_container')    # the (RDMs, values) tuples carry the fold's values as list / tuple / ndarray
    ceil_set, test_set = [], []
    for f in case['folds']:
        vals = list(f['vals'])
        tr = rd.subset('index', list(f['train']))
        te = rd.subset('index', list(f['test'])).subset_pattern(desc, vals)
        if not case.get('ceil_full'):
            tr = tr.subset_pattern(desc, vals)
        arr = vals if plab is not None else np.array(vals)
        allv = list(dict.fromkeys(plab_eff))
        callv = allv if plab is not None else np.array(allv)
        if how is not None:
            arr, callv = _container(vals, how), _container(allv, how)
        ceil_set.append((tr, callv if case.get('ceil_full') else arr))
        test_set.append((te, arr))
    return rd, ceil_set, test_set, desc, plab_eff


def _spec_cv(method, vecs, case):
    nc = case['n_cond']
    plab = case.get('pattern_labels')
    plab_eff = list(plab) if plab is not None else list(range(nc))
    pool_all = _pool(method, vecs)
    lows, ups = [], []
    for f in case['folds']:
        pos = [k for k in range(nc) if plab_eff[k] in f['vals']]
        tests = np.array([_restrict(vecs[i], nc, pos) for i in f['test']])
        if case.get('ceil_full'):
            pred = _restrict(_pool(method, vecs[list(f['train'])]), nc, pos)
        else:
            pred = _pool(method, np.array([_restrict(vecs[i], nc, pos) for i in f['train']]))
        lows.append(_score_range(method, pred, tests, len(pos)))
        ups.append(_score_range(method, _restrict(pool_all, nc, pos), tests, len(pos)))
    return tuple(np.mean(np.array(lows), axis=0)), tuple(np.mean(np.array(ups), axis=0))


def _cv(vecs, case, method):
    from rsatoolbox.inference.noise_ceiling import cv_noise_ceiling
    rd, ceil_set, test_set, desc, _ = _cv_sets(vecs, case)
    with warnings.catch_warnings():
        warnings.simplefilter('ignore')
        lo, up = cv_noise_ceiling(rd, ceil_set, test_set, method=method, pattern_descriptor=desc)
    return float(lo), float(up)


@oracle('C07/cv')
def orc_cv(case):
    method = case['method']
    vecs = _data(case)
    lower, upper = _cv(vecs, case, method)
    lo_rng, up_rng = _spec_cv(method, vecs, case)
    if not _in_range(lower, lo_rng, _tol(case)):
        return (f'cv lower bound {lower:.12g} != mean over folds of the similarity between the test RDMs and the pooled '
                f'ceil RDMs at the test conditions {_fmt(lo_rng)}')
    if not _in_range(upper, up_rng, _tol(case)):
        return (f'cv upper bound {upper:.12g} != mean over folds of the similarity between the test RDMs and the pooled '
                f'complete data at the test conditions {_fmt(up_rng)}')
    return None


def _undetermined(case):
    """True if some prediction entering the bounds is undetermined (training RDMs cancel exactly / rho-a tie blocks): the bounds
    are then not a function of the data alone and an invariance statement about them is empty"""
    method = {'cosine_cov': 'cosine', 'corr_cov': 'corr'}.get(case['method'], case['method'])
    vecs = _data(case)
    if case.get('folds'):
        rngs = _spec_cv(method, vecs, case)
    else:
        rngs = _spec_bounds(method, vecs, list(case.get('labels') or range(len(vecs))), case['n_cond'])
    return any(r[2] - r[0] > TOL for r in rngs)


@oracle('C07/invariance')
def orc_invariance(case):
    method = case['method']
    vecs = _data(case)
    if _undetermined(case):
        return None
    n = len(vecs)
    rs = np.random.RandomState(case['seed'] + 104729)
    a = 10.0 ** rs.uniform(-case.get('decades', 2), case.get('decades', 2), size=(n, 1))
    b = 5.0 * 10.0 ** case.get('unit', 0) * rs.randn(n, 1) if method in ('corr', 'corr_cov') else 0.0   # shifts in the data's unit
    if case.get('only') is not None:     # transform ONE RDM only
        keep = np.zeros((n, 1), dtype=bool)
        keep[case['only']] = True
        a = np.where(keep, a, 1.0)
        b = np.where(keep, b, 0.0)
    vecs2 = a * vecs + b
    what = 'rescaling' if method in ('cosine', 'cosine_cov') else 'shifting and rescaling'
    if case.get('folds'):
        r1, r2 = _cv(vecs, case, method), _cv(vecs2, case, method)
        fn = 'cv_noise_ceiling'
    else:
        r1, r2 = _boot(vecs, method, case.get('labels'), case), _boot(vecs2, method, case.get('labels'), case)
        fn = 'boot_noise_ceiling'
    for nm, x, y in (('lower', r1[0], r2[0]), ('upper', r1[1], r2[1])):
        if not (np.isfinite(x) and np.isfinite(y)) or abs(x - y) > 1e-8:
            return (f'{fn} {nm} bound changes from {x:.12g} to {y:.12g} under {what} of individual data RDMs '
                    f'(factors {a.ravel().tolist()}, shifts {np.ravel(b).tolist()})')
    return None


@oracle('C07/missing')
def orc_missing(case):
    """all entries of the conditions `drop` missing from all RDMs == the data without these conditions"""
    method = case['method']
    nc = case['n_cond']
    drop = list(case['drop'])
    full_vecs = _data(case)                               # may already contain other common missing entries
    pr = _pairs(nc)
    hit = np.array([(i in drop) or (j in drop) for i, j in pr])
    with_nan = full_vecs.copy()
    with_nan[:, hit] = np.nan
    small = full_vecs[:, ~hit]                            # the RDM over the remaining conditions (same pair order)
    labels = case.get('labels')
    r1 = _boot(with_nan, method, labels, case)
    r2 = _boot(small, method, labels, case)
    for nm, x, y in (('lower', r1[0], r2[0]), ('upper', r1[1], r2[1])):
        if not (np.isfinite(x) and np.isfinite(y)) or abs(x - y) > _tol(case):
            return (f'{nm} bound {x:.12g} with all entries of condition(s) {drop} missing from every RDM, but {y:.12g} for the '
                    f'same data without these conditions')
    return None


@oracle('C07/result')
def orc_result(case):
    from rsatoolbox.inference import eval_fixed, crossval
    from rsatoolbox.model import ModelFixed
    method = case['method']
    nc = case['n_cond']
    vecs = _data(case)
    rs = np.random.RandomState(case['seed'] + 31)
    plab = case.get('pattern_labels')
    model = ModelFixed('m', _mk_rdms(rs.rand(1, vecs.shape[1]) + 0.1, pattern_labels=plab))
    with warnings.catch_warnings():
        warnings.simplefilter('ignore')
        if case['mode'] == 'fixed':
            res = eval_fixed(model, _mk_rdms(vecs, style=case), method=method)
            nz = np.asarray(res.noise_ceiling, dtype=float)
            lo_rng, up_rng = _spec_bounds(method, vecs, list(range(len(vecs))), nc)
        else:
            rd, ceil_set, test_set, desc, plab_eff = _cv_sets(vecs, case)
            train_set = [(rd.subset('index', list(f['train'])).subset_pattern(
                desc, [v for v in dict.fromkeys(plab_eff) if v not in f['vals']]),
                [v for v in dict.fromkeys(plab_eff) if v not in f['vals']]) for f in case['folds']]
            if case['mode'] == 'crossval':
                res = crossval(model, rd, train_set, test_set, ceil_set=ceil_set, method=method, pattern_descriptor=desc)
                lo_rng, up_rng = _spec_cv(method, vecs, case)
            else:   # 'crossval-noceil': no ceil_set -> leave-one-RDM-out bounds of all RDMs at the test conditions, per fold
                res = crossval(model, rd, train_set, test_set, ceil_set=None, method=method, pattern_descriptor=desc)
                lows, ups = [], []
                for f in case['folds']:
                    pos = [k for k in range(nc) if plab_eff[k] in f['vals']]
                    sub = np.array([_restrict(v, nc, pos) for v in vecs])
                    lo_f, up_f = _spec_bounds(method, sub, list(range(len(sub))), len(pos))
                    lows.append(lo_f)
                    ups.append(up_f)
                lo_rng, up_rng = tuple(np.mean(np.array(lows), axis=0)), tuple(np.mean(np.array(ups), axis=0))
            nz = np.asarray(res.noise_ceiling, dtype=float)
    if nz.shape[0] != 2:
        return f'Result.noise_ceiling has shape {nz.shape}, expected (lower, upper) first'
    lower, upper = float(np.mean(nz[0])), float(np.mean(nz[1]))
    if not _in_range(lower, lo_rng, _tol(case)):
        return f"Result.noise_ceiling lower {lower:.12g} != {_fmt(lo_rng)} ({case['mode']})"
    if not _in_range(upper, up_rng, _tol(case)):
        return f"Result.noise_ceiling upper {upper:.12g} != {_fmt(up_rng)} ({case['mode']})"
    return None


def _snapshot(rd):
    return (np.array(rd.dissimilarities, copy=True), rd.dissimilarities.dtype, copy.deepcopy(rd.rdm_descriptors),
            copy.deepcopy(rd.pattern_descriptors))


def _same_desc(a, b):
    if list(a.keys()) != list(b.keys()):
        return False
    return all(type(a[k]) is type(b[k]) and np.array_equal(np.asarray(a[k]), np.asarray(b[k])) for k in a)


def _changed(rd, snap, what):
    d, dt, rdesc, pdesc = snap
    if rd.dissimilarities.dtype != dt or not np.array_equal(np.asarray(rd.dissimilarities), d, equal_nan=True):
        return f'the dissimilarities of {what} were changed by the call'
    if not _same_desc(rd.rdm_descriptors, rdesc) or not _same_desc(rd.pattern_descriptors, pdesc):
        return f'the descriptors of {what} were changed by the call'
    return None


@oracle('C07/calls')
def orc_calls(case):
    """the bounds are a function of the data handed over, and of nothing else: the call sequence f(B), f(A), f(B), f(A) on the
    SAME objects (A, B: same shape, same descriptors, different content) gives identical values for the repeated calls, the
    value stated by the property for each (plain measures; for the whitened ones: not the value of the other stack), leaves
    A and B (and the fold sets) as they were, and an RDM pooled before keeps its values"""
    from rsatoolbox.util.inference_util import pool_rdm
    method = case['method']
    plain = method in OPT_METHODS
    nc = case['n_cond']
    case_b = dict(case, seed=case['seed'] + 1000003)
    va, vb = _data(case), _data(case_b)
    labels = case.get('labels')
    if case.get('folds'):
        sa, sb = _cv_sets(va, case), _cv_sets(vb, case_b)
        from rsatoolbox.inference.noise_ceiling import cv_noise_ceiling

        def f(sets):
            with warnings.catch_warnings():
                warnings.simplefilter('ignore')
                lo, up = cv_noise_ceiling(sets[0], sets[1], sets[2], method=method, pattern_descriptor=sets[3])
            return float(lo), float(up)
        objs = lambda sets: [('the complete data', sets[0])] + \
            [(f'ceil set {k}', c[0]) for k, c in enumerate(sets[1])] + [(f'test set {k}', t[0]) for k, t in enumerate(sets[2])]
        spec = lambda v, c: _spec_cv(method, v, c)
        fn = 'cv_noise_ceiling'
    else:
        sa, sb = _mk_rdms(va, labels, style=case), _mk_rdms(vb, labels, style=case)
        f = lambda rd: _boot_rd(rd, method, labels is not None)
        objs = lambda rd: [('the data RDMs', rd)]
        spec = lambda v, c: _spec_bounds(method, v, list(labels) if labels is not None else list(range(len(v))), nc)
        fn = 'boot_noise_ceiling'
    snaps = [(nm, o, _snapshot(o)) for nm, o in objs(sa) + objs(sb)]
    rd_a = sa[0] if case.get('folds') else sa
    rd_b = sb[0] if case.get('folds') else sb
    with warnings.catch_warnings():
        warnings.simplefilter('ignore')
        held = pool_rdm(rd_a, method=method)
    held_copy = np.array(held.dissimilarities, copy=True)
    b1, a1, b2, a2 = f(sb), f(sa), f(sb), f(sa)
    for nm, x, y in (('A', a1, a2), ('B', b1, b2)):
        if not (np.all(np.isfinite(x)) and x == y):
            return f'{fn}: the same call on the same objects ({nm}) gives {x} the first and {y} the second time'
    if plain:
        for nm, r, v, c in (('A', a1, va, case), ('B', b1, vb, case_b)):
            lo_rng, up_rng = spec(v, c)
            if not _in_range(r[0], lo_rng, _tol(case)) or not _in_range(r[1], up_rng, _tol(case)):
                return (f'{fn}: in the sequence f(B), f(A), f(B), f(A) stack {nm} gets ({r[0]:.12g}, {r[1]:.12g}), stated: '
                        f'({_fmt(lo_rng)}, {_fmt(up_rng)})')
    elif abs(a1[0] - b1[0]) < 1e-7 and abs(a1[1] - b1[1]) < 1e-7:
        return f'{fn}: stack A called after stack B (same shape, different values) gets the bounds of B {b1}'
    for nm, o, snap in snaps:
        msg = _changed(o, snap, nm)
        if msg:
            return f'{fn}: {msg}'
    with warnings.catch_warnings():
        warnings.simplefilter('ignore')
        pool_rdm(rd_b, method=method)
        again = pool_rdm(rd_a, method=method)
    if not np.array_equal(held.dissimilarities, held_copy, equal_nan=True):
        return 'pool_rdm: the pooled RDM of stack A held by the caller changed when other stacks were pooled afterwards'
    if not np.array_equal(again.dissimilarities, held_copy, equal_nan=True):
        return 'pool_rdm: pooling stack A again (after pooling stack B) gives different values'
    return None


_CHILD = r'''
import json, sys
from contracts import C07_c as m
out = []
for case in json.load(sys.stdin):
    v = m._data(case)
    out.append(m._cv(v, case, case['method']) if case.get('folds') else m._boot(v, case['method'], case.get('labels'), case))
print('RESULT' + json.dumps(out))
'''


@oracle('C07/new-interpreter')
def orc_new_interpreter(case):
    """a new interpreter with another PYTHONHASHSEED computes the same bounds: the stated value (plain measures), and the
    value of this process (all measures).  case['cases'] are ordinary boot / cv cases, evaluated by one child process."""
    root = os.path.dirname(os.path.dirname(os.path.abspath(__file__)))
    env = dict(os.environ, PYTHONHASHSEED=str(case['hashseed']), MPLBACKEND='Agg', PYTHONDONTWRITEBYTECODE='1',
               PYTHONPATH=os.pathsep.join([q for q in sys.path if q]))
    proc = subprocess.run([sys.executable, '-c', _CHILD], input=json.dumps(case['cases']), capture_output=True, text=True,
                          env=env, cwd=root, timeout=600)
    lines = [ln for ln in proc.stdout.splitlines() if ln.startswith('RESULT')]
    if proc.returncode != 0 or not lines:
        return f"child interpreter (PYTHONHASHSEED={case['hashseed']}) failed: rc {proc.returncode}: {proc.stderr[-400:]}"
    res = json.loads(lines[-1][6:])
    for sub, r in zip(case['cases'], res):
        method = sub['method']
        v = _data(sub)
        here = _cv(v, sub, method) if sub.get('folds') else _boot(v, method, sub.get('labels'), sub)
        tag = {k: w for k, w in sub.items() if k not in ('folds',)}
        if not (np.all(np.isfinite(r)) and abs(r[0] - here[0]) <= 1e-12 and abs(r[1] - here[1]) <= 1e-12):
            return f"PYTHONHASHSEED={case['hashseed']}: bounds {r} in the new interpreter, {here} in this one; case {tag}"
        if method in OPT_METHODS:
            if sub.get('folds'):
                lo_rng, up_rng = _spec_cv(method, v, sub)
            else:
                labels = sub.get('labels')
                lo_rng, up_rng = _spec_bounds(method, v, list(labels) if labels is not None else list(range(len(v))),
                                              sub['n_cond'])
            if not _in_range(r[0], lo_rng) or not _in_range(r[1], up_rng):
                return (f"PYTHONHASHSEED={case['hashseed']}: bounds {r} in the new interpreter, stated "
                        f"({_fmt(lo_rng)}, {_fmt(up_rng)}); case {tag}")
    return None


@oracle('C07/dtype-promotion')
def orc_promotion(case):
    """metamorphic (all five measures, the whitened ones have no literal spec here): the bounds are a function of the VALUES of
    the data RDMs, so integer-typed / float32 data get the bounds of the same values held as float64"""
    method = case['method']
    vecs = _data(case)
    plain = dict(case, dtype=None)
    if case.get('folds'):
        r_t, r_f, fn = _cv(vecs, case, method), _cv(vecs, plain, method), 'cv_noise_ceiling'
    else:
        labels = case.get('labels')
        r_t, r_f, fn = _boot(vecs, method, labels, case), _boot(vecs, method, labels, plain), 'boot_noise_ceiling'
    for nm, x, y in (('lower', r_t[0], r_f[0]), ('upper', r_t[1], r_f[1])):
        if not (np.isfinite(x) and np.isfinite(y)) or abs(x - y) > _tol(case):
            return f"{fn} {nm} bound {x:.12g} for {case['dtype']} data, {y:.12g} for the same values as float64"
    return None


def _permute_conds(vecs, nc, perm):
    """the same RDMs with the conditions listed in the order perm: new entry (a, b) = old entry (perm[a], perm[b])"""
    idx = {}
    for k, (i, j) in enumerate(_pairs(nc)):
        idx[(i, j)] = k
        idx[(j, i)] = k
    cols = [idx[(perm[a], perm[b])] for a, b in _pairs(nc)]
    return np.asarray(vecs)[:, cols]


@oracle('C07/permutation')
def orc_permutation(case):
    """both bounds are averages over groups of similarities between RDMs: neither the order in which the data RDMs are stacked
    (labels moved along) nor the order in which the conditions are listed (all RDMs alike) enters"""
    method = case['method']
    nc = case['n_cond']
    vecs = _data(case)
    if _undetermined(case):
        return None
    n = len(vecs)
    labels = case.get('labels')
    rs = np.random.RandomState(case['seed'] + 611953)
    r0 = _boot(vecs, method, labels, case)
    todo = []
    for k in range(case.get('n_perm', 2)):
        pr = [int(i) for i in rs.permutation(n)]
        todo.append((f'stacking the RDMs in the order {pr}', vecs[pr], [labels[i] for i in pr] if labels is not None else None))
        pc = [int(i) for i in rs.permutation(nc)]
        todo.append((f'listing the conditions in the order {pc}', _permute_conds(vecs, nc, pc), labels))
    todo.append(('stacking the RDMs in reverse order', vecs[::-1], list(labels)[::-1] if labels is not None else None))
    todo.append(('listing the conditions in reverse order', _permute_conds(vecs, nc, list(range(nc))[::-1]), labels))
    for what, v2, l2 in todo:
        r = _boot(v2, method, l2, case)
        for nm, x, y in (('lower', r0[0], r[0]), ('upper', r0[1], r[1])):
            if not (np.isfinite(x) and np.isfinite(y)) or abs(x - y) > _tol(case, 1e-8):
                return f'{nm} bound changes from {x:.12g} to {y:.12g} by {what} (labels {labels})'
    return None


# =====================================================================================================
# domains
# =====================================================================================================
def _partitions(n):
    """all set partitions of range(n) as restricted growth strings"""
    def rec(prefix, mx):
        if len(prefix) == n:
            yield list(prefix)
            return
        for v in range(mx + 2):
            yield from rec(prefix + [v], max(mx, v))
    yield from rec([0], 0)


def _label_styles(rgs):
    k = max(rgs) + 1
    perm = [(7 * (g + 2)) % 11 + 10 * (g % 2) for g in range(k)]          # distinct, not sorted like the group numbers
    names = ['s%02d' % ((5 * g + 3) % 17) for g in range(k)]
    return [('int', list(rgs)), ('unsorted-int', [perm[g] for g in rgs]), ('str', [names[g] for g in rgs])]


def _grid_folds(n_rdm, n_cond, k_rdm, k_pat, plab=None):
    """k_rdm x k_pat fold grid: test = one RDM block at one condition block, ceil = the other RDMs at the same conditions"""
    vals = list(dict.fromkeys(plab)) if plab is not None else list(range(n_cond))
    rblocks = [list(range(n_rdm))[i::k_rdm] for i in range(k_rdm)]
    pblocks = [vals[i::k_pat] for i in range(k_pat)] if k_pat > 1 else [vals]
    folds = []
    for rb in rblocks:
        rest = [i for i in range(n_rdm) if i not in rb] if k_rdm > 1 else list(rb)
        for pb in pblocks:
            folds.append(dict(train=rest, test=list(rb), vals=list(pb)))
    return folds


def _random_folds(seed, n_rdm, n_cond, n_folds, plab=None):
    rs = np.random.RandomState(seed)
    vals = list(dict.fromkeys(plab)) if plab is not None else list(range(n_cond))
    folds = []
    for _ in range(n_folds):
        perm = [int(i) for i in rs.permutation(n_rdm)]
        nt = int(rs.randint(1, n_rdm))
        nv = int(rs.randint(3, len(vals) + 1))
        pv = [vals[int(i)] for i in rs.permutation(len(vals))[:nv]]
        folds.append(dict(train=sorted(perm[nt:]), test=sorted(perm[:nt]), vals=pv))
    return folds


def tier_c(run, thorough):
    bds = []

    # ---- rho-a: ALL data stacks and ALL candidates on 3 entries ------------------------------------------------------
    lev3 = _weak_orders(3)[0]
    sizes = (2, 3) if thorough else (2,)
    bd = Bounded(run, 'C07/rho-a-exhaustive/3-entries', OB_OPT,
                 'n_cond=3 (3 entries): EVERY ordered stack of %s data RDMs up to order-equivalence (13 weak orders each, ties and '
                 'constant RDMs included) x ALL 13 candidate weak orders; method rho-a; singleton groups'
                 % ' or '.join(map(str, sizes)), exhaustive=True, function='boot_noise_ceiling')
    for n in sizes:
        for stack in itertools.product(lev3, repeat=n):
            bd.check(orc_rho_exhaustive, dict(n_cond=3, levels=[list(s) for s in stack]), 'rho-a,levels', function='pool_rdm')
    bd.done()
    bds.append(bd)
    if not thorough:
        bd = Bounded(run, 'C07/rho-a-exhaustive/3-entries-sampled', OB_OPT,
                     'n_cond=3: every 5th of the 2197 ordered stacks of 3 data weak orders x ALL 13 candidate weak orders (thorough: all)',
                     function='boot_noise_ceiling')
        for k, stack in enumerate(itertools.product(lev3, repeat=3)):
            if k % 5 == 0:
                bd.check(orc_rho_exhaustive, dict(n_cond=3, levels=[list(s) for s in stack]), 'rho-a,levels', function='pool_rdm')
        bd.done()
        bds.append(bd)

    # ---- rho-a: ALL candidates on 4..6 entries, seeded (tied) data ----------------------------------------------------
    nan_sets = [[], [2], [0, 5], [4], [1, 3]] if thorough else [[], [2], [0, 5]]
    seeds = range(12 if thorough else 3)
    bd = Bounded(run, 'C07/rho-a-exhaustive/4-6-entries', OB_OPT,
                 'n_cond=4 with common missing entries %s (6 / 5 / 4 entries present): ALL 4683 / 541 / 75 candidate weak orders; '
                 'data: %d seeds x n_rdm 2..%d x integer data with 2..4 levels (ties) and continuous data%s; method rho-a'
                 % (nan_sets, len(seeds), 6 if thorough else 5,
                    '; plus EVERY ordered pair of data weak orders on 4 entries (75^2)' if thorough else ''),
                 function='boot_noise_ceiling')
    for nan in nan_sets:
        for seed in seeds:
            for n in range(2, 7 if thorough else 6):
                for kind, nlev in (('int', 2), ('int', 3), ('int', 4), ('pos', None)):
                    case = dict(n_cond=4, nan=nan, seed=seed * 10 + n, n_rdm=n, kind=kind)
                    if nlev:
                        case['nlev'] = nlev
                    bd.check(orc_rho_exhaustive, case, _ic('rho-a', case), function='pool_rdm')
    if thorough:
        lev4 = _weak_orders(4)[0]
        for s1 in lev4:
            for s2 in lev4:
                bd.check(orc_rho_exhaustive, dict(n_cond=4, nan=[1, 4], levels=[list(s1), list(s2)]), 'rho-a,levels,nan',
                         function='pool_rdm')
    bd.done()
    bds.append(bd)

    # ---- optimality at larger sizes: sampled / directed candidates ----------------------------------------------------
    shapes = [(2, 3), (2, 5), (3, 4), (4, 5), (5, 6), (8, 7)] + ([(3, 3), (3, 6), (6, 4), (7, 5), (10, 6), (12, 8)] if thorough else [])
    kinds = ('pos', 'scaled', 'neg', 'int', 'dup', 'anti')
    seeds = range(4 if thorough else 1)
    bd = Bounded(run, 'C07/optimal', OB_OPT,
                 '(n_rdm, n_cond) in %s x %d seeds x data kinds %s (different scales, negative values, ties, near-duplicates, '
                 'anti-correlated RDMs) x with / without common missing entries x methods cosine, corr, rho-a; per case ~%d '
                 'candidates: spec maximiser, data RDMs, raw / pairwise means, random, perturbed maximiser (1, 1e-1, 1e-2, 1e-4 sd), '
                 'neighbour swaps; singleton groups'
                 % (shapes, len(seeds), list(kinds), 60), function='boot_noise_ceiling')
    for (n, nc) in shapes:
        npair = nc * (nc - 1) // 2
        for seed in seeds:
            for kind in kinds:
                for nanv in (0, 1):
                    if nanv and npair < 6:
                        continue
                    for method in OPT_METHODS:
                        case = dict(seed=seed * 100 + n * 10 + nc, n_rdm=n, n_cond=nc, kind=kind, method=method)
                        if nanv and nc < 6:
                            case['nan'] = [1, npair - 2]
                        elif nanv:
                            case['nan_conds'] = [seed % nc]
                        bd.check(orc_optimal, case, _ic(method, case), function='pool_rdm')
    bd.done()
    bds.append(bd)

    # ---- leave-one-GROUP-out: every grouping ---------------------------------------------------------------------------
    max_n = 6 if thorough else 5
    bd = Bounded(run, 'C07/loo-groups', OB_LOO,
                 'EVERY set partition of n_rdm = 2..%d RDMs into >= 2 groups (singleton, balanced, unbalanced, interleaved) x label '
                 'styles int / unsorted int / string (+ default descriptor for singleton groups) x methods cosine, corr, rho-a x '
                 'data kinds pos / int(ties) / scaled / neg, n_cond 4..5, with / without common missing entries; seeded values'
                 % max_n, function='boot_noise_ceiling')
    for n in range(2, max_n + 1):
        for pk, rgs in enumerate(_partitions(n)):
            if max(rgs) == 0:
                continue
            for sk, (style, labels) in enumerate(_label_styles(rgs)):
                if n == 6 and sk != pk % 3:
                    continue
                for mk, method in enumerate(OPT_METHODS):
                    for kk, kind in enumerate(('pos', 'int', 'scaled', 'neg')):
                        if not thorough and (pk + sk + mk + kk) % 2 and kind in ('scaled', 'neg'):
                            continue
                        nc = 4 + (pk + kk) % 2
                        case = dict(seed=1000 * n + 10 * pk + kk, n_rdm=n, n_cond=nc, kind=kind, method=method, labels=labels)
                        if (pk + sk + kk) % 3 == 0:
                            case['nan'] = [0, 4] if nc == 4 else [2, 7, 8]
                        bd.check(orc_loo, case, _ic(method, case, labels), function='boot_noise_ceiling')
            if max(rgs) == n - 1:       # singleton groups through the default descriptor
                for method in OPT_METHODS:
                    for kind in ('pos', 'int', 'scaled'):
                        case = dict(seed=77 + n, n_rdm=n, n_cond=5, kind=kind, method=method)
                        bd.check(orc_loo, case, _ic(method, case, list(range(n))), function='boot_noise_ceiling')
    for seed in range(6 if thorough else 2):    # larger stacks, as they arise in RDM bootstraps (repeated draws -> groups)
        rs = np.random.RandomState(seed)
        for n in (8, 12):
            labels = sorted(int(x) for x in rs.randint(0, n, size=n))
            if len(set(labels)) < 2:
                continue
            for method in OPT_METHODS:
                case = dict(seed=seed, n_rdm=n, n_cond=6, kind='pos' if seed % 2 else 'int', method=method, labels=labels)
                bd.check(orc_loo, case, _ic(method, case, labels), function='boot_noise_ceiling')
    # ceilings of bootstrap resamples of the stack (default grouping by 'index': the copies of one RDM are one group)
    for k, draw in enumerate(([0, 0, 2, 3, 3], [4, 1, 1, 1, 0, 2], [3, 3, 0, 0, 1])):
        for method in OPT_METHODS:
            case = dict(seed=40 + k, n_rdm=5, n_cond=5 + k % 2, kind='pos' if k % 2 else 'int', method=method, draw=draw)
            bd.check(orc_loo, case, f'{method},resampled-stack,default-index-grouping', function='boot_noise_ceiling')
    bd.done()
    bds.append(bd)

    # ---- upper bound with non-singleton groups: same averaging over groups -------------------------------------------
    bd = Bounded(run, 'C07/upper-grouped', OB_UPG,
                 'EVERY set partition of n_rdm = 3..%d RDMs into >= 2 groups with at least one group of >= 2 RDMs x methods cosine, '
                 'corr, rho-a x data kinds pos / int, label styles rotating, n_cond 4..5; seeded values' % max_n,
                 function='boot_noise_ceiling')
    for n in range(3, max_n + 1):
        for pk, rgs in enumerate(_partitions(n)):
            if max(rgs) == 0 or max(rgs) == n - 1:
                continue
            style, labels = _label_styles(rgs)[pk % 3]
            for mk, method in enumerate(OPT_METHODS):
                kind = 'int' if (pk + mk) % 2 else 'pos'
                case = dict(seed=500 * n + pk, n_rdm=n, n_cond=4 + pk % 2, kind=kind, method=method, labels=labels)
                if kind == 'int':
                    case['nlev'] = 4
                bd.check(orc_upper_grouped, case, _ic(method, case, labels), function='boot_noise_ceiling')
    bd.done()
    bds.append(bd)

    # ---- lower <= upper -------------------------------------------------------------------------------------------------
    shapes = [(2, 3), (2, 4), (3, 4), (3, 5), (4, 5), (5, 6), (8, 7)] + ([(2, 6), (3, 3), (4, 4), (6, 5), (10, 6), (16, 5)] if thorough else [])
    seeds = range(10 if thorough else 2)
    bd = Bounded(run, 'C07/ordering', OB_ORD,
                 '(n_rdm, n_cond) in %s x %d seeds x data kinds %s x no missing / scattered common missing entries / all entries of '
                 'one condition missing x methods cosine, corr, cosine_cov, corr_cov; singleton groups'
                 % (shapes, len(seeds), list(kinds)), function='boot_noise_ceiling')
    for (n, nc) in shapes:
        npair = nc * (nc - 1) // 2
        for seed in seeds:
            for kind in kinds:
                for nanv in (0, 1, 2):
                    if nanv == 1 and npair < 6:
                        continue
                    if nanv == 2 and nc < 4:
                        continue
                    for method in ORD_METHODS:
                        case = dict(seed=seed * 100 + n * 10 + nc + 5, n_rdm=n, n_cond=nc, kind=kind, method=method)
                        if nanv == 1:
                            case['nan'] = [0, npair - 3]
                        elif nanv == 2:
                            case['nan_conds'] = [(seed + 1) % nc]
                        bd.check(orc_ordering, case, _ic(method, case), function='boot_noise_ceiling')
    bd.done()
    bds.append(bd)

    # ---- invariance ------------------------------------------------------------------------------------------------------
    seeds = range(6 if thorough else 2)
    groupings = [None, [0, 0, 1, 1, 2], [3, 1, 3, 3, 2], ['b', 'a', 'b', 'c', 'a']]
    bd = Bounded(run, 'C07/invariance', OB_INV,
                 '%d seeds x n_rdm 5 (boot: default descriptor and 3 groupings) / n_rdm 4 (cv: 2x2 grid and random folds) x n_cond 5..6 x '
                 'data kinds pos / neg / int x with / without common missing entries x methods cosine, corr, cosine_cov, corr_cov; '
                 'factors 10^U(-2,2) (one case per seed with U(-6,6)), shifts 5 N(0,1) for the correlation types; all RDMs or one RDM '
                 'transformed' % len(seeds), function='boot_noise_ceiling')
    for seed in seeds:
        for method in ORD_METHODS:
            cls = 'whitened' if method.endswith('_cov') else 'plain'
            for kk, kind in enumerate(('pos', 'neg', 'int')):
                for gk, labels in enumerate(groupings):
                    case = dict(seed=seed * 10 + kk, n_rdm=5, n_cond=5 + (gk % 2), kind=kind, method=method)
                    if labels is not None:
                        case['labels'] = labels
                    if (gk + kk) % 2:
                        case['nan_conds'] = [1]
                    if gk == 1:
                        case['only'] = seed % 5
                    if not _undetermined(case):
                        bd.check(orc_invariance, case, f'{method},{cls},boot', function='boot_noise_ceiling')
                for folds in (_grid_folds(4, 6, 2, 2), _random_folds(seed, 4, 6, 3)):
                    case = dict(seed=seed * 10 + kk, n_rdm=4, n_cond=6, kind=kind, method=method, folds=folds)
                    if kind == 'int':
                        case['nlev'] = 7
                    if not _undetermined(case):
                        bd.check(orc_invariance, case, f'{method},{cls},cv', function='cv_noise_ceiling')
            case = dict(seed=seed, n_rdm=5, n_cond=5, kind='pos', method=method, decades=6)
            bd.check(orc_invariance, case, f'{method},{cls},boot', function='boot_noise_ceiling')
    bd.done()
    bds.append(bd)

    # ---- missing entries: condition removal ----------------------------------------------------------------------------
    seeds = range(5 if thorough else 2)
    bd = Bounded(run, 'C07/missing', OB_MISS,
                 '%d seeds x n_rdm 3..5 x n_cond 5..6, every single condition and some pairs of conditions made missing in all RDMs x '
                 'methods cosine, corr, rho-a, cosine_cov, corr_cov x singleton / grouped x data kinds pos / int' % len(seeds),
                 function='boot_noise_ceiling')
    for seed in seeds:
        for n in (3, 4, 5):
            nc = 5 + (n + seed) % 2
            drops = [[c] for c in range(nc)] + [[0, nc - 1], [1, 2]]
            for dk, drop in enumerate(drops):
                for method in ALL_METHODS:
                    kind = 'int' if (dk + seed) % 2 else 'pos'
                    case = dict(seed=seed * 7 + n, n_rdm=n, n_cond=nc, kind=kind, method=method, drop=drop)
                    if kind == 'int':
                        case['nlev'] = 6
                    labels = None
                    if dk % 3 == 1:
                        labels = [i % 2 for i in range(n)] if n > 3 else [0, 1, 1]
                        case['labels'] = labels
                    cls = 'whitened' if method.endswith('_cov') else 'plain'
                    bd.check(orc_missing, case, f'{method},{cls},condition-missing', function='_nan_mean')
    bd.done()
    bds.append(bd)

    # ---- cross-validated ceiling -----------------------------------------------------------------------------------------
    seeds = range(5 if thorough else 2)
    bd = Bounded(run, 'C07/cv', OB_CV,
                 '%d seeds x fold structures {k_rdm x k_pattern grids (2x2, 3x2, 2x1, 1x2), 2-4 overlapping random test sets (1..n-1 '
                 'test RDMs, >= 3 test conditions in shuffled order), leave-one-RDM-out with all conditions, ceil sets holding all '
                 'conditions} x n_rdm 3..6, n_cond 6..8 x index / string / repeated pattern labels (same condition twice -> missing '
                 'entry) x methods cosine, corr, rho-a x data kinds pos / int / scaled' % len(seeds), function='cv_noise_ceiling')
    names8 = ['c7', 'c2', 'c5', 'c0', 'c9', 'c1', 'c4', 'c3']
    for seed in seeds:
        for n in (3, 4, 6):
            for nc in (6, 8):
                structs = [('grid2x2', _grid_folds(n, nc, 2, 2), None, False),
                           ('grid3x2', _grid_folds(n, nc, 3, 2), None, False),
                           ('grid2x1', _grid_folds(n, nc, 2, 1), None, False),
                           ('grid1x2', _grid_folds(n, nc, 1, 2), None, False),
                           ('random', _random_folds(seed * 31 + n + nc, n, nc, 2 + seed % 3), None, False),
                           ('loo-rdm', [dict(train=[j for j in range(n) if j != i], test=[i], vals=list(range(nc))) for i in range(n)],
                            None, False),
                           ('ceil-full', _random_folds(seed * 17 + n, n, nc, 2), None, True)]
                plab = names8[:nc]
                structs.append(('grid2x2,str-labels', _grid_folds(n, nc, 2, 2, plab), plab, False))
                structs.append(('random,str-labels', _random_folds(seed * 13 + nc, n, nc, 3, plab), plab, False))
                rep = [0, 1, 2, 2, 3, 4, 5, 5][:nc] if nc == 8 else [0, 1, 1, 2, 3, 4]
                structs.append(('grid2x1,repeated-labels', _grid_folds(n, nc, 2, 1, rep), rep, False))
                structs.append(('random,repeated-labels', [dict(train=list(range(1, n)), test=[0], vals=sorted(set(rep))[:4]),
                                                           dict(train=[0], test=list(range(1, n)), vals=sorted(set(rep))[1:])],
                                rep, False))
                for sk, (sname, folds, pl, cf) in enumerate(structs):
                    for mk, method in enumerate(OPT_METHODS):
                        kind = ('pos', 'int', 'scaled')[(sk + mk + seed) % 3]
                        case = dict(seed=seed * 100 + n * 10 + nc, n_rdm=n, n_cond=nc, kind=kind, method=method, folds=folds)
                        if kind == 'int':
                            case['nlev'] = 5
                        if pl is not None:
                            case['pattern_labels'] = pl
                        if cf:
                            case['ceil_full'] = True
                        bd.check(orc_cv, case, f'{method},{sname}', function='cv_noise_ceiling')
    bd.done()
    bds.append(bd)

    # ---- Result.noise_ceiling -------------------------------------------------------------------------------------------
    bd = Bounded(run, 'C07/result', OB_RES,
                 'eval_fixed (n_rdm 2..5, n_cond 4..6), crossval with ceil_set (2x2 / 2x3 grids, n_rdm 4, n_cond 6..9) and without '
                 'ceil_set (pattern folds only) x methods cosine, corr, rho-a (+ cosine_cov, corr_cov: not applicable, skipped) x %d seeds'
                 % (3 if thorough else 1), function='eval_fixed')
    for seed in range(3 if thorough else 1):
        for method in OPT_METHODS:
            for n, nc in ((2, 4), (3, 5), (5, 6)):
                case = dict(seed=seed + n, n_rdm=n, n_cond=nc, kind='pos' if n != 3 else 'int', method=method, mode='fixed')
                bd.check(orc_result, case, f'{method},eval_fixed', function='eval_fixed')
            for nc, kp in ((6, 2), (9, 3)):
                case = dict(seed=seed + nc, n_rdm=4, n_cond=nc, kind='pos', method=method, mode='crossval',
                            folds=_grid_folds(4, nc, 2, kp))
                bd.check(orc_result, case, f'{method},crossval', function='crossval')
                case = dict(seed=seed + nc, n_rdm=4, n_cond=nc, kind='pos', method=method, mode='crossval-noceil',
                            folds=_grid_folds(4, nc, 1, kp))
                bd.check(orc_result, case, f'{method},crossval-noceil', function='crossval')
    bd.done()
    bds.append(bd)
    _sweeps(run, thorough, bds)
    return bds


# =====================================================================================================
# dimension sweeps: the same oracles on inputs that vary along ONE further dimension each
# =====================================================================================================
_OB_OF = {'C07/optimal': OB_OPT, 'C07/loo': OB_LOO, 'C07/upper-grouped': OB_UPG, 'C07/ordering': OB_ORD, 'C07/invariance': OB_INV,
          'C07/missing': OB_MISS, 'C07/cv': OB_CV, 'C07/result': OB_RES, 'C07/calls': OB_CALL, 'C07/new-interpreter': OB_ENV,
          'C07/permutation': OB_PERM, 'C07/dtype-promotion': OB_TYPE}
_FN_OF = {'C07/optimal': 'pool_rdm', 'C07/cv': 'cv_noise_ceiling', 'C07/result': 'eval_fixed', 'C07/missing': '_nan_mean'}


class _Sweep:
    """collects the cases of one dimension and files them as one Bounded per oracle (= per obligation)"""

    def __init__(self, run, bds, dim, domain):
        self.run, self.bds, self.dim, self.domain = run, bds, dim, domain
        self.items = {}

    def add(self, orc, case, input_class, function=None):
        self.items.setdefault(orc.oracle_name, []).append((orc, case, input_class, function))

    def done(self):
        for name, items in self.items.items():
            fn = _FN_OF.get(name, 'boot_noise_ceiling')
            bd = Bounded(self.run, f'C07/sweep-{self.dim}/{name[4:]}', _OB_OF[name], self.domain, function=fn)
            for orc, case, ic, f in items:
                bd.check(orc, case, ic, function=f or fn)
            bd.done()
            self.bds.append(bd)


def _square_fits(case):
    """integer-typed data whose squares still fit the type"""
    return float(np.nanmax(np.abs(_data(case)))) ** 2 <= np.iinfo(case['dtype']).max


def _sweeps(run, thorough, bds):
    grp5 = [3, 1, 3, 3, 2]
    folds46 = _grid_folds(4, 6, 2, 2)

    # ---- typed data: integer types and float32.  expected = the stated value for the same numbers as float64 ------------------
    sw = _Sweep(run, bds, 'dtype',
                'data RDMs handed over as int64 / int32 / int16 / uint8 (integer data, squares inside the type) and float32 (tolerance '
                '1e-5), also as square matrices; n_rdm 3..5, n_cond 4..6, %d seeds; oracles optimal / loo / upper-grouped / ordering / '
                'cv / result / missing (float32) / calls / permutation / dtype-promotion (all 5 methods: same bounds as for the same values '
                'as float64); float32 also in units 1e-12, 1e+12'
                % (3 if thorough else 1))
    for seed in range(3 if thorough else 1):
        for dk, dt in enumerate(INT_DTYPES + ('float32',)):
            ints = dt in INT_DTYPES
            kinds = ('int',) if ints else ('pos', 'neg')
            base = dict(dtype=dt)
            if ints:
                base['nlev'] = (3, 6, 9, 12)[(dk + seed) % 4]
            for sk, (n, nc) in enumerate(((3, 4), (5, 6))):
                for kk, kind in enumerate(kinds):
                    for method in OPT_METHODS:
                        if not thorough and (sk + kk + dk) % 2:      # quick: one shape per type (float32: per kind)
                            continue
                        case = dict(base, seed=seed * 100 + n * 10 + nc + 3, n_rdm=n, n_cond=nc, kind=kind, method=method)
                        if nc == 6 and not ints:
                            case['nan'] = [1, 13]
                        if nc == 6 and dk % 2:
                            case['matrix_input'] = True
                        sw.add(orc_optimal, case, _ic(method, case))
                    for method in ORD_METHODS:
                        case = dict(base, seed=seed * 100 + n * 10 + nc + 4, n_rdm=n, n_cond=nc, kind=kind, method=method)
                        sw.add(orc_ordering, case, _ic(method, case))
            for kind in kinds:
                for method in OPT_METHODS:
                    for labels in (None, grp5, ['b', 'a', 'b', 'c', 'a']):
                        case = dict(base, seed=seed * 100 + 55, n_rdm=5, n_cond=5, kind=kind, method=method)
                        if labels is not None:
                            case['labels'] = labels
                        sw.add(orc_loo, case, _ic(method, case, labels or list(range(5))))
                        if labels is not None:
                            sw.add(orc_upper_grouped, case, _ic(method, case, labels))
                    case = dict(base, seed=seed * 100 + 46, n_rdm=4, n_cond=6, kind=kind, method=method, folds=folds46)
                    sw.add(orc_cv, case, f'{method},grid2x2' + _dim(case))
                    case = dict(base, seed=seed + 3, n_rdm=3, n_cond=5, kind=kind, method=method, mode='fixed')
                    sw.add(orc_result, case, f'{method},eval_fixed' + _dim(case))
                    case = dict(base, seed=seed + 6, n_rdm=4, n_cond=6, kind=kind, method=method, mode='crossval', folds=folds46)
                    sw.add(orc_result, case, f'{method},crossval' + _dim(case))
                for mk, method in enumerate(ALL_METHODS):
                    cls = 'whitened' if method.endswith('_cov') else 'plain'
                    for gk, labels in enumerate((None, grp5)):
                        if not thorough and (gk + mk + dk) % 2:       # quick: one of the two groupings per type and method
                            continue
                        case = dict(base, seed=seed * 10 + 2, n_rdm=5, n_cond=5, kind=kind, method=method, n_perm=1)
                        if labels is not None:
                            case['labels'] = labels
                        sw.add(orc_calls, case, f'{method},{cls},boot' + _dim(case))
                        if not _undetermined(case):
                            sw.add(orc_permutation, case, f'{method},{cls},boot' + _dim(case))
                    if thorough or (mk + dk) % 2:
                        case = dict(base, seed=seed * 10 + 3, n_rdm=4, n_cond=6, kind=kind, method=method, folds=folds46)
                        sw.add(orc_calls, case, f'{method},{cls},cv' + _dim(case), 'cv_noise_ceiling')
                    for labels in (None, grp5):
                        case = dict(base, seed=seed * 10 + 4, n_rdm=5, n_cond=5 + mk % 2, kind=kind, method=method)
                        if labels is not None:
                            case['labels'] = labels
                        sw.add(orc_promotion, case, f'{method},{cls},boot' + _dim(case))
                    case = dict(base, seed=seed * 10 + 5, n_rdm=4, n_cond=6, kind=kind, method=method, folds=folds46)
                    sw.add(orc_promotion, case, f'{method},{cls},cv' + _dim(case), 'cv_noise_ceiling')
            if not ints:
                for method in ALL_METHODS:
                    cls = 'whitened' if method.endswith('_cov') else 'plain'
                    for drop in ([0], [1, 4]):
                        case = dict(base, seed=seed * 7 + 1, n_rdm=4, n_cond=6, kind='pos', method=method, drop=drop)
                        sw.add(orc_missing, case, f'{method},{cls},condition-missing' + _dim(case))
                    for unit in (-12, 12):
                        case = dict(base, seed=seed + 8, n_rdm=4, n_cond=5, kind='pos', method=method, unit=unit)
                        if method in OPT_METHODS:
                            sw.add(orc_loo, case, _ic(method, case, list(range(4))))
                        else:
                            sw.add(orc_ordering, case, _ic(method, case))
    for case_list in sw.items.values():      # the classes above hold integer data whose squares fit the type
        for _, case, _, _ in case_list:
            assert case['dtype'] == 'float32' or _square_fits(case), case
    # large values: integer data whose SQUARES leave the integer type, float32 data whose squares leave the float32 range
    # (unit 1e-26: underflow, 1e+20: overflow).  The methods for which rsatoolbox copes are checked here, the others wait.
    big_ints = (('uint8', 40), ('uint8', 250), ('int16', 400), ('int16', 30000), ('int32', 70000), ('int64', 2 ** 32))
    for dt, nlev in big_ints:
        for method in ('corr', 'rho-a', 'corr_cov'):
            case = dict(dtype=dt, nlev=nlev, seed=5, n_rdm=4, n_cond=5, kind='int', method=method)
            sw.add(orc_promotion, case, f'{method},int-dtype,large-values')
            if method != 'corr_cov':
                sw.add(orc_loo, case, f'{method},int-dtype,large-values')
    for unit in (-26, 20):
        case = dict(dtype='float32', unit=unit, seed=8, n_rdm=4, n_cond=5, kind='pos', method='rho-a')
        sw.add(orc_promotion, case, 'rho-a,float32,large-unit')
        sw.add(orc_loo, case, 'rho-a,float32,large-unit')
    if True:   # repaired in /repo 6c46c3d0 (was pending triage): cosine,int-dtype,square-overflow / cosine_cov,int-dtype,square-overflow
        for dt, nlev in big_ints:
            for method in ('cosine', 'cosine_cov'):
                case = dict(dtype=dt, nlev=nlev, seed=5, n_rdm=4, n_cond=5, kind='int', method=method)
                sw.add(orc_promotion, case, f'{method},int-dtype,square-overflow')
                if method == 'cosine':
                    sw.add(orc_loo, case, f'{method},int-dtype,square-overflow')
                    sw.add(orc_optimal, case, f'{method},int-dtype,square-overflow')
    if True:   # repaired in /repo 6c46c3d0 (was pending triage): <cosine|corr|cosine_cov|corr_cov>,float32,square-outside-float32-range
        for unit in (-26, 20):
            for method in ORD_METHODS:
                case = dict(dtype='float32', unit=unit, seed=8, n_rdm=4, n_cond=5, kind='pos', method=method)
                sw.add(orc_promotion, case, f'{method},float32,square-outside-float32-range')
                if method in OPT_METHODS:
                    sw.add(orc_loo, case, f'{method},float32,square-outside-float32-range')
    sw.done()

    # ---- units: the same RDMs measured in a unit 1e-26 .. 1e+12 times the usual one -------------------------------------------
    units = (-26, -20, -12, 6, 12) + ((-16, -6, 9) if thorough else ())
    sw = _Sweep(run, bds, 'unit',
                'all values multiplied by 10^u, u in %s (float64): every absolute threshold would show; n_rdm 3..5, n_cond 4..6, data '
                'kinds pos / int / anti / neg rotating, %d seeds; oracles optimal / loo / upper-grouped / ordering / invariance (further '
                'individual factors) / missing / cv / result / permutation' % (list(units), 2 if thorough else 1))
    for seed in range(2 if thorough else 1):
        for uk, unit in enumerate(units):
            for mk, method in enumerate(OPT_METHODS):
                for sk, (n, nc) in enumerate(((3, 4), (4, 5))):
                    if not thorough and (sk + uk + mk) % 2:          # quick: one shape per unit and method
                        continue
                    kind = ('pos', 'int', 'anti', 'neg')[(uk + mk + sk + seed) % 4]
                    case = dict(seed=seed * 100 + n * 10 + nc + 1, n_rdm=n, n_cond=nc, kind=kind, method=method, unit=unit)
                    if sk and uk % 2:
                        case['nan'] = [0, 7]
                    sw.add(orc_optimal, case, _ic(method, case))
                for labels in (None, grp5):
                    kind = ('pos', 'int', 'neg')[(uk + mk + seed) % 3]
                    case = dict(seed=seed * 100 + 57, n_rdm=5, n_cond=5, kind=kind, method=method, unit=unit)
                    if labels is not None:
                        case['labels'] = labels
                        sw.add(orc_upper_grouped, case, _ic(method, case, labels))
                    sw.add(orc_loo, case, _ic(method, case, labels or list(range(5))))
                kind = ('pos', 'int', 'scaled')[(uk + mk) % 3]
                case = dict(seed=seed * 100 + 47, n_rdm=4, n_cond=6, kind=kind, method=method, folds=folds46, unit=unit)
                if kind == 'int':
                    case['nlev'] = 5
                sw.add(orc_cv, case, f'{method},grid2x2' + _dim(case))
                case = dict(seed=seed + 4, n_rdm=3, n_cond=5, kind='pos', method=method, mode='fixed', unit=unit)
                sw.add(orc_result, case, f'{method},eval_fixed' + _dim(case))
            for mk, method in enumerate(ALL_METHODS):
                cls = 'whitened' if method.endswith('_cov') else 'plain'
                kind = ('pos', 'neg', 'int')[(uk + mk) % 3]
                if method in ORD_METHODS:
                    for (n, nc) in ((3, 4), (5, 6)):
                        case = dict(seed=seed * 100 + n * 10 + nc + 6, n_rdm=n, n_cond=nc, kind=kind, method=method, unit=unit)
                        sw.add(orc_ordering, case, _ic(method, case))
                    for labels in (None, grp5):
                        case = dict(seed=seed * 10 + uk, n_rdm=5, n_cond=5, kind=kind, method=method, unit=unit)
                        if labels is not None:
                            case['labels'] = labels
                        if not _undetermined(case):
                            sw.add(orc_invariance, case, f'{method},{cls},boot' + _dim(case))
                    case = dict(seed=seed * 10 + uk, n_rdm=4, n_cond=6, kind=kind, method=method, folds=folds46, unit=unit)
                    if kind == 'int':
                        case['nlev'] = 7
                    if not _undetermined(case):
                        sw.add(orc_invariance, case, f'{method},{cls},cv' + _dim(case), 'cv_noise_ceiling')
                case = dict(seed=seed * 7 + uk, n_rdm=4, n_cond=5, kind='pos', method=method, drop=[uk % 5], unit=unit)
                sw.add(orc_missing, case, f'{method},{cls},condition-missing' + _dim(case))
                case = dict(seed=seed * 10 + uk + 1, n_rdm=5, n_cond=5, kind='pos', method=method, unit=unit, labels=grp5, n_perm=1)
                if not _undetermined(case):
                    sw.add(orc_permutation, case, f'{method},{cls},boot' + _dim(case))
    sw.done()

    # ---- containers and label types ----------------------------------------------------------------------------------------------
    styles = [('float', lambda g: [2.5, -1.5, 0.25, 7.0, 3.5, -0.75][g]), ('negative-int', lambda g: [-3, 4, -10, 0, 2, -1][g]),
              ('bool', lambda g: [True, False][g]), ('numeric-str', lambda g: ['10', '9', '2', '100', '1', '33'][g]),
              ('mixed-length-str', lambda g: ['b', 'ab', 'B', 'a', 'abc', ''][g]), ('numpy-str', lambda g: ['s3', 's1', 's2', 's0', 's5', 's4'][g]),
              ('numpy-int', lambda g: [7, 3, 5, 1, 9, 0][g])]
    sw = _Sweep(run, bds, 'containers',
                'rdm / pattern descriptors as list, tuple and ndarray; group labels float, negative int, bool, numeric strings (string '
                'order != numeric order), strings of mixed length, numpy str / numpy int; data as square matrices; decoy descriptors '
                'before and after the one that is named; fold values of the cv sets as list / tuple / ndarray; EVERY set partition of '
                '%s RDMs into >= 2 groups x label types rotating, methods cosine / corr / rho-a rotating'
                % ('4 and 5' if thorough else '4'))
    for n in ((4, 5) if thorough else (4,)):
        for pk, rgs in enumerate(_partitions(n)):
            if max(rgs) == 0:
                continue
            for sk, (sname, fun) in enumerate(styles):
                if sname == 'bool' and max(rgs) > 1:
                    continue
                labels = [fun(g) for g in rgs]
                method = OPT_METHODS[(pk + sk) % 3]
                kind = ('pos', 'int', 'neg')[(pk + 2 * sk) % 3]
                case = dict(seed=2000 * n + 10 * pk + sk, n_rdm=n, n_cond=4 + pk % 2, kind=kind, method=method, labels=labels,
                            label_style=sname)
                if sname.startswith('numpy'):
                    case['label_container'] = 'ndarray'
                elif (pk + sk) % 3:
                    case['label_container'] = ('tuple', 'ndarray')[(pk + sk) % 3 - 1]
                if (pk + sk) % 4 == 0:
                    case['decoys'] = True
                if (pk + sk) % 5 == 0:
                    case['matrix_input'] = True
                sw.add(orc_loo, case, _ic(method, case, labels))
                if max(rgs) < n - 1 and (pk + sk) % 2:
                    sw.add(orc_upper_grouped, case, _ic(method, case, labels))
    names8 = ['c7', 'c2', 'c5', 'c0', 'c9', 'c1', 'c4', 'c3']
    for seed in range(3 if thorough else 1):
        for mk, method in enumerate(OPT_METHODS):
            for ck, how in enumerate(('list', 'tuple', 'ndarray')):
                for lk, plab in enumerate((None, names8[:6], [0, 1, 1, 2, 3, 4])):
                    folds = _grid_folds(4, 6, 2, 2, plab) if (ck + lk) % 2 else _random_folds(seed * 5 + ck + lk, 4, 6, 3, plab)
                    case = dict(seed=seed * 100 + 40 + ck, n_rdm=4, n_cond=6, kind=('pos', 'int', 'scaled')[(mk + ck + lk) % 3],
                                method=method, folds=folds, vals_container=how)
                    if case['kind'] == 'int':
                        case['nlev'] = 5
                    if plab is not None:
                        case['pattern_labels'] = plab
                        case['label_container'] = how
                    if (mk + ck + lk) % 2:
                        case['decoys'] = True
                    if (mk + ck) % 3 == 0:
                        case['matrix_input'] = True
                    sname = ('index', 'str-labels', 'repeated-labels')[lk]
                    sw.add(orc_cv, case, f'{method},{sname}' + _dim(case))
                    if lk < 2 and (ck + lk) % 2:      # grid folds: the other conditions form the training set
                        sw.add(orc_result, dict(case, mode='crossval'), f'{method},crossval' + _dim(case))
            for (n, nc) in ((3, 4), (4, 5)):
                case = dict(seed=seed * 100 + n + nc, n_rdm=n, n_cond=nc, kind='pos', method=method, matrix_input=True)
                sw.add(orc_optimal, case, _ic(method, case))
        for method in ALL_METHODS:
            cls = 'whitened' if method.endswith('_cov') else 'plain'
            case = dict(seed=seed + 21, n_rdm=5, n_cond=5, kind='pos', method=method, labels=['b', 'a', 'b', 'c', 'a'],
                        label_container='ndarray', decoys=True, matrix_input=True)
            sw.add(orc_calls, case, f'{method},{cls},boot' + _dim(case))
            if method in ORD_METHODS:
                sw.add(orc_invariance, case, f'{method},{cls},boot' + _dim(case))
            sw.add(orc_missing, dict(case, drop=[2]), f'{method},{cls},condition-missing' + _dim(case))
    sw.done()

    # ---- sizes: single-entry RDMs, many RDMs, many conditions ---------------------------------------------------------------------
    sw = _Sweep(run, bds, 'sizes',
                'n_cond = 2 (ONE entry; cosine only, a single entry has no correlation) with n_rdm 2..5 and every grouping of 3; '
                'n_rdm 30 in 7 unbalanced interleaved groups with unsorted labels, n_cond 8; optimal at (n_rdm, n_cond) = (20, 9), '
                '(2, 12); ordering at (40, 6), (3, 14); cv with 12 RDMs x 12 conditions in a 3 x 3 grid%s'
                % ('; thorough: rho-a at these sizes, (60 RDMs, 10 conditions), (6, 20)' if thorough else ' (cosine, corr; rho-a: thorough)'))
    for n in (2, 3, 4, 5):
        case = dict(seed=n, n_rdm=n, n_cond=2, kind='pos', method='cosine')
        sw.add(orc_loo, case, _ic('cosine', case, list(range(n))) + ',single-entry')
    for rgs in ([0, 0, 1], [0, 1, 0], [0, 1, 1], [0, 1, 2]):
        case = dict(seed=11, n_rdm=3, n_cond=2, kind='pos', method='cosine', labels=rgs)
        sw.add(orc_loo, case, _ic('cosine', case, rgs) + ',single-entry')
    big_methods = OPT_METHODS if thorough else ('cosine', 'corr')
    rs = np.random.RandomState(30)
    lab30 = [[41, 7, 19, 3, 88, 5, 23][int(g)] for g in rs.choice(7, size=30, p=[.3, .25, .15, .1, .1, .05, .05])]
    for method in big_methods:
        for kind in ('pos', 'int'):
            case = dict(seed=30, n_rdm=30, n_cond=8, kind=kind, method=method, labels=lab30)
            sw.add(orc_loo, case, _ic(method, case, lab30) + ',many-rdms')
        sw.add(orc_upper_grouped, dict(seed=31, n_rdm=30, n_cond=8, kind='pos', method=method, labels=lab30),
               f'{method},pos,unbalanced-groups,many-rdms')
        for (n, nc) in ((20, 9), (2, 12)):
            case = dict(seed=n + nc, n_rdm=n, n_cond=nc, kind='pos' if n == 20 else 'neg', method=method, n_rand=6)
            sw.add(orc_optimal, case, _ic(method, case) + ',large')
        case = dict(seed=12, n_rdm=12, n_cond=12, kind='pos', method=method, folds=_grid_folds(12, 12, 3, 3))
        sw.add(orc_cv, case, f'{method},grid3x3,large')
    for method in ORD_METHODS:
        for (n, nc) in ((40, 6), (3, 14)):
            for kind in ('pos', 'neg'):
                case = dict(seed=n + nc, n_rdm=n, n_cond=nc, kind=kind, method=method)
                sw.add(orc_ordering, case, _ic(method, case) + ',large')
    if thorough:
        lab60 = [int(g) for g in np.random.RandomState(60).randint(0, 12, size=60)]
        for method in OPT_METHODS:
            case = dict(seed=60, n_rdm=60, n_cond=10, kind='pos', method=method, labels=lab60)
            sw.add(orc_loo, case, _ic(method, case, lab60) + ',many-rdms')
            case = dict(seed=61, n_rdm=6, n_cond=20, kind='pos', method=method, n_rand=4)
            sw.add(orc_optimal, case, _ic(method, case) + ',large')
            sw.add(orc_loo, dict(case, n_rand=None), _ic(method, case, list(range(6))) + ',large')
    sw.done()

    # ---- call sequences --------------------------------------------------------------------------------------------------------------
    sw = _Sweep(run, bds, 'calls',
                'f(B), f(A), f(B), f(A) on the same objects, A and B of the same shape and descriptors with different values; '
                'boot_noise_ceiling (default descriptor and 3 groupings, n_rdm 5, n_cond 5..6) and cv_noise_ceiling (2x2 grid, random '
                'folds, string pattern labels; n_rdm 4, n_cond 6) x 5 methods x data kinds pos / int / neg x %d seeds; repeated '
                'calls identical, stated value for each stack, inputs and fold sets unchanged, pooled RDM held by the caller unchanged'
                % (3 if thorough else 1))
    groupings = [None, [0, 0, 1, 1, 2], grp5, ['b', 'a', 'b', 'c', 'a']]
    for seed in range(3 if thorough else 1):
        for method in ALL_METHODS:
            cls = 'whitened' if method.endswith('_cov') else 'plain'
            for gk, labels in enumerate(groupings):
                kind = ('pos', 'int', 'neg')[(gk + seed) % 3] if method in OPT_METHODS else 'pos'
                case = dict(seed=seed * 10 + gk, n_rdm=5, n_cond=5 + gk % 2, kind=kind, method=method)
                if labels is not None:
                    case['labels'] = labels
                if gk == 2:
                    case['nan_conds'] = [1]
                sw.add(orc_calls, case, f'{method},{cls},boot')
            for fk, (folds, plab) in enumerate(((folds46, None), (_random_folds(seed + 3, 4, 6, 3), None),
                                                (_grid_folds(4, 6, 2, 2, names8[:6]), names8[:6]))):
                case = dict(seed=seed * 10 + fk, n_rdm=4, n_cond=6, kind='pos', method=method, folds=folds)
                if plab is not None:
                    case['pattern_labels'] = plab
                sw.add(orc_calls, case, f'{method},{cls},cv', 'cv_noise_ceiling')
    sw.done()

    # ---- order of the RDMs / of the conditions -----------------------------------------------------------------------------------
    sw = _Sweep(run, bds, 'order',
                'the stack in %d random order(s) and reversed (labels moved along), the conditions listed in as many random orders and reversed: '
                'same bounds (1e-8); 5 methods x default descriptor and 3 groupings (n_rdm 5..6, n_cond 5..6) x data kinds pos / neg / '
                'int x with / without common missing entries x %d seeds; stacks with an undetermined prediction left out'
                % (2 if thorough else 1, 4 if thorough else 1))
    groupings = [None, [0, 0, 1, 1, 2, 2], [3, 1, 3, 3, 2, 1], ['b', 'a', 'b', 'c', 'a', 'c']]
    for seed in range(4 if thorough else 1):
        for method in ALL_METHODS:
            cls = 'whitened' if method.endswith('_cov') else 'plain'
            for gk, labels in enumerate(groupings):
                for kk, kind in enumerate(('pos', 'neg', 'int')):
                    n = 5 + (gk + kk) % 2
                    case = dict(seed=seed * 10 + kk + gk, n_rdm=n, n_cond=5 + kk % 2, kind=kind, method=method)
                    if kind == 'int':
                        case['nlev'] = 9
                    if labels is not None:
                        case['labels'] = labels[:n]
                    if (gk + kk) % 2:
                        case['nan_conds'] = [2]
                    elif gk == 2:
                        case['nan'] = [0, 3]
                    if not thorough:
                        case['n_perm'] = 1
                    if not _undetermined(case):
                        sw.add(orc_permutation, case, f'{method},{cls},boot')
    sw.done()

    # ---- environment: a new interpreter with another hash seed -----------------------------------------------------------------------
    hashseeds = (4242, 1, 7, 99991, 2 ** 31) if thorough else (4242,)
    sw = _Sweep(run, bds, 'environment',
                'child interpreters with PYTHONHASHSEED in %s (this process: %s), each evaluating 5 methods x {string group labels '
                '(interleaved, unbalanced), numeric-string labels, default descriptor} with boot_noise_ceiling and 5 methods x '
                '{string pattern labels, repeated pattern labels} with cv_noise_ceiling; same bounds as here (1e-12) and as stated'
                % (list(hashseeds), os.environ.get('PYTHONHASHSEED', 'random')))
    for hk, hs in enumerate(hashseeds):
        subs = []
        for mk, method in enumerate(ALL_METHODS):
            for lk, labels in enumerate((['b', 'a', 'b', 'c', 'a'], ['10', '9', '10', '2', '10'], None)):
                sub = dict(seed=hk * 10 + lk, n_rdm=5, n_cond=5, kind=('pos', 'int')[(mk + lk) % 2] if method in OPT_METHODS else 'pos',
                           method=method)
                if labels is not None:
                    sub['labels'] = labels
                    sub['decoys'] = bool(lk)
                subs.append(sub)
            for lk, plab in enumerate((names8[:6], [0, 1, 1, 2, 3, 4])):
                sub = dict(seed=hk * 10 + lk + 5, n_rdm=4, n_cond=6, kind='pos', method=method, pattern_labels=plab,
                           folds=_grid_folds(4, 6, 2, 2, plab) if lk else _random_folds(hk + 9, 4, 6, 3, plab))
                subs.append(sub)
        sw.add(orc_new_interpreter, dict(hashseed=hs, cases=subs), 'hashseed,string-labels')
    sw.done()


def replay(path):
    return replay_file(path)
