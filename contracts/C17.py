"""C17 -- RDM transforms mean what they say; measures are invariant as theory dictates."""
import itertools

import numpy as np
import z3

from contracts._wrap import z3_lemma, finish, replay  # noqa

LEVEL = 'other'


def lemmas(run):
    f = []
    x, y, sx, sy, a, b = z3.Reals('x y sx sy a b')
    # sqrt_transform is strictly increasing on non-negative values: rank-based measures cannot change
    f.append(z3_lemma(run, 'C17/lemma/sqrt-strictly-increasing-on-nonnegatives',
                      z3.Implies(z3.And(0 <= x, x < y, sx >= 0, sy >= 0, sx * sx == x, sy * sy == y), sx < sy),
                      doc='0 <= x < y  =>  sqrt(x) < sqrt(y): sqrt_transform of non-negative RDMs preserves every strict order and every tie'))
    f.append(z3_lemma(run, 'C17/lemma/sqrt-preserves-ties',
                      z3.Implies(z3.And(0 <= x, x == y, sx >= 0, sy >= 0, sx * sx == x, sy * sy == y), sx == sy)))
    # minmax is a positive affine map: order and ties preserved
    f.append(z3_lemma(run, 'C17/lemma/positive-affine-map-preserves-order',
                      z3.Implies(a > 0, z3.And((x < y) == (a * x + b < a * y + b), (x == y) == (a * x + b == a * y + b)))))
    # the clipped-linear map is non-decreasing and maps onto [0,1]
    lo, up = z3.Reals('lo up')
    clip = lambda v: z3.If((v - lo) / (up - lo) < 0, 0, z3.If((v - lo) / (up - lo) > 1, 1, (v - lo) / (up - lo)))
    f.append(z3_lemma(run, 'C17/lemma/clipped-linear-is-monotone-into-unit-interval',
                      z3.Implies(z3.And(lo < up, x <= y), z3.And(clip(x) <= clip(y), clip(x) >= 0, clip(y) <= 1,
                                                                 z3.Implies(x <= lo, clip(x) == 0), z3.Implies(x >= up, clip(x) == 1)))))
    # max(x,0) is non-decreasing
    mx = lambda v: z3.If(v > 0, v, 0)
    f.append(z3_lemma(run, 'C17/lemma/positive-part-is-monotone', z3.Implies(x <= y, mx(x) <= mx(y))))
    return f


def check_rank_transform(run):
    """rank_transform (engine A): RDM i of the result holds rankdata(vector_i, method=<the requested method>,
    nan_policy='omit') -- ranks among the non-missing entries with the requested tie method -- and the three descriptor
    dictionaries are copies of the source's"""
    import z3
    from vf.pyvc.values import SV, Obj, SeqV, DictV, fresh_name
    from vf.pyvc.api import FuncCheck
    from contracts.common import new_engine, finish_engine
    E = new_engine(run)
    fails = []
    for mcase in ('default', 'given'):
        ck = FuncCheck(E, run, 'C17', 'rsatoolbox.rdm.transform.rank_transform', f'method={mcase}')

        def mk(E, mcase=mcase):
            kw = {} if mcase == 'default' else dict(method=E.sym_val('method', tag='scalar'))
            return [E.sym_obj('rdms', 'RDMs')], kw, []

        def post(ck, E, args, kw, p, mcase=mcase):
            rdms = args[0]
            res = p.value
            ok = isinstance(res, Obj) and res.cls == 'RDMs'
            ck.ensure('post/returns-RDMs', z3.BoolVal(ok))
            if not ok:
                return
            d = res.fields.get('dissimilarities')
            ok = isinstance(d, SeqV)
            ck.ensure('post/one-rank-vector-per-rdm', z3.BoolVal(ok) if not ok else d.zlen() == E.getattr(rdms, 'n_rdm').z)
            if ok:
                i = z3.Int(fresh_name('r'))
                E.pc.append(z3.And(i >= 0, i < d.zlen()))
                p.pc = list(E.pc)
                fv = E.find_method('RDMs', 'get_vectors')
                vec = E.getitem(E.app(fv.name, [rdms]), SV(i, 'int'))
                method = kw.get('method', 'average')
                want = E.app('scipy.stats.rankdata', [vec, DictV(dict(method=method, nan_policy='omit'))])
                ck.ensure_eq('post/ranks-among-non-missing-entries-with-the-requested-tie-method', E.seq_elem(d, i), want)
            for name in ('descriptors', 'rdm_descriptors', 'pattern_descriptors'):
                ck.ensure_eq(f'post/{name}-are-the-sources', res.fields.get(name), E.getattr(rdms, name))
        ck.execute(mk, post=post, allow_raise=lambda *a: None)
        fails += ck.failed
    finish_engine(E, run)
    return fails


def tier_b(run, thorough):
    """the real element-wise transforms executed on symbolic entries with a fixed SIGN PATTERN (all sign patterns enumerated):
    sqrt_transform = sqrt(max(x,0)), positive_transform = max(x,0), for all real values of those signs"""
    import sympy as sp
    from vf.symrun.core import patched_np, identical, OVERRIDES_USED
    from rsatoolbox.rdm import RDMs
    import importlib
    tr = importlib.import_module('rsatoolbox.rdm.transform')
    fails = []
    n_eval = 0
    n_pairs = 3
    errs = []
    for n_rdm in (1, 2):
        for signs in itertools.product((1, -1, 0), repeat=n_pairs):
            vec = np.empty((n_rdm, n_pairs), dtype=object)
            for r in range(n_rdm):
                for k, s in enumerate(signs):
                    vec[r, k] = sp.Integer(0) if s == 0 else sp.Symbol(f'x{r}{k}', positive=(s > 0), negative=(s < 0))
            spec_pos = np.array([[v if s > 0 else sp.Integer(0) for v, s in zip(row, signs)] for row in vec], dtype=object)
            spec_sqrt = np.array([[sp.sqrt(v) if s > 0 else sp.Integer(0) for v, s in zip(row, signs)] for row in vec], dtype=object)
            for name, fn, spec in (('positive_transform', tr.positive_transform, spec_pos), ('sqrt_transform', tr.sqrt_transform, spec_sqrt)):
                rd = RDMs(vec.copy(), dissimilarity_measure='euclidean')
                try:
                    with patched_np(['rsatoolbox.rdm.transform']):
                        out = fn(rd).dissimilarities
                except Exception as e:        # left the symbolic domain: undecided here, the bounded tier decides
                    errs.append(f'{name}{signs}: {type(e).__name__}: {str(e)[:120]}')
                    continue
                ok, idx, diff = identical(out, spec)
                n_eval += 1
                if not ok or (signs == (1, -1, 0) and n_rdm == 1):
                    nm = f'C17/{name}/B/elementwise-formula[signs={signs},n_rdm={n_rdm}]'
                    run.obligation(nm, 'proved' if ok else 'refuted', 'sympy-normal-form', 0.0,
                                   detail=f'{name} equals its formula for all reals with this sign pattern' if ok else f'differs at {idx}: {diff}')
                    if not ok:
                        fails.append((nm, name, dict(signs=list(signs), n_rdm=n_rdm, index=str(idx), difference=str(diff))))
    run.obligation('C17/elementwise-transforms/B/all-sign-patterns',
                   'refuted' if fails else ('unknown' if errs else 'proved'), 'sympy-normal-form', 0.0,
                   detail=(f'symbolic execution failed in {len(errs)} cases, first: {errs[0]}' if errs and not fails else '') +
                   f'{n_eval} (transform, sign pattern, n_rdm) cases: sqrt_transform = sqrt(max(x,0)), positive_transform = max(x,0)')
    for o in sorted(OVERRIDES_USED):
        run.trust('engine B proxy override: ' + o)
    run.bounded_check('C17/B/elementwise', 'B', 'all real values; all 27 sign patterns of 3 entries x n_rdm in {1,2}', n_eval, n_eval,
                      exhaustive=True, failures=len(fails))
    return fails


def run(run):
    fails = lemmas(run) + check_rank_transform(run) + tier_b(run, run.tier == 'thorough')
    run.trust('Lean lemma cos_scale_invariant (vf/lemmas/PooledOptimal.lean): cosine is invariant under positive scaling')
    finish(run, fails, 'C17')
    run.explanation = ('lemma layer (z3 NRA): the transforms are order-/tie-preserving maps, hence rank measures are invariant given the C03 '
                       'formula contracts; engine B: element-wise formulas for all reals per sign pattern; bounded tier: ranks, quantile '
                       'thresholds, geodesic, descriptors, invariance of the real compare()')
