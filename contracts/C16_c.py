"""C16, tier C (bounded run-time oracles): saving and loading returns an equal object.

Every oracle builds its objects deterministically from the JSON case, writes them with the REAL `save` /
`write_dict_*` functions into a `tempfile.TemporaryDirectory()` (removed when the oracle returns; default
location, i.e. outside /repo and /verif) or into an in-memory `io.BytesIO`, reads them back with the real
`load_*` / `read_dict_*` + `*_from_dict` functions and compares with a specification computed here:

* the expected content of the loaded object is a deep snapshot (`copy.deepcopy(vars(obj))`) of the object taken
  BEFORE it is saved -- never the result of any repo conversion (`to_dict`, `==`, `desc_eq` are not used for the
  expected value);
* "equal" is decided by `_veq` / `_arr_eq` below, written from the statement: main numeric arrays must be ndarrays of the
  same dtype and shape with identical entries (NaN == NaN, +-inf, -0.0 == 0.0); descriptor dicts must have the same
  key set and, key by key, element-wise equal values of the SAME SHAPE irrespective of the container (list / tuple /
  ndarray / numpy scalar); text must come back as text (bytes are not equal to str), numbers as numbers (1 != '1'),
  None as None, nested dicts recursively.

Clauses of the statement and the oracle (domain) covering them
  C16/rdms       RDMs: dissimilarities, n_rdm/n_cond, the three descriptor dicts, measure (string, unicode, None);
                 all harmless descriptor value types of the quantifier together; hdf5 + pkl; path (with suffix dispatch
                 of `load_rdm` for .h5/.hdf5/.pkl and explicit file_type on a neutral suffix), overwrite=True on a fresh
                 path, open binary file handle (read back through the handle and by path), BytesIO; "saving does not
                 change the in-memory object" (strict, type-sensitive comparison with the snapshot); `loaded == original`
                 whenever `__eq__` can recognise an equal twin of both objects at all (it cannot with array-valued
                 `descriptors` or NaNs); the same follow-up selection on original and loaded object gives equal objects.
  C16/dataset    the same for Dataset and TemporalDataset (measurements incl. NaN/inf/float32/int, size-1 dimensions,
                 obs/channel/time descriptors, `descriptors` incl. a stored noise precision matrix); class preserved.
  (domain C16/descriptor-values, oracles C16/rdms and C16/dataset)
                 totality over descriptor value types: objects with exactly ONE descriptor of each value kind, in each
                 descriptor dict, with plain / unicode / slash-containing keys.  The known findings live here.
  C16/model      every model class (Model, ModelFixed, ModelSelect, ModelWeighted, ModelInterpolate):
                 to_dict -> write_dict_hdf5/pkl -> read_dict -> model_from_dict: same class, name, n_param, rdm_obj
                 fields, predict()/predict(theta)/predict_rdm(theta); to_dict leaves the model unchanged.
  C16/result     Result: models in the same ORDER with class/name/rdm/predictions (1..21 models, 101/112 in thorough),
                 evaluations, variances (None/0-d/1-d/2-d/3-d, with and without noise-ceiling rows), dof, noise
                 ceiling, method strings, n_rdm/n_pattern (None or int), derived model_var/diff_var/noise_ceil_var;
                 get_means/get_sem/get_ci, test_all/test_pairwise/test_zero/test_noise ('t-test', 'bootstrap'; 'ranksum':
                 test_all for <= 4 models, test_zero/test_noise above) and summary() give identical outputs (or the
                 same exception type) before and after; in-memory object unchanged.
  C16/history    RDMs / Dataset / TemporalDataset obtained by every sequence of <= 2 (thorough: <= 3) C10/C11
                 operations and by seeded sequences of length 4, then saved and loaded (expected = snapshot after
                 the history).  An operation that raises on the current object is skipped (that is C10/C11/C12's
                 business, not this property's).
  C16/overwrite  hdf5: `save` on an existing str path raises ValueError and leaves the file byte-identical (still the
                 old object); `write_dict_hdf5` itself raises ValueError; with overwrite=True (path, and open 'r+b'
                 handle on the existing file) the file afterwards loads as the new object and its raw tree of
                 names (read with h5py / pickle directly) contains no name of the old object and equals the tree of
                 a fresh save; pkl: overwrite=True ditto.
  C16/dispatch   load_rdm / load_dataset / load_results: suffix dispatch (.h5, .hdf5 -> hdf5, .pkl -> pickle), explicit
                 file_type wins over the suffix, anything else raises ValueError('filetype not understood'); a file of
                 the other format is never returned as an object silently.

NOT covered by this tier
  * "for all" -- these are bounded domains (see the `domain` strings); the object<->dict reasoning for all inputs is
    engine A's part (DESIGN C16 bullet A), h5py and pickle themselves are assumed dependencies.
  * pathlib.Path targets (the loaders do not accept them; the statement says "path or open handle" = str / file object).
  * refusal on an existing file given as an open HANDLE with overwrite=False (the statement only promises it for paths),
    pickle without overwrite on an existing path is NOT required to refuse (statement is silent), but reading back must
    then give the object just written (checked in C16/overwrite).
  * `Result.fitter` (not part of the saved dict and not named in the statement); files written by older versions.
  * container types of loaded descriptor values (list vs ndarray vs numpy scalar): the statement asks for element-wise
    equal values, so `[1, 2]` loaded as `array([1, 2])` and `4` loaded as `array(4)` count as equal.
  * histories longer than 4 operations; DataFrame round trips (C10/C11); non-string dict keys; RDMs with one condition.

Dimension sweep (added after three rounds of property-breaking changes; every clause is the statement applied to an input
the tier did not vary before -- the expected value is always the snapshot / a twin built from the case):
  typed-data        dissimilarities / measurements / model RDMs held as uint8, int16, int32, uint64 beyond 2**63, int64 beyond
                    2**53, float16, bool (`_values` kinds TYPED_VALS); Result evaluations / variances / noise ceiling as float32;
                    descriptor values: integers beyond 2**53 (scalar, list, array), uint8 / int16 / float32 arrays.  Numbers that
                    come back in another dtype are compared as exact Python numbers (`_veq_norm`), not through float64.
  extreme-units     values that need all 53 bits (1/3, 1/7, ...: a detour through float32 or a rounding shows), values in units of
                    1e-26 and 1e+12, the smallest denormal, the largest float (UNIT_VALS; Result `unit`, model `vals`) in main
                    arrays and in descriptor scalars / lists / arrays
  containers        0-d and 3-d array descriptors, bool / empty lists, float tuples per item; descriptor names with blanks
                    (keys='spaces'); strings with leading / trailing blanks, a 70 kB string (beyond the 64 KiB compact
                    attribute of HDF5), string lists whose widths differ by a factor 300
  repeated values   per-item descriptors with repeated, interleaved values whose first appearance is not sorted (int and str);
                    Results whose models all carry the same name ('repeated-names')
  sizes             25 RDMs x 12 conditions, 40 x 12 data sets (thorough: 40 x 30, 2 x 60, 300 x 40); objects WITHOUT any RDM /
                    observation / channel ('size-0'); ragged lists with 10 / 12 / 23 entries, stored under the names '0'..'11'
                    whose alphabetical order is not the order of the items
  path-spelling     non-ASCII + blanks in the file name, a path relative to the working directory, a nested directory with
                    blanks and dots, a file name that contains the other format's suffix in the middle (TARGETS_X)
  call sequences    C16/sequence (see the oracle); `twice`: the loaded object saved and loaded again is still equal
  environment       C16/interpreter: written here, read in a new interpreter with another PYTHONHASHSEED, and back
  existing files    C16/overwrite `old`: the existing file holds a smaller object, an equal object, zero bytes, bytes of no known
                    format, the old object in the OTHER format
Pending triage (registrations behind `if False`, HDF5 only; pickle round-trips them):
  range-descriptor  a `range` as descriptor value is neither stored nor rejected by `_write_to_group` (last `Iterable` branch):
                    the key is missing after loading -- the mechanism of the old tuple-descriptor finding, still open for
                    range (and bytes)
  digit-string-key  descriptors NAMED '0', '1', ... (or a dict-valued descriptor with such keys): `_read_group` takes every
                    group whose names are '0'..'n-1' for a list written by `_write_list`; the loaded Dataset cannot be built
                    (AttributeError) / the dict comes back as a list
NOT demanded by the sweep: the dtype of ModelFixed predictions for a model built from an integer VECTOR (values equal, float
after loading); the shape of an EMPTY 2-D per-item descriptor; byte-identical files for two saves; an open handle that is not
positioned at its start when it is handed to save(overwrite=True).

Known findings on the unchanged tree (all HDF5 only; own input_class each, all under the obligation
`C16/_write_to_group/oracle/descriptor-value-types`; see C16_findings.md):
  tuple-descriptor, unicode-string-array, ragged-list-descriptor, mixed-list-descriptor, slash-in-key.
"""
import copy
import io
import itertools
import os
import pickle
import tempfile
import warnings

import numpy as np

from vf.rt.harness import oracle, Bounded

USTR = 'Grüße 日本 σ'


# =====================================================================================================
# specification of "equal"
# =====================================================================================================
def _arr_eq(a, b, what, dtype=True):
    """main numeric arrays: ndarray, same dtype, same shape, identical entries (NaN == NaN)"""
    if a is None or b is None:
        return None if (a is None and b is None) else f'{what}: expected {a!r}, loaded {b!r}'
    if not isinstance(b, np.ndarray):
        return f'{what}: loaded value is a {type(b).__name__}, expected an ndarray'
    a = np.asarray(a)
    if a.shape != b.shape:
        return f'{what}: shape {b.shape}, expected {a.shape}'
    if dtype and a.dtype != b.dtype:
        return f'{what}: dtype {b.dtype}, expected {a.dtype}'
    with warnings.catch_warnings():
        warnings.simplefilter('ignore')
        same = (a == b) | ((a != a) & (b != b))
    if not np.all(same):
        idx = tuple(int(i) for i in np.argwhere(~np.asarray(same))[0])
        return f'{what}: entry {idx} is {b[idx]!r}, expected {a[idx]!r}'
    return None


def _norm(x):
    """('arr', ndarray) for homogeneous values, ('seq', [..]) for ragged / heterogeneous sequences"""
    if isinstance(x, np.ndarray) and x.dtype == object:
        x = x.tolist()
    if isinstance(x, (list, tuple)):
        kinds = {('s' if isinstance(e, str) else 'b' if isinstance(e, bytes) else 'o') for e in x}
        if len(kinds) > 1:
            return ('seq', [_norm(e) for e in x])
        try:
            arr = np.asarray(x)
        except ValueError:
            return ('seq', [_norm(e) for e in x])
        if arr.dtype == object:
            return ('seq', [_norm(e) for e in x])
        return ('arr', arr)
    return ('arr', np.asarray(x))


def _veq(a, b):
    """descriptor values: element-wise equal with equal shape, container-agnostic.  None | reason"""
    if a is None or b is None:
        return None if (a is None and b is None) else f'{b!r} (expected {a!r})'
    if isinstance(a, dict) or isinstance(b, dict):
        if not (isinstance(a, dict) and isinstance(b, dict)):
            return f'{type(b).__name__} {b!r} (expected {type(a).__name__} {a!r})'
        if set(a) != set(b):
            return f'keys {sorted(map(str, b))} (expected {sorted(map(str, a))})'
        for k in a:
            r = _veq(a[k], b[k])
            if r:
                return f'[{k!r}]: {r}'
        return None
    (ka, va), (kb, vb) = _norm(a), _norm(b)
    if ka == 'seq' or kb == 'seq':
        la = va if ka == 'seq' else list(va) if va.ndim else None
        lb = vb if kb == 'seq' else list(vb) if vb.ndim else None
        if la is None or lb is None:
            return f'{b!r} (expected {a!r})'
        la = [e if isinstance(e, tuple) and len(e) == 2 and e[0] in ('arr', 'seq') else _norm(e) for e in la]
        lb = [e if isinstance(e, tuple) and len(e) == 2 and e[0] in ('arr', 'seq') else _norm(e) for e in lb]
        if len(la) != len(lb):
            return f'length {len(lb)} (expected {len(la)}): {b!r} vs {a!r}'
        for i, (ea, eb) in enumerate(zip(la, lb)):
            r = _veq_norm(ea, eb)
            if r:
                return f'element {i}: {r}'
        return None
    return _veq_norm((ka, va), (kb, vb))


def _veq_norm(na, nb):
    (ka, va), (kb, vb) = na, nb
    if ka == 'seq' or kb == 'seq':
        if ka != kb or len(va) != len(vb):
            return f'{vb!r} (expected {va!r})'
        for i, (ea, eb) in enumerate(zip(va, vb)):
            r = _veq_norm(ea, eb)
            if r:
                return f'element {i}: {r}'
        return None
    if va.shape != vb.shape:
        return f'{vb!r} of shape {vb.shape} (expected {va!r} of shape {va.shape})'
    ca = 'n' if va.dtype.kind in 'biufc' else va.dtype.kind
    cb = 'n' if vb.dtype.kind in 'biufc' else vb.dtype.kind
    if ca != cb:
        return f'{vb!r} of dtype {vb.dtype} (expected {va!r} of dtype {va.dtype})'
    with warnings.catch_warnings():
        warnings.simplefilter('ignore')
        if ca == 'n' and va.dtype != vb.dtype and 'c' not in (va.dtype.kind, vb.dtype.kind) and va.size:
            # numbers held in different dtypes: numpy would compare them as float64 (2**62 + 1 == 2.0**62); Python numbers
            # compare exactly
            same = np.array([x == y or (x != x and y != y) for x, y in zip(va.ravel().tolist(), vb.ravel().tolist())]).reshape(va.shape)
        else:
            same = (va == vb)
            if ca == 'n':
                same = same | ((va != va) & (vb != vb))
    if not np.all(same):
        return f'{vb!r} (expected {va!r})'
    return None


def _dict_eq(want, got, what):
    if not isinstance(got, dict):
        return f'{what}: loaded value is a {type(got).__name__}, expected a dict'
    if set(want) != set(got):
        return f'{what}: keys {sorted(map(str, got))}, expected {sorted(map(str, want))}'
    for k in want:
        r = _veq(want[k], got[k])
        if r:
            return f'{what}[{k!r}]: loaded {r}'
    return None


def _strict(a, b, where='object'):
    """type-sensitive deep equality (the in-memory object must be EXACTLY what it was).  None | reason"""
    if type(a) is not type(b):
        return f'{where}: type {type(b).__name__}, was {type(a).__name__}'
    if isinstance(a, dict):
        if list(a) != list(b):
            return f'{where}: keys {list(b)}, were {list(a)}'
        for k in a:
            r = _strict(a[k], b[k], f'{where}[{k!r}]')
            if r:
                return r
        return None
    if isinstance(a, (list, tuple)):
        if len(a) != len(b):
            return f'{where}: length {len(b)}, was {len(a)}'
        for i, (x, y) in enumerate(zip(a, b)):
            r = _strict(x, y, f'{where}[{i}]')
            if r:
                return r
        return None
    if isinstance(a, np.ndarray):
        if a.dtype != b.dtype or a.shape != b.shape:
            return f'{where}: array {b.dtype}{b.shape}, was {a.dtype}{a.shape}'
        with warnings.catch_warnings():
            warnings.simplefilter('ignore')
            same = (a == b) if a.dtype.kind not in 'fc' else ((a == b) | ((a != a) & (b != b)))
        return None if np.all(same) else f'{where}: array contents changed: {b!r}, was {a!r}'
    if callable(a) and not hasattr(a, '__dict__'):
        return None if a is b else f'{where}: changed'
    if hasattr(a, '__dict__') and not callable(a):
        return _strict(vars(a), vars(b), where + '.')
    if callable(a):
        return None if a is b else f'{where}: function changed'
    if isinstance(a, float) and a != a:
        return None if b != b else f'{where}: {b!r}, was nan'
    return None if a == b else f'{where}: {b!r}, was {a!r}'


def _snapshot(obj):
    return copy.deepcopy(vars(obj))


def _unchanged(snap, obj, label):
    r = _strict(snap, vars(obj), 'in-memory ' + type(obj).__name__)
    return f'{label}: saving changed the object: {r}' if r else None


# =====================================================================================================
# value palettes (JSON-able names -> fresh Python values)
# =====================================================================================================
FINDING_CLASS = {
    'tuple-num': 'tuple-descriptor', 'tuple-float': 'tuple-descriptor',
    'arr-ustr': 'unicode-string-array', 'list-ustr': 'unicode-string-array',
    'list-ragged': 'ragged-list-descriptor',
    'list-mixed': 'mixed-list-descriptor',
}

DESC_KINDS = ['int', 'negint', 'float', 'nan', 'inf', 'bool', 'str', 'str-empty', 'ustr', 'npint', 'npfloat', 'npstr',
              'arr-int', 'arr-float', 'arr-1', 'arr-empty', 'mat', 'arr-str', 'arr-bool', 'list-int', 'list-float',
              'list-str', 'list-1', 'list-1str', 'list-nested', 'tuple-str', 'none', 'dict',
              'tuple-num', 'tuple-float', 'arr-ustr', 'list-ustr', 'list-ragged', 'list-mixed']
# sweep: typed values (integers beyond 2**53, small integer dtypes, float32), full-precision / extremely scaled floats,
# 0-d / 3-d arrays, strings with blanks, a string beyond the 64 KiB compact-attribute limit of HDF5, strings of very
# different widths, bool / empty lists
SWEEP_DESC = ['bigint', 'arr-bigint', 'float-precise', 'float-tiny', 'arr-precise', 'list-precise', 'arr-u8', 'arr-i2', 'arr-f4',
              'arr-0d', 'arr-3d', 'str-spaces', 'str-long', 'list-width', 'list-bool', 'list-empty']
SOLO_DESC = ('str-long',)        # only on its own (70 kB per object would slow the combined cases down)
DESC_KINDS = DESC_KINDS + SWEEP_DESC
PENDING_DESC = ['range', 'dict-digit']         # pending triage: range-descriptor, digit-string-key


def _dval(kind, n=3):
    """a value of the object-level `descriptors` dict"""
    if kind == 'int':
        return 4
    if kind == 'negint':
        return -7
    if kind == 'float':
        return 2.5
    if kind == 'nan':
        return float('nan')
    if kind == 'inf':
        return float('-inf')
    if kind == 'bool':
        return True
    if kind == 'str':
        return 'faces'
    if kind == 'str-empty':
        return ''
    if kind == 'ustr':
        return USTR
    if kind == 'npint':
        return np.int64(3)
    if kind == 'npfloat':
        return np.float32(1.5)
    if kind == 'npstr':
        return np.str_('abc')
    if kind == 'arr-int':
        return np.arange(5, 5 + n)
    if kind == 'arr-float':
        return np.array([1.5, np.nan, np.inf, -0.0])
    if kind == 'arr-1':
        return np.array([7])
    if kind == 'arr-empty':
        return np.array([])
    if kind == 'mat':       # a stored noise precision matrix (n_channel x n_channel, symmetric)
        m = np.arange(n * n, dtype=float).reshape(n, n) / 7.0
        return m + m.T + n * np.eye(n)
    if kind == 'arr-str':
        return np.array(['a', 'bb', 'ccc'])
    if kind == 'arr-bool':
        return np.array([True, False, True])
    if kind == 'list-int':
        return [3, 1, 2]
    if kind == 'list-float':
        return [0.5, float('nan'), 2.0]
    if kind == 'list-str':
        return ['x', 'yy']
    if kind == 'list-1':
        return [5]
    if kind == 'list-1str':
        return ['only']
    if kind == 'list-nested':
        return [[1, 2], [3, 4]]
    if kind == 'tuple-str':
        return ('a', 'b')
    if kind == 'none':
        return None
    if kind == 'dict':
        return {'a': 1, 'b': 'x', 'c': np.arange(2)}
    if kind == 'tuple-num':
        return (1, 2)
    if kind == 'tuple-float':
        return (0.5, 1.5, 2.5)
    if kind == 'arr-ustr':
        return np.array(['ü', '日本'])
    if kind == 'list-ustr':
        return ['été', 'naïve']
    if kind == 'list-ragged':
        return [np.arange(2), np.arange(3)]
    if kind == 'list-mixed':
        return [1, 'a']
    if kind == 'bigint':
        return 2 ** 53 + 1
    if kind == 'arr-bigint':
        return np.array([2 ** 62 + 1, -(2 ** 62) - 1, 2 ** 53 + 1])
    if kind == 'float-precise':
        return 1.0 / 3.0
    if kind == 'float-tiny':
        return np.pi * 1e-26
    if kind == 'arr-precise':
        return np.array([1.0 / 3.0, np.pi * 1e-26, -np.e * 1e12, 5e-324, 1.7976931348623157e308, 0.1])
    if kind == 'list-precise':
        return [0.1, 1.0 / 3.0, 1e-300]
    if kind == 'arr-u8':
        return np.array([200, 255, 0, 128], dtype=np.uint8)
    if kind == 'arr-i2':
        return np.array([-32768, 32767, -1], dtype=np.int16)
    if kind == 'arr-f4':
        return np.array([0.1, 0.2, 16777217.0], dtype=np.float32)
    if kind == 'arr-0d':
        return np.array(3.5)
    if kind == 'arr-3d':
        return np.arange(8.0).reshape(2, 2, 2) / 3.0
    if kind == 'str-spaces':
        return '  padded \t text  '
    if kind == 'str-long':
        return ''.join(chr(97 + (i * 7) % 26) for i in range(70000))
    if kind == 'list-width':
        return ['x' * 300, 'y', '', 'zz ']
    if kind == 'list-bool':
        return [True, False, True]
    if kind == 'list-empty':
        return []
    if kind == 'range':
        return range(3)
    if kind == 'dict-digit':
        return {'0': 'pre', '1': 'post'}
    raise ValueError(kind)


AXIS_KINDS = ['list-int', 'list-str', 'arr-int', 'arr-float', 'arr-str', 'list-float', 'arr-2d', 'list-tuple', 'list-dup',
              'tuple-str', 'list-ustr', 'arr-ustr', 'list-ragged', 'tuple-int']
UNSAFE_AXIS = ('list-ustr', 'arr-ustr', 'list-ragged', 'tuple-int')
# sweep: repeated + interleaved values whose first-appearance order is not the sorted order, small integer dtypes, float32,
# integers beyond 2**53, full-precision / extremely scaled floats, strings of very different widths, bools, float tuples
SWEEP_AXIS = ['list-interleaved', 'arr-u8', 'arr-f4', 'list-bigint', 'arr-precise', 'list-width', 'list-bool', 'tuple-float',
              'arr-str-interleaved']
AXIS_KINDS = AXIS_KINDS + SWEEP_AXIS
PENDING_AXIS = ['range']         # pending triage: range-descriptor


def _aval(kind, n, off=0):
    """a per-RDM / per-pattern / per-observation / per-channel / per-time descriptor of length n"""
    if kind == 'list-int':
        return [10 * off + 3 + i for i in range(n)]
    if kind == 'list-dup':
        return [i // 2 for i in range(n)]
    if kind == 'list-str':
        return ['c%d' % ((i * 2) % 3) + 'x' * (i % 2) for i in range(n)]
    if kind == 'arr-int':
        return np.arange(17, 17 + n)[::-1].copy()
    if kind == 'arr-float':
        a = np.linspace(0.25, 0.75, n) if n > 1 else np.array([0.25])
        return a
    if kind == 'list-float':
        return [float('nan') if i == 0 else i / 4 for i in range(n)]
    if kind == 'arr-str':
        return np.array(['V%d' % (i + 1) for i in range(n)])
    if kind == 'arr-2d':
        return np.arange(2 * n).reshape(n, 2)
    if kind == 'list-tuple':
        return [(i, i + 1) for i in range(n)]
    if kind == 'tuple-str':
        return tuple('t%d' % (i % 2) for i in range(n))
    if kind == 'tuple-int':
        return tuple(range(4, 4 + n))
    if kind == 'list-ustr':
        return ['ü%d' % i for i in range(n)]
    if kind == 'arr-ustr':
        return np.array(['日%d' % i for i in range(n)])
    if kind == 'list-ragged':
        return [np.arange(1 + (i % 2)) for i in range(n)]
    if kind == 'list-ragged3':          # ragged, and the lengths do not follow the position
        return [np.arange(1 + (i * 2) % 3) + 10 * i for i in range(n)]
    if kind == 'list-interleaved':
        return [(2, 0, 2, 1, 0, 1, 1)[i % 7] for i in range(n)]
    if kind == 'arr-str-interleaved':
        return np.array([('z', 'b', 'z', 'a', 'b', 'a', 'a')[i % 7] for i in range(n)])
    if kind == 'arr-u8':
        return ((np.arange(n) * 50 + 130) % 256).astype(np.uint8)[::-1].copy()
    if kind == 'arr-f4':
        return (np.arange(n) * 0.1 + 0.1).astype(np.float32)
    if kind == 'list-bigint':
        return [(2 ** 62 + 1 + i) * (-1 if i % 2 else 1) for i in range(n)]
    if kind == 'arr-precise':
        return np.array([(1e-26, 1.0, 1e12)[i % 3] / (3.0 + i) for i in range(n)])
    if kind == 'list-width':
        return ['s' * (1 + (i * 37) % 120) + (' ' if i % 2 else '') for i in range(n)]
    if kind == 'list-bool':
        return [i % 3 == 0 for i in range(n)]
    if kind == 'tuple-float':
        return tuple(0.1 * (i + 1) for i in range(n))
    if kind == 'range':
        return range(2, 2 + n)
    raise ValueError(kind)


def _axis_class(kind, n):
    if kind in ('list-ustr', 'arr-ustr'):
        return 'unicode-string-array'
    if kind in ('list-ragged', 'list-ragged3') and n >= 2:
        return 'ragged-list-descriptor'
    if kind in ('tuple-int', 'tuple-float'):
        return 'tuple-descriptor'
    if kind == 'range':
        return 'range-descriptor'
    return None


def _case_class(case, default):
    """input_class of a case: the finding class of the first unusual descriptor kind in it, else `default`"""
    if case.get('keys') == 'slash':
        return 'slash-in-key'
    if case.get('keys') == 'digit':
        return 'digit-string-key'
    for k in case.get('desc', []):
        if k in FINDING_CLASS:
            return FINDING_CLASS[k]
        if k == 'range':
            return 'range-descriptor'
        if k == 'dict-digit':
            return 'digit-string-key'
    for key, n in case.get('_axis_sizes', {}).items():
        for k in case.get(key, []):
            c = _axis_class(k, n)
            if c:
                return c
    return default


KEY_PREFIX = {'plain': '', 'unicode': 'ü 日.', 'slash': 'sub/', 'spaces': ' a b . '}


def _key(case, name, i=0):
    if case.get('keys') == 'digit':      # descriptor names '0', '1', ... (the i-th descriptor of its dict)
        return str(i)
    return KEY_PREFIX[case.get('keys', 'plain')] + name


def _values(shape, vals, base=0.0):
    """distinct sentinel values (a permutation of entries is visible), optionally with NaN / inf / other dtypes"""
    n = int(np.prod(shape))
    a = (base + np.arange(n, dtype=float) * 1.5 + 0.25).reshape(shape)
    if vals in ('nan', 'naninf') and n:
        a.flat[0] = np.nan
        a.flat[n // 2] = np.nan
    if vals in ('inf', 'naninf') and n:
        a.flat[n - 1] = np.inf
        if n > 2:
            a.flat[1] = -np.inf
    if vals == 'f4':
        a = a.astype(np.float32)
    if vals == 'int':
        a = (a * 4).astype(np.int64)
    if vals == 'negzero' and n:
        a.flat[0] = -0.0
    # --- sweep: typed data (the stored dtype must come back, the values must not be truncated / wrapped / promoted) ...
    if vals == 'u1':
        a = ((np.arange(n) * 37 + 200) % 256).astype(np.uint8).reshape(shape)       # includes values > 127
    if vals == 'i2':
        a = ((np.arange(n) * 1237 - 30000) % 65536 - 32768).astype(np.int16).reshape(shape)
    if vals == 'i4':
        a = (np.arange(n, dtype=np.int64) * 100003 - 2 ** 31 + 1).astype(np.int32).reshape(shape)
    if vals == 'u8big':     # beyond 2**63: neither int64 nor float64 can hold these
        a = (np.uint64(2 ** 64 - 1) - np.arange(n, dtype=np.uint64) * np.uint64(3)).reshape(shape)
    if vals == 'i8big':     # beyond 2**53: a detour through float64 changes them
        a = (np.int64(2 ** 62 + 1) + np.arange(n, dtype=np.int64) * np.int64(3)).reshape(shape) * np.where(np.arange(n) % 2, -1, 1).reshape(shape)
    if vals == 'f2':
        a = (np.arange(n) * 0.1 + 0.0999).astype(np.float16).reshape(shape)
    if vals == 'bool':
        a = (np.arange(n) % 3 == 0).reshape(shape)
    # --- ... and extreme but legitimate units / full-precision values (not representable in float32, far below any
    # absolute tolerance, far above it)
    if vals == 'precise':
        a = (1.0 / (3.0 + np.arange(n)) + base).reshape(shape)
    if vals == 'tiny':
        a = ((np.pi + np.arange(n) / 7.0) * 1e-26).reshape(shape)
    if vals == 'huge':
        a = ((np.e + np.arange(n) / 7.0) * 1e12 * np.where(np.arange(n) % 2, -1.0, 1.0)).reshape(shape)
    if vals == 'extreme' and n:
        ext = [5e-324, 2.2250738585072014e-308, 1.7976931348623157e308, -1.7976931348623157e308, 1e-300, 2.0 ** -1074 * 3,
               1.0 + 2.0 ** -52, 1e300]
        a = np.array([ext[i % len(ext)] * (1 if i < len(ext) else 0.5) for i in range(n)]).reshape(shape)
    return a


TYPED_VALS = ['u1', 'i2', 'i4', 'u8big', 'i8big', 'f2', 'bool']
UNIT_VALS = ['precise', 'tiny', 'huge', 'extreme']


# =====================================================================================================
# builders
# =====================================================================================================
def _mk_rdms(case, base=0.0):
    from rsatoolbox.rdm import RDMs
    n_rdm, n_cond = case['n_rdm'], case['n_cond']
    diss = _values((n_rdm, n_cond * (n_cond - 1) // 2), case.get('vals', 'plain'), base)
    measure = {'str': 'euclidean', 'none': None, 'ustr': USTR}[case.get('measure', 'str')]
    desc = {_key(case, 'd_' + k, i): _dval(k, n_cond) for i, k in enumerate(case.get('desc', []))}
    rd = {_key(case, 'r_' + k, i): _aval(k, n_rdm, 1) for i, k in enumerate(case.get('rdm_desc', []))}
    pd = {_key(case, 'p_' + k, i): _aval(k, n_cond, 2) for i, k in enumerate(case.get('pat_desc', []))}
    return RDMs(diss, dissimilarity_measure=measure, descriptors=desc, rdm_descriptors=rd, pattern_descriptors=pd)


def _mk_dataset(case, base=0.0):
    from rsatoolbox.data import Dataset, TemporalDataset
    n_obs, n_ch = case['n_obs'], case['n_ch']
    desc = {_key(case, 'd_' + k, i): _dval(k, n_ch) for i, k in enumerate(case.get('desc', []))}
    od = {_key(case, 'o_' + k, i): _aval(k, n_obs, 1) for i, k in enumerate(case.get('obs_desc', []))}
    cd = {_key(case, 'c_' + k, i): _aval(k, n_ch, 2) for i, k in enumerate(case.get('ch_desc', []))}
    if case['kind'] == 'temporal':
        n_t = case['n_t']
        meas = _values((n_obs, n_ch, n_t), case.get('vals', 'plain'), base)
        td = {'time': _aval('arr-float', n_t)}
        td.update({_key(case, 't_' + k, i): _aval(k, n_t, 3) for i, k in enumerate(case.get('t_desc', []))})
        return TemporalDataset(meas, descriptors=desc, obs_descriptors=od, channel_descriptors=cd, time_descriptors=td)
    meas = _values((n_obs, n_ch), case.get('vals', 'plain'), base)
    return Dataset(meas, descriptors=desc, obs_descriptors=od, channel_descriptors=cd)


MODEL_KINDS = ['fixed', 'select', 'weighted', 'interpolate', 'base', 'fixed-multi', 'fixed-vector']


def _mk_model(mkind, i, n_cond, seed, name=None, vals='plain'):
    import rsatoolbox.model as M
    from rsatoolbox.rdm import RDMs
    name = name if name is not None else 'm%d' % i
    n_pair = n_cond * (n_cond - 1) // 2
    if mkind == 'base':
        return M.Model(name)
    n_r = 1 if mkind in ('fixed', 'fixed-vector') else 3
    vec = _values((n_r, n_pair), vals, base=1000.0 * (i + 1) + seed)
    if mkind == 'fixed-vector':
        return M.ModelFixed(name, vec[0])
    rdm = RDMs(vec, dissimilarity_measure='euclidean', descriptors={'source': 'layer%d' % i, 'depth': i},
               rdm_descriptors={'part': ['p%d' % k for k in range(n_r)]},
               pattern_descriptors={'stim': ['s%d' % k for k in range(n_cond)]})
    cls = {'fixed': M.ModelFixed, 'fixed-multi': M.ModelFixed, 'select': M.ModelSelect, 'weighted': M.ModelWeighted,
           'interpolate': M.ModelInterpolate}[mkind]
    return cls(name, rdm)


def _mk_result_via(case):
    """a Result as the library's own evaluation routines produce it (some of them fill in n_rdm / n_pattern AFTER the variance
    corrections were applied): small seeded data, two or three fixed models"""
    import contextlib
    import io
    import rsatoolbox.inference as inf
    from rsatoolbox.rdm import RDMs
    from rsatoolbox.model import ModelFixed
    rs = np.random.RandomState(100 + case.get('seed', 0))
    n_rdm, n_cond, n_model = case.get('n_rdm', 6), case.get('n_cond', 5), case['n_model']
    n_pair = n_cond * (n_cond - 1) // 2
    data = RDMs(rs.rand(n_rdm, n_pair) + 0.1, rdm_descriptors={'subj': ['s%d' % (i // 2) for i in range(n_rdm)]},
                pattern_descriptors={'stim': ['c%d' % i for i in range(n_cond)]})
    models = [ModelFixed('m%d' % i, rs.rand(n_pair) + 0.1) for i in range(n_model)]
    np.random.seed(case.get('seed', 0) + 7)
    via = case['via']
    with contextlib.redirect_stderr(io.StringIO()), warnings.catch_warnings():
        warnings.simplefilter('ignore')
        if via == 'eval_fixed':
            return inf.eval_fixed(models, data, method=case.get('method', 'corr'))
        if via == 'eval_bootstrap':
            return inf.eval_bootstrap(models, data, method=case.get('method', 'corr'), N=12)
        if via == 'eval_bootstrap_rdm':
            return inf.eval_bootstrap_rdm(models, data, method=case.get('method', 'corr'), N=12)
        if via == 'eval_bootstrap_rdm,grouped':
            return inf.eval_bootstrap_rdm(models, data, method=case.get('method', 'corr'), N=12, rdm_descriptor='subj')
        if via == 'eval_bootstrap_pattern':
            return inf.eval_bootstrap_pattern(models, data, method=case.get('method', 'corr'), N=12)
        if via == 'bootstrap_crossval':
            big = RDMs(rs.rand(6, 66) + 0.1)
            return inf.bootstrap_crossval([ModelFixed('m%d' % i, rs.rand(66) + 0.1) for i in range(n_model)], big, N=6, k_pattern=2,
                                          k_rdm=2, method=case.get('method', 'corr'))
    raise ValueError(via)


def _mk_result(case):
    from rsatoolbox.inference import Result
    if case.get('via'):
        return _mk_result_via(case)
    n_model, n_cond, seed = case['n_model'], case.get('n_cond', 4), case.get('seed', 0)
    rs = np.random.RandomState(seed)
    kinds = case.get('model_kinds', ['fixed'])
    names = case.get('names')
    # 'names_dup': every model carries the SAME name (the order / identity of the models must not hang on the names)
    models = [_mk_model(kinds[i % len(kinds)], i, n_cond, seed,
                        'same' if case.get('names_dup') else None if names is None else names[i % len(names)] + str(i),
                        vals=case.get('model_vals', 'plain'))
              for i in range(n_model)]
    n_boot, n_cv = case.get('n_boot', 6), case.get('n_cv', 3)
    shape = {2: (n_boot, n_model), 3: (n_boot, n_model, n_cv), 4: (n_boot, n_model, n_cv, 2)}[case.get('eval_ndim', 3)]
    ev = rs.rand(*shape) - 0.2 + np.arange(n_model).reshape((1, n_model) + (1,) * (len(shape) - 2)) * 0.01
    if case.get('eval_nan'):
        ev[0] = np.nan
    vk = case.get('variances', '2d-nc')
    nv = n_model + (2 if vk.endswith('-nc') else 0)
    if vk == 'none':
        var = None
    elif vk == '0d':
        var = np.array(0.04)
    elif vk.startswith('1d'):
        var = 0.01 + rs.rand(nv) * 0.05
    elif vk.startswith('2d'):
        a = rs.randn(nv, nv + 3)
        var = a @ a.T / 50
    else:
        a = rs.randn(3, nv, nv + 3)
        var = np.einsum('kij,klj->kil', a, a) / 50
        var[0] += var[1] + var[2]
    nc = np.array([0.6, 0.9]) if case.get('nc', '1d') == '1d' else np.stack([0.5 + rs.rand(n_boot) * 0.1, 0.8 + rs.rand(n_boot) * 0.1])
    unit = case.get('unit')
    if unit is not None:            # sweep: evaluations in extreme but legitimate units (variances in units squared)
        ev, nc = ev * unit, nc * unit
        var = None if var is None else var * unit * unit
    if case.get('ev_dtype'):        # sweep: typed evaluations / variances / noise ceiling
        ev, nc = ev.astype(case['ev_dtype']), nc.astype(case['ev_dtype'])
        var = None if var is None else var.astype(case['ev_dtype'])
    return Result(models, ev, case.get('method', 'corr'), case.get('cv_method', 'bootstrap_rdm'), nc, variances=var,
                  dof=case.get('dof', 7), n_rdm=case.get('n_rdm'), n_pattern=case.get('n_pattern'))


# =====================================================================================================
# transport
# =====================================================================================================
EXT = {'hdf5': '.h5', 'pkl': '.pkl'}
TARGETS = ['path', 'path-neutral', 'path-hdf5ext', 'path-overwrite-fresh', 'file', 'file-reopen', 'bytesio']
# sweep: other legitimate spellings of "a path": non-ASCII + blanks in the file name, a path relative to the working directory,
# a nested directory with blanks and dots, a file name that contains the OTHER format's suffix in the middle
TARGETS_X = ['path-unicode', 'path-relative', 'path-subdir', 'path-misleading']


def _transport(td, save, load, fmt, target, stem='obj'):
    """save(filename, file_type=, overwrite=) / load(filename, file_type=) are the real functions.  Returns loaded."""
    if target == 'bytesio':
        bio = io.BytesIO()
        save(bio, file_type=fmt)
        bio.seek(0)
        return load(bio, file_type=fmt)
    if target == 'path-neutral':
        p = os.path.join(td, stem + '.dat')
        save(p, file_type=fmt)
        return load(p, file_type=fmt)
    ext = '.hdf5' if (target == 'path-hdf5ext' and fmt == 'hdf5') else EXT[fmt]
    if target == 'path-relative':
        cwd = os.getcwd()
        os.chdir(td)
        try:
            p = os.path.join('.', stem + ext) if fmt == 'hdf5' else stem + ext
            save(p, file_type=fmt)
            if not os.path.exists(os.path.join(td, stem + ext)):
                raise AssertionError('save(relative path) did not create the file in the working directory')
            return load(p)
        finally:
            os.chdir(cwd)
    if target == 'path-unicode':
        stem = stem + ' ' + USTR
    if target == 'path-subdir':
        sub = os.path.join(td, 'my data.v2', 'sub-01 ses.pkl.h5.d')
        os.makedirs(sub)
        td = sub
    if target == 'path-misleading':
        stem = stem + {'hdf5': '.pkl.backup', 'pkl': '.h5.hdf5.backup'}[fmt]
    p = os.path.join(td, stem + ext)
    if target in ('path', 'path-hdf5ext', 'path-unicode', 'path-subdir', 'path-misleading'):
        save(p, file_type=fmt)
        return load(p)
    if target == 'path-overwrite-fresh':
        save(p, file_type=fmt, overwrite=True)
        return load(p)
    if target == 'file':
        with open(p, 'w+b') as fh:
            save(fh, file_type=fmt)
            fh.seek(0)
            return load(fh, file_type=fmt)
    if target == 'file-reopen':
        with open(p, 'w+b') as fh:
            save(fh, file_type=fmt)
        return load(p)
    raise ValueError(target)


def _eq_usable(a):
    """is `==` able to recognise an equal twin of this object at all?  The twin is a pure-Python pickle copy (no shared
    value objects).  `==` cannot when a `descriptors` value is an array (dict == dict raises) or when NaNs are present."""
    try:
        with warnings.catch_warnings():
            warnings.simplefilter('ignore')
            return (a == pickle.loads(pickle.dumps(a))) is True
    except Exception:
        return False


# =====================================================================================================
# field-wise comparison of the five kinds with a snapshot
# =====================================================================================================
def _cmp_rdms(snap, got, label):
    from rsatoolbox.rdm import RDMs
    if type(got) is not RDMs:
        return f'{label}: loaded object is a {type(got).__name__}, expected RDMs'
    r = _arr_eq(snap['dissimilarities'], got.dissimilarities, f'{label}: dissimilarities')
    if r:
        return r
    if (got.n_rdm, got.n_cond) != (snap['n_rdm'], snap['n_cond']):
        return f'{label}: n_rdm, n_cond = {(got.n_rdm, got.n_cond)}, expected {(snap["n_rdm"], snap["n_cond"])}'
    m0, m1 = snap['dissimilarity_measure'], got.dissimilarity_measure
    if not ((m0 is None and m1 is None) or (isinstance(m0, str) and isinstance(m1, str) and str(m0) == str(m1))):
        return f'{label}: dissimilarity_measure {m1!r}, expected {m0!r}'
    for att in ('descriptors', 'rdm_descriptors', 'pattern_descriptors'):
        r = _dict_eq(snap[att], getattr(got, att), f'{label}: {att}')
        if r:
            return r
    return None


def _cmp_dataset(snap, got, cls_name, label):
    if type(got).__name__ != cls_name:
        return f'{label}: loaded object is a {type(got).__name__}, expected {cls_name}'
    r = _arr_eq(snap['measurements'], got.measurements, f'{label}: measurements')
    if r:
        return r
    dims = ['n_obs', 'n_channel'] + (['n_time'] if cls_name == 'TemporalDataset' else [])
    for d in dims:
        if getattr(got, d) != snap[d]:
            return f'{label}: {d} = {getattr(got, d)}, expected {snap[d]}'
    atts = ['descriptors', 'obs_descriptors', 'channel_descriptors'] + (['time_descriptors'] if cls_name == 'TemporalDataset' else [])
    for att in atts:
        r = _dict_eq(snap[att], getattr(got, att), f'{label}: {att}')
        if r:
            return r
    return None


def _thetas(model):
    name = type(model).__name__
    if name == 'ModelSelect':
        return [0, model.n_rdm - 1]
    if name in ('ModelWeighted', 'ModelInterpolate'):
        n = model.n_rdm
        return [None, np.array([0.5 + 0.25 * k for k in range(n)]), np.array([0.0] * (n - 2) + [0.25, 0.75])]
    if name == 'ModelFixed':
        return [None]
    return []


def _cmp_model(m0, m1, label):
    if type(m0) is not type(m1):
        return f'{label}: class {type(m1).__name__}, expected {type(m0).__name__}'
    if not (isinstance(m1.name, str) and str(m0.name) == str(m1.name)):
        return f'{label}: name {m1.name!r}, expected {m0.name!r}'
    if m0.n_param != m1.n_param:
        return f'{label}: n_param {m1.n_param}, expected {m0.n_param}'
    if (m0.rdm_obj is None) != (m1.rdm_obj is None):
        return f'{label}: rdm_obj {m1.rdm_obj!r}, expected {m0.rdm_obj!r}'
    if m0.rdm_obj is not None:
        r = _cmp_rdms(vars(m0.rdm_obj), m1.rdm_obj, label + ' rdm_obj')
        if r:
            return r
        r = _arr_eq(m0.rdm, m1.rdm, f'{label}: rdm')
        if r:
            return r
        if m0.n_cond != m1.n_cond:
            return f'{label}: n_cond {m1.n_cond}, expected {m0.n_cond}'
    for th in _thetas(m0):
        a = m0.predict() if th is None else m0.predict(th)
        b = m1.predict() if th is None else m1.predict(th)
        r = _arr_eq(a, b, f'{label}: predict({None if th is None else np.asarray(th).tolist()})')
        if r:
            return r
        a = m0.predict_rdm() if th is None else m0.predict_rdm(th)
        b = m1.predict_rdm() if th is None else m1.predict_rdm(th)
        r = _cmp_rdms(vars(a), b, f'{label}: predict_rdm({None if th is None else np.asarray(th).tolist()})')
        if r:
            return r
    return None


def _call(f, *a, **k):
    try:
        with warnings.catch_warnings():
            warnings.simplefilter('ignore')
            return ('ok', f(*a, **k))
    except Exception as e:   # the same exception type must then occur on the loaded object
        return ('exc', type(e).__name__)


def _out_eq(a, b, what):
    if a[0] != b[0]:
        return f'{what}: original gives {a!r:.120}, loaded gives {b!r:.120}'
    if a[0] == 'exc':
        return None if a[1] == b[1] else f'{what}: original raises {a[1]}, loaded raises {b[1]}'
    x, y = a[1], b[1]
    if isinstance(x, str):
        return None if x == y else f'{what}: text differs:\n{y}\n-- expected --\n{x}'
    if isinstance(x, (tuple, list)):
        if len(x) != len(y):
            return f'{what}: {len(y)} outputs, expected {len(x)}'
        for i, (p, q) in enumerate(zip(x, y)):
            r = _out_eq(('ok', p), ('ok', q), f'{what}[{i}]')
            if r:
                return r
        return None
    if x is None or y is None:
        return None if (x is None and y is None) else f'{what}: {y!r}, expected {x!r}'
    return _arr_eq(np.asarray(x), np.asarray(y), what, dtype=False)


def _result_outputs(res):
    out = {}
    out['get_means'] = _call(res.get_means)
    out['get_sem'] = _call(res.get_sem)
    out['get_model_var'] = _call(res.get_model_var)
    out['get_noise_ceil'] = _call(res.get_noise_ceil)
    for tt in ('t-test', 'bootstrap'):
        out[f'test_all({tt})'] = _call(res.test_all, test_type=tt)
        out[f'get_ci(0.9,{tt})'] = _call(res.get_ci, 0.9, test_type=tt)
        out[f'summary({tt})'] = _call(res.summary, test_type=tt)
    for f in (res.test_pairwise, res.test_zero, res.test_noise):
        out[f'{f.__name__}(t-test)'] = _call(f, test_type='t-test')
    # the signed-rank tests cost one scipy call per model (pair): all pairs only for few models
    if res.n_model <= 4:
        out['test_all(ranksum)'] = _call(res.test_all, test_type='ranksum')
    else:
        out['test_zero(ranksum)'] = _call(res.test_zero, test_type='ranksum')
        out['test_noise(ranksum)'] = _call(res.test_noise, test_type='ranksum')
    return out


def _scalar_eq(a, b, what):
    """dof / n_rdm / n_pattern: None stays None, numbers equal by value and scalar"""
    if a is None or b is None:
        return None if (a is None and b is None) else f'{what}: {b!r}, expected {a!r}'
    if np.shape(b) != () or not np.asarray(b).dtype.kind in 'iuf':
        return f'{what}: {b!r}, expected the number {a!r}'
    return None if float(a) == float(b) else f'{what}: {b!r}, expected {a!r}'


def _cmp_result(r0, outs0, got, label):
    from rsatoolbox.inference import Result
    if type(got) is not Result:
        return f'{label}: loaded object is a {type(got).__name__}, expected Result'
    if len(got.models) != len(r0.models) or got.n_model != r0.n_model:
        return f'{label}: {len(got.models)} models (n_model={got.n_model}), expected {len(r0.models)}'
    for i, (m0, m1) in enumerate(zip(r0.models, got.models)):
        r = _cmp_model(m0, m1, f'{label}: model {i}')
        if r:
            return r
    for att in ('evaluations', 'noise_ceiling', 'variances', 'model_var', 'diff_var', 'noise_ceil_var'):
        r = _arr_eq(getattr(r0, att), getattr(got, att), f'{label}: {att}')
        if r:
            return r
    for att in ('dof', 'n_rdm', 'n_pattern'):
        r = _scalar_eq(getattr(r0, att), getattr(got, att), f'{label}: {att}')
        if r:
            return r
    if got.n_bootstraps != r0.n_bootstraps:
        return f'{label}: n_bootstraps {got.n_bootstraps}, expected {r0.n_bootstraps}'
    for att in ('method', 'cv_method'):
        a, b = getattr(r0, att), getattr(got, att)
        if not (isinstance(b, str) and str(a) == str(b)):
            return f'{label}: {att} {b!r}, expected {a!r}'
    outs1 = _result_outputs(got)
    for k in outs0:
        r = _out_eq(outs0[k], outs1[k], f'{label}: {k}')
        if r:
            return r
    return None


# =====================================================================================================
# oracles
# =====================================================================================================
def _followup_rdms(x):
    idx = list(x.pattern_descriptors['index'])
    y = x.subset_pattern('index', [idx[0], idx[-1]])
    ridx = list(y.rdm_descriptors['index'])
    return y.subset('index', ridx[-1])


@oracle('C16/rdms')
def orc_rdms(case):
    from rsatoolbox.rdm import load_rdm
    obj = _mk_rdms(case)
    snap = _snapshot(obj)
    label = f"RDMs {case['fmt']}/{case['target']}"
    with warnings.catch_warnings():
        warnings.simplefilter('ignore')
        with tempfile.TemporaryDirectory() as td:
            got = _transport(td, obj.save, load_rdm, case['fmt'], case['target'])
    r = _unchanged(snap, obj, label) or _cmp_rdms(snap, got, label)
    if r:
        return r
    if _eq_usable(obj) and _eq_usable(got) and not (got == obj):
        return f'{label}: all fields are equal but `loaded == original` is False'
    if case.get('twice'):       # the loaded object is an RDMs object like any other: saved and loaded again it is still equal
        with warnings.catch_warnings():
            warnings.simplefilter('ignore')
            with tempfile.TemporaryDirectory() as td:
                got2 = _transport(td, got.save, load_rdm, case['fmt'], case['target'], stem='again')
        r = _cmp_rdms(snap, got2, label + ' second round trip (the loaded object saved and loaded again)')
        if r:
            return r
    if obj.n_cond >= 2 and obj.n_rdm >= 1:
        return _cmp_rdms(vars(_followup_rdms(obj)), _followup_rdms(got), label + ' after subset_pattern+subset')
    return None


def _followup_dataset(x):
    k = sorted(x.obs_descriptors)[0] if x.obs_descriptors else None
    if k is not None and np.ndim(x.obs_descriptors[k][0]) == 0:
        x = x.subset_obs(k, x.obs_descriptors[k][-1])
    k = sorted(x.channel_descriptors)[0] if x.channel_descriptors else None
    if k is not None and np.ndim(x.channel_descriptors[k][0]) == 0:
        x = x.subset_channel(k, x.channel_descriptors[k][0])
    if hasattr(x, 'time_descriptors'):
        t = x.time_descriptors['time']
        x = x.subset_time('time', t[0], t[0])
    return x


@oracle('C16/dataset')
def orc_dataset(case):
    from rsatoolbox.data import load_dataset
    obj = _mk_dataset(case)
    cls_name = {'dataset': 'Dataset', 'temporal': 'TemporalDataset'}[case['kind']]
    snap = _snapshot(obj)
    label = f"{cls_name} {case['fmt']}/{case['target']}"
    with warnings.catch_warnings():
        warnings.simplefilter('ignore')
        with tempfile.TemporaryDirectory() as td:
            got = _transport(td, obj.save, load_dataset, case['fmt'], case['target'])
    r = _unchanged(snap, obj, label) or _cmp_dataset(snap, got, cls_name, label)
    if r:
        return r
    if _eq_usable(obj) and _eq_usable(got) and not (got == obj):
        return f'{label}: all fields are equal but `loaded == original` is False'
    if case.get('twice'):
        with warnings.catch_warnings():
            warnings.simplefilter('ignore')
            with tempfile.TemporaryDirectory() as td:
                got2 = _transport(td, got.save, load_dataset, case['fmt'], case['target'], stem='again')
        r = _cmp_dataset(snap, got2, cls_name, label + ' second round trip (the loaded object saved and loaded again)')
        if r:
            return r
    if case.get('followup', True):
        a = _call(_followup_dataset, obj)
        b = _call(_followup_dataset, got)
        if a[0] == 'ok':
            if b[0] != 'ok':
                return f'{label}: subset_obs/subset_channel/subset_time works on the original but raises {b[1]} on the loaded object'
            return _cmp_dataset(vars(a[1]), b[1], type(a[1]).__name__, label + ' after subset_obs+subset_channel(+subset_time)')
    return None


def _model_save(model):
    from rsatoolbox.io.hdf5 import write_dict_hdf5
    from rsatoolbox.io.pkl import write_dict_pkl

    def save(filename, file_type='hdf5', overwrite=False):
        d = model.to_dict()
        (write_dict_hdf5 if file_type == 'hdf5' else write_dict_pkl)(filename, d)
    return save


def _model_load(filename, file_type=None):
    from rsatoolbox.io.hdf5 import read_dict_hdf5
    from rsatoolbox.io.pkl import read_dict_pkl
    from rsatoolbox.model import model_from_dict
    if file_type is None:
        file_type = 'pkl' if filename.endswith('.pkl') else 'hdf5'
    d = (read_dict_hdf5 if file_type == 'hdf5' else read_dict_pkl)(filename)
    return model_from_dict(d)


@oracle('C16/model')
def orc_model(case):
    m = _mk_model(case['mkind'], case.get('i', 0), case['n_cond'], case.get('seed', 0), name=case.get('name'),
                  vals=case.get('vals', 'plain'))
    snap = _snapshot(m)
    label = f"{type(m).__name__} {case['fmt']}/{case['target']}"
    with warnings.catch_warnings():
        warnings.simplefilter('ignore')
        with tempfile.TemporaryDirectory() as td:
            got = _transport(td, _model_save(m), _model_load, case['fmt'], case['target'])
            got2 = _transport(td, _model_save(got), _model_load, case['fmt'], case['target'], stem='again') if case.get('twice') else None
    r = _unchanged(snap, m, label) or _cmp_model(m, got, label)
    if r is None and got2 is not None:
        r = _cmp_model(m, got2, label + ' second round trip (the loaded model saved and loaded again)')
    return r


@oracle('C16/result')
def orc_result(case):
    from rsatoolbox.inference import load_results
    res = _mk_result(case)
    outs0 = _result_outputs(res)
    snap = _snapshot(res)
    label = f"Result[{case['n_model']} models] {case['fmt']}/{case['target']}"
    with warnings.catch_warnings():
        warnings.simplefilter('ignore')
        with tempfile.TemporaryDirectory() as td:
            got = _transport(td, res.save, load_results, case['fmt'], case['target'])
            got2 = _transport(td, got.save, load_results, case['fmt'], case['target'], stem='again') if case.get('twice') else None
    r = _unchanged(snap, res, label) or _cmp_result(res, outs0, got, label)
    if r is None and got2 is not None:
        r = _cmp_result(res, outs0, got2, label + ' second round trip (the loaded Result saved and loaded again)')
    return r


# ---- histories ----------------------------------------------------------------------------------------
RDM_OPS = ['subset', 'subsample', 'subset_pattern', 'subsample_pattern', 'reorder', 'sort_by', 'append', 'concat', 'copy', 'getitem']
DS_OPS = ['subset_obs', 'subset_channel', 'sort_by', 'split_obs', 'split_channel', 'odd_even', 'merge', 'copy']
TD_OPS = ['subset_obs', 'subset_channel', 'subset_time', 'split_time', 'bin_time', 'sort_by', 'split_obs', 'copy',
          'time_as_channels', 'time_as_observations']


def _uniq(seq):
    out = []
    for v in seq:
        v = v.item() if isinstance(v, np.generic) else v
        if v not in out:
            out.append(v)
    return out


def _apply_rdm_op(x, op, rs):
    import rsatoolbox.rdm as R
    if op == 'subset':
        vals = _uniq(x.rdm_descriptors['sess'])
        keep = [v for v in vals if rs.rand() < 0.6] or vals[:1]
        return x.subset('sess', keep)
    if op == 'subsample':
        vals = _uniq(x.rdm_descriptors['index'])
        return x.subsample('index', [vals[rs.randint(len(vals))] for _ in range(max(2, len(vals)))])
    if op == 'subset_pattern':
        vals = _uniq(x.pattern_descriptors['stim'])
        if len(vals) <= 2:
            return x
        drop = vals[rs.randint(len(vals))]
        return x.subset_pattern('stim', [v for v in vals if v != drop])
    if op == 'subsample_pattern':
        vals = _uniq(x.pattern_descriptors['index'])
        return x.subsample_pattern('index', [vals[rs.randint(len(vals))] for _ in range(len(vals))] + vals[:2])
    if op == 'reorder':
        x.reorder(rs.permutation(x.n_cond))
        return x
    if op == 'sort_by':
        x.sort_by(stim='alpha')
        return x
    if op == 'append':
        x.append(x[0])
        return x
    if op == 'concat':
        return R.concat([x, x.copy()])
    if op == 'copy':
        return x.copy()
    if op == 'getitem':
        return x[rs.randint(x.n_rdm)]
    raise ValueError(op)


def _apply_ds_op(x, op, rs):
    from rsatoolbox.data.ops import merge_datasets
    temporal = hasattr(x, 'time_descriptors')
    if op == 'subset_obs':
        vals = _uniq(x.obs_descriptors['cond'])
        keep = [v for v in vals if rs.rand() < 0.6] or vals[:1]
        return x.subset_obs('cond', keep)
    if op == 'subset_channel':
        vals = _uniq(x.channel_descriptors['roi'])
        return x.subset_channel('roi', vals[rs.randint(len(vals))])
    if op == 'sort_by':
        x.sort_by('cond')
        return x
    if op == 'split_obs':
        parts = x.split_obs('run')
        return parts[rs.randint(len(parts))]
    if op == 'split_channel':
        parts = x.split_channel('roi')
        return parts[rs.randint(len(parts))]
    if op == 'odd_even':
        return x.odd_even_split('cond')[rs.randint(2)]
    if op == 'merge':
        return merge_datasets(x.split_obs('run'))
    if op == 'copy':
        return x.copy()
    if op == 'subset_time' and temporal:
        t = np.asarray(x.time_descriptors['time'], dtype=float)
        return x.subset_time('time', float(t[0]), float(t[max(0, len(t) - 2)]))
    if op == 'split_time' and temporal:
        parts = x.split_time('time')
        return parts[rs.randint(len(parts))]
    if op == 'bin_time' and temporal:
        t = list(x.time_descriptors['time'])
        if len(t) < 2:
            return x
        bins = [np.asarray(t[i:i + 2]) for i in range(0, len(t) - len(t) % 2, 2)]
        x = x.copy()     # bin_time only accepts objects whose sole time descriptor is the binned one
        x.time_descriptors = {'time': np.asarray(x.time_descriptors['time'])}
        return x.bin_time('time', bins)
    if op == 'time_as_channels' and temporal:
        return x.time_as_channels()
    if op == 'time_as_observations' and temporal:
        return x.time_as_observations('time')
    return x      # temporal-only operation on a flat dataset (after a conversion): nothing to do


def _history_start(kind):
    from rsatoolbox.rdm import RDMs
    from rsatoolbox.data import Dataset, TemporalDataset
    if kind == 'rdms':
        n_rdm, n_cond = 4, 5
        return RDMs(_values((n_rdm, 10), 'naninf'), dissimilarity_measure='crossnobis',
                    descriptors={'subj': 2, 'task': 'faces', 'runs': np.arange(3), 'prec': _dval('mat', 3)},
                    rdm_descriptors={'sess': ['s1', 's0', 's1', 's2'], 'w': np.array([0.5, 1.5, 2.5, 3.5])},
                    pattern_descriptors={'stim': ['d', 'b', 'a', 'c', 'e'], 'grp': np.array([1, 1, 2, 2, 3])})
    od = {'cond': ['c2', 'c0', 'c1', 'c0', 'c1', 'c2', 'c0', 'c1'], 'run': [0, 0, 0, 0, 1, 1, 1, 1]}
    cd = {'roi': ['V1', 'V2', 'V2'], 'vox': np.array([17, 3, 9])}
    if kind == 'dataset':
        return Dataset(_values((8, 3), 'naninf'), descriptors={'subj': 4, 'task': 'faces'}, obs_descriptors=od,
                       channel_descriptors=cd)
    return TemporalDataset(_values((8, 3, 4), 'naninf'), descriptors={'subj': 4, 'task': 'faces'}, obs_descriptors=od,
                           channel_descriptors=cd,
                           time_descriptors={'time': np.array([0.0, 0.25, 0.5, 0.75]), 'win': ['w0', 'w0', 'w1', 'w1']})


@oracle('C16/history')
def orc_history(case):
    from rsatoolbox.rdm import load_rdm
    from rsatoolbox.data import load_dataset
    kind = case['kind']
    rs = np.random.RandomState(case.get('seed', 0))
    x = _history_start(kind)
    applied = []
    with warnings.catch_warnings():
        warnings.simplefilter('ignore')
        for op in case['ops']:
            try:
                y = _apply_rdm_op(x, op, rs) if kind == 'rdms' else _apply_ds_op(x, op, rs)
            except Exception:   # the operation is not applicable here (or hits a C10/C11/C12 defect): skip it
                continue
            x = y
            applied.append(op)
        snap = _snapshot(x)
        label = f"{type(x).__name__} after {applied or 'no operation'} {case['fmt']}/{case['target']}"
        with tempfile.TemporaryDirectory() as td:
            got = _transport(td, x.save, load_rdm if kind == 'rdms' else load_dataset, case['fmt'], case['target'])
    r = _unchanged(snap, x, label)
    if r:
        return r
    if kind == 'rdms':
        return _cmp_rdms(snap, got, label)
    return _cmp_dataset(snap, got, type(x).__name__, label)


# ---- overwrite semantics -------------------------------------------------------------------------------
def _tree(path, fmt):
    """all names stored in the file, read WITHOUT rsatoolbox: {'/group/name', '/group@attr', ...}"""
    names = set()
    if fmt == 'hdf5':
        import h5py
        with h5py.File(path, 'r') as f:
            def walk(g, prefix):
                for a in g.attrs.keys():
                    names.add(f'{prefix}@{a}')
                for k in g.keys():
                    names.add(f'{prefix}/{k}')
                    if isinstance(g[k], h5py.Group):
                        walk(g[k], f'{prefix}/{k}')
            walk(f, '')
    else:
        with open(path, 'rb') as f:
            d = pickle.load(f)
            if f.read():
                names.add('<trailing bytes after the pickle>')

        def walk(dd, prefix):
            for k, v in dd.items():
                names.add(f'{prefix}/{k}')
                if isinstance(v, dict):
                    walk(v, f'{prefix}/{k}')
        walk(d, '')
    return names


def _ow_objects(kind):
    """A (old, larger, with names only it has) and B (new)"""
    if kind == 'rdms':
        a = _mk_rdms(dict(n_rdm=4, n_cond=5, desc=['int', 'str', 'mat'], rdm_desc=['list-str', 'arr-int'], pat_desc=['list-str', 'arr-float']), 0.0)
        b = _mk_rdms(dict(n_rdm=2, n_cond=3, desc=['float'], rdm_desc=['list-int'], pat_desc=[], measure='none'), 500.0)
        a.descriptors['only_in_A'] = 'old'
        b.descriptors['only_in_B'] = 'new'
    elif kind in ('dataset', 'temporal'):
        a = _mk_dataset(dict(kind=kind, n_obs=6, n_ch=4, n_t=3, desc=['int', 'mat'], obs_desc=['list-str', 'arr-int'], ch_desc=['arr-str'], t_desc=['list-str']), 0.0)
        b = _mk_dataset(dict(kind=kind, n_obs=2, n_ch=2, n_t=2, desc=['str'], obs_desc=['list-int'], ch_desc=[]), 500.0)
        a.descriptors['only_in_A'] = 'old'
        a.obs_descriptors['obs_only_in_A'] = list(range(6))
        b.descriptors['only_in_B'] = 'new'
    else:
        a = _mk_result(dict(n_model=5, model_kinds=['fixed', 'weighted', 'select'], variances='2d-nc', n_rdm=8, n_pattern=4, seed=1))
        b = _mk_result(dict(n_model=2, model_kinds=['interpolate', 'base'], variances='none', seed=2, dof=3, cv_method='fixed'))
    return a, b


def _cmp_any(kind, obj, got, label):
    if kind == 'rdms':
        return _cmp_rdms(vars(obj), got, label)
    if kind in ('dataset', 'temporal'):
        return _cmp_dataset(vars(obj), got, type(obj).__name__, label)
    if kind == 'model':
        return _cmp_model(obj, got, label)
    return _cmp_result(obj, _result_outputs(obj), got, label)


@oracle('C16/overwrite')
def orc_overwrite(case):
    from rsatoolbox.rdm import load_rdm
    from rsatoolbox.data import load_dataset
    from rsatoolbox.inference import load_results
    from rsatoolbox.io.hdf5 import write_dict_hdf5
    kind, fmt, target = case['kind'], case['fmt'], case['target']
    load = {'rdms': load_rdm, 'dataset': load_dataset, 'temporal': load_dataset, 'result': load_results}[kind]
    A, B = _ow_objects(kind)
    # sweep ("existing output files"): what the existing file holds.  'larger' (default): an older, larger object of the same
    # format; 'smaller': an older, smaller one; 'same': an object equal to the new one; 'empty-file': zero bytes; 'garbage':
    # bytes that are no file of either format; 'other-format': the old object in the OTHER format under this suffix
    old = case.get('old', 'larger')
    if old == 'smaller':
        A, B = B, A
    elif old == 'same':
        A = _ow_objects(kind)[1]
    old_is_obj = old in ('larger', 'smaller', 'same')
    snapB = _snapshot(B)
    with warnings.catch_warnings():
        warnings.simplefilter('ignore')
        with tempfile.TemporaryDirectory() as td:
            p = os.path.join(td, 'obj' + EXT[fmt])
            fresh = os.path.join(td, 'fresh' + EXT[fmt])
            B.save(fresh, file_type=fmt)
            tree_b = _tree(fresh, fmt)
            if old_is_obj:
                A.save(p, file_type=fmt)
                tree_a = _tree(p, fmt)
            else:
                if old == 'empty-file':
                    open(p, 'wb').close()
                elif old == 'garbage':
                    with open(p, 'wb') as f:
                        f.write(b'this is neither an HDF5 file nor a pickle\n' * 40)
                else:
                    A.save(p, file_type={'hdf5': 'pkl', 'pkl': 'hdf5'}[fmt])
                fresh_a = os.path.join(td, 'freshA' + EXT[fmt])
                A.save(fresh_a, file_type=fmt)
                tree_a = _tree(fresh_a, fmt)
            only_a = (tree_a - tree_b) if old_is_obj else set()
            if old == 'larger' and not only_a:
                return 'test set-up: the old object has no name of its own'
            with open(p, 'rb') as f:
                bytes_a = f.read()
            if fmt == 'hdf5' and case.get('path_as') == 'pathlib':
                # (1p) the same refusal when the existing path is given as a pathlib.Path: ANY exception, and the file untouched
                import pathlib
                try:
                    B.save(pathlib.Path(p), file_type=fmt)
                    refused = None
                except Exception as e:                                   # noqa: BLE001
                    refused = type(e).__name__
                if refused is None:
                    return f'{kind}.save(pathlib.Path of an existing hdf5 file) without overwrite: no exception'
                try:        # (bytes may differ -- h5py touches the file before the first name collision --, the OBJECT must not)
                    r = _cmp_any(kind, A, load(p), f'{kind} after the refused save to a pathlib.Path ({refused}): old object') \
                        if old_is_obj else None
                except Exception as e:                                   # noqa: BLE001
                    r = f'{kind}: after the refused save to a pathlib.Path ({refused}) the file cannot be loaded: {type(e).__name__}: {e}'
                if r:
                    return r
                with open(p, 'rb') as f:
                    bytes_a = f.read()
            if fmt == 'hdf5':
                # (1) refusal on an existing path, file untouched
                try:
                    B.save(p, file_type=fmt)
                    refused = None
                except ValueError:
                    refused = 'ValueError'
                except Exception as e:
                    refused = type(e).__name__
                if refused != 'ValueError':
                    return (f'{kind}.save(existing hdf5 path) without overwrite: expected ValueError, got '
                            f'{refused or "no exception"}; file now holds names {sorted(_tree(p, fmt) - tree_a)[:4]} in addition')
                with open(p, 'rb') as f:
                    if f.read() != bytes_a:
                        return f'{kind}.save(existing hdf5 path) raised ValueError but the file content changed'
                r = _cmp_any(kind, A, load(p), f'{kind} after the refused save: old object') if old_is_obj else None
                if r:
                    return r
                try:
                    write_dict_hdf5(p, {'x': np.arange(2)})
                    return 'write_dict_hdf5(existing path) did not raise ValueError'
                except ValueError:
                    pass
                r = _unchanged(snapB, B, 'refused save')
                if r:
                    return r
            if fmt == 'pkl' and target == 'path' and old == 'larger':
                # (1') a plain save onto an existing pickle path: either it is refused (raises) or reading back yields the
                # object that was written -- the round trip is promised for every write, it must never return the OLD object
                p2 = os.path.join(td, 'again' + EXT[fmt])
                A.save(p2, file_type=fmt)
                try:
                    B.save(p2, file_type=fmt)
                    refused = False
                except Exception:                                   # noqa: BLE001
                    refused = True
                r = _cmp_any(kind, A if refused else B, load(p2),
                             f'{kind} pkl/path plain save onto an existing file ({"refused" if refused else "accepted"})')
                if r:
                    return r + ' (reading back after writing must give the object written)'
            # (2) overwrite requested
            if target == 'path':
                B.save(p, file_type=fmt, overwrite=True)
            else:
                with open(p, 'r+b') as fh:
                    if case.get('handle_pos') == 'end':      # e.g. the caller has just read the old content through this handle
                        fh.seek(0, 2)
                    B.save(fh, file_type=fmt, overwrite=True)
            label = f'{kind} {fmt}/{target} overwrite=True on a file holding ' + {
                'larger': 'an older, larger object', 'smaller': 'an older, smaller object', 'same': 'an equal object',
                'empty-file': 'zero bytes', 'garbage': 'bytes of no known format', 'other-format': 'an object in the other format'}[old]
            tree_now = _tree(p, fmt)
            left = sorted(tree_now & only_a)
            if left:
                return f'{label}: names of the old object are still in the file: {left[:6]}'
            if tree_now != tree_b:
                return (f'{label}: stored names differ from a fresh save: extra {sorted(tree_now - tree_b)[:6]}, '
                        f'missing {sorted(tree_b - tree_now)[:6]}')
            r = _cmp_any(kind, B, load(p), label)
            if r:
                return r
            r = _unchanged(snapB, B, label)
            if r:
                return r
            # (3) and once more on top of the new file (overwrite of an equal-sized file), now with the old object
            if target == 'path':
                A.save(p, file_type=fmt, overwrite=True)
                r = _cmp_any(kind, A, load(p), f'{kind} {fmt}/path second overwrite')
                if r:
                    return r
                if _tree(p, fmt) != tree_a:
                    return f'{kind} {fmt}/path second overwrite: stored names differ from the first save of that object'
    return None


@oracle('C16/dispatch')
def orc_dispatch(case):
    from rsatoolbox.rdm import load_rdm
    from rsatoolbox.data import load_dataset
    from rsatoolbox.inference import load_results
    kind, fmt, suffix, given = case['kind'], case['fmt'], case['suffix'], case['file_type']
    load = {'rdms': load_rdm, 'dataset': load_dataset, 'temporal': load_dataset, 'result': load_results}[kind]
    obj = _ow_objects(kind)[0]
    by_suffix = 'pkl' if suffix.endswith('.pkl') else 'hdf5' if (suffix.endswith('.h5') or suffix.endswith('hdf5')) else None
    eff = given or by_suffix        # what the loader must try to read the file as
    with warnings.catch_warnings():
        warnings.simplefilter('ignore')
        with tempfile.TemporaryDirectory() as td:
            p = os.path.join(td, 'f' + suffix)
            obj.save(p, file_type=fmt)
            res = _call(load, p, file_type=given) if given else _call(load, p)
            label = f"load of a {fmt} file named f{suffix} with file_type={given!r}"
            if eff is None:
                return None if res == ('exc', 'ValueError') else f'{label}: expected ValueError(filetype not understood), got {res!r:.100}'
            if eff == fmt:
                if res[0] != 'ok':
                    return f'{label}: raised {res[1]}, expected the saved object'
                return _cmp_any(kind, obj, res[1], label)
            # the loader is told (or infers) the wrong format: it must not return an object silently
            return None if res[0] == 'exc' else f'{label}: returned an object although the file is {fmt}'


# ---- call sequences ------------------------------------------------------------------------------------
SEQ_CASES = {
    'rdms': dict(n_rdm=3, n_cond=4, vals='naninf', measure='ustr', desc=['int', 'str', 'mat', 'arr-precise'],
                 rdm_desc=['list-str', 'arr-int', 'list-interleaved'], pat_desc=['arr-str', 'list-float']),
    'dataset': dict(kind='dataset', n_obs=4, n_ch=3, vals='naninf', desc=['int', 'str', 'mat'], obs_desc=['list-str', 'list-interleaved'],
                    ch_desc=['arr-str', 'arr-precise']),
    'temporal': dict(kind='temporal', n_obs=4, n_ch=3, n_t=2, vals='inf', desc=['float', 'ustr'], obs_desc=['list-str'],
                     ch_desc=['arr-int'], t_desc=['list-str']),
    'result': dict(n_model=5, model_kinds=['fixed', 'weighted', 'select', 'interpolate', 'base'], variances='2d-nc', n_rdm=8, n_pattern=4),
    'model': dict(mkind='weighted', n_cond=4, name='layer7'),
}


def _mk_any(kind, case, twin=0):
    """the object of a case; twin=1: an object of the SAME shape, keys and types but different numbers"""
    if kind == 'rdms':
        return _mk_rdms(case, 500.0 * twin)
    if kind in ('dataset', 'temporal'):
        return _mk_dataset(case, 500.0 * twin)
    if kind == 'result':
        return _mk_result(dict(case, seed=case.get('seed', 0) + 17 * twin))
    return _mk_model(case['mkind'], case.get('i', 0), case['n_cond'], case.get('seed', 0) + 17 * twin, name=case.get('name'),
                     vals=case.get('vals', 'plain'))


def _saver(kind, obj):
    return _model_save(obj) if kind == 'model' else obj.save


def _loader(kind):
    from rsatoolbox.rdm import load_rdm
    from rsatoolbox.data import load_dataset
    from rsatoolbox.inference import load_results
    return {'rdms': load_rdm, 'dataset': load_dataset, 'temporal': load_dataset, 'result': load_results, 'model': _model_load}[kind]


def _store(save, fmt, target, td, stem):
    """save to a fresh place; returns the locator (a str path or the BytesIO)"""
    if target == 'bytesio':
        bio = io.BytesIO()
        save(bio, file_type=fmt)
        return bio
    p = os.path.join(td, stem + EXT[fmt])
    if target == 'file':
        with open(p, 'w+b') as fh:
            save(fh, file_type=fmt)
    else:
        save(p, file_type=fmt)
    return p


def _fetch(load, loc, fmt):
    if isinstance(loc, io.BytesIO):
        loc.seek(0)
        return load(loc, file_type=fmt)
    return load(loc)


def _mutate(kind, x):
    """the CALLER changes an object he holds, in place (numbers, a descriptor, a name)"""
    if kind == 'rdms':
        x.dissimilarities[...] = 7
        x.descriptors['mutated'] = 'yes'
        x.dissimilarity_measure = 'changed'
    elif kind in ('dataset', 'temporal'):
        x.measurements[...] = 7
        x.descriptors['mutated'] = 'yes'
    elif kind == 'result':
        x.evaluations[...] = 0.5
        x.dof = 99
        x.models.reverse()
        x.method = 'changed'
    else:
        x.name = 'changed'
        if x.rdm_obj is not None:
            x.rdm_obj.dissimilarities[...] = 7
            x.rdm_obj.descriptors['mutated'] = 'yes'


@oracle('C16/sequence')
def orc_sequence(case):
    """call sequences.  Expected values: twins built a second time from the case (never saved, never passed to the library)."""
    kind, fmt, target = case['kind'], case['fmt'], case['target']
    oc = case.get('obj', SEQ_CASES[kind])
    load = _loader(kind)
    refA, refB = _mk_any(kind, oc, 0), _mk_any(kind, oc, 1)
    A, B = _mk_any(kind, oc, 0), _mk_any(kind, oc, 1)
    what = f'{kind} {fmt}/{target}'
    with warnings.catch_warnings():
        warnings.simplefilter('ignore')
        with tempfile.TemporaryDirectory() as td:
            if _cmp_any(kind, refA, B, 'set-up') is None:
                return 'test set-up: the twin does not differ from the object'
            # (1) two objects of the same shape, keys and types but other content, saved one after the other, loaded afterwards
            locA = _store(_saver(kind, A), fmt, target, td, 'a1')
            locB = _store(_saver(kind, B), fmt, target, td, 'b1')
            gA, gB = _fetch(load, locA, fmt), _fetch(load, locB, fmt)
            r = (_cmp_any(kind, refA, gA, f'{what}: first of two twins saved one after the other')
                 or _cmp_any(kind, refB, gB, f'{what}: second of two twins saved one after the other'))
            if r:
                return r
            # (2) the same call twice: a second save of the same object elsewhere, a second load of the first file
            locA2 = _store(_saver(kind, A), fmt, target, td, 'a2')
            r = (_cmp_any(kind, refA, _fetch(load, locA2, fmt), f'{what}: second save of the same object')
                 or _cmp_any(kind, refA, _fetch(load, locA, fmt), f'{what}: second load of the same file'))
            if r:
                return r
            # (3) an object the caller got from load must not change when the library is used again
            held = copy.deepcopy(vars(gA))
            _store(_saver(kind, B), fmt, target, td, 'b2')
            _fetch(load, locB, fmt)
            gA3 = _fetch(load, locA, fmt)
            r = _strict(held, vars(gA), 'loaded ' + type(gA).__name__)
            if r:
                return f'{what}: an object returned by load changed when other objects were saved / loaded afterwards: {r}'
            # (4) the caller changes the loaded object in place: the file (and whatever the loader keeps) still gives the original
            _mutate(kind, gA)
            r = _cmp_any(kind, refA, _fetch(load, locA, fmt), f'{what}: load after the caller changed the object loaded before')
            if r:
                return r
            r = _cmp_any(kind, refA, gA3, f'{what}: an earlier load result after the caller changed another load result of the same file')
            if r:
                return r
            # (5) the caller changes the ORIGINAL after saving: the file holds the object as it was when it was saved
            _mutate(kind, A)
            r = (_cmp_any(kind, refA, _fetch(load, locA, fmt), f'{what}: load after the caller changed the saved original')
                 or _cmp_any(kind, refA, _fetch(load, locA2, fmt), f'{what}: load (second file) after the caller changed the saved original'))
            if r:
                return r
            # (6) the loaded object saved again and loaded again
            loc4 = _store(_saver(kind, gA3), fmt, target, td, 'a4')
            r = _cmp_any(kind, refA, _fetch(load, loc4, fmt), f'{what}: loaded object saved and loaded again')
            if r:
                return r
            # B was saved twice and never changed
            return _cmp_any(kind, refB, B, f'{what}: in-memory twin after all calls')


# ---- environment: a new interpreter with another hash seed ------------------------------------------------
_INTERP_SCRIPT = r"""
import json, sys, warnings
warnings.simplefilter('ignore')
import contracts.C16_c as T
jobs = json.loads(sys.stdin.read())
probs = []
for j in jobs:
    kind, fmt = j['kind'], j['fmt']
    try:
        ref = T._mk_any(kind, j['case'])
        got = T._loader(kind)(j['path_in'])
        r = T._cmp_any(kind, ref, got, 'file written by the parent interpreter, read here: %s %s' % (kind, fmt))
        if r:
            probs.append(r)
        T._saver(kind, T._mk_any(kind, j['case']))(j['path_out'], file_type=fmt)
    except Exception as e:
        probs.append('%s %s: exception %s: %s' % (kind, fmt, type(e).__name__, e))
print('C16-INTERP-RESULT ' + json.dumps(probs))
"""


def _interp_jobs():
    ax = [k for k in AXIS_KINDS if k not in UNSAFE_AXIS]
    ds = [k for k in DESC_KINDS if k not in FINDING_CLASS and k not in SOLO_DESC]
    return [
        ('rdms', dict(n_rdm=3, n_cond=5, vals='naninf', measure='ustr', desc=ds, rdm_desc=ax, pat_desc=ax, keys='unicode')),
        ('dataset', dict(kind='dataset', n_obs=6, n_ch=3, vals='precise', desc=ds, obs_desc=ax, ch_desc=ax)),
        ('temporal', dict(kind='temporal', n_obs=4, n_ch=3, n_t=4, vals='naninf', desc=ds, obs_desc=ax, ch_desc=ax, t_desc=ax, keys='unicode')),
        ('result', dict(n_model=12, model_kinds=['fixed', 'weighted', 'select', 'interpolate', 'base', 'fixed-multi', 'fixed-vector'],
                        variances='3d-nc', n_rdm=8, n_pattern=4, names=['über', 'm'], method=USTR, seed=5)),
        ('model', dict(mkind='interpolate', n_cond=5, name=USTR, vals='precise')),
    ]


@oracle('C16/interpreter')
def orc_interpreter(case):
    """files written here are read in a NEW interpreter started with another PYTHONHASHSEED (expected value: the object built
    there from the same case), and files written there are read here"""
    import json
    import subprocess
    import sys
    import rsatoolbox
    root = os.path.dirname(os.path.dirname(os.path.abspath(__file__)))
    lib = os.path.dirname(os.path.dirname(os.path.abspath(rsatoolbox.__file__)))      # the tree under test in THIS interpreter
    env = dict(os.environ, PYTHONHASHSEED=str(case['hashseed']),
               PYTHONPATH=os.pathsep.join([lib, root] + [p for p in os.environ.get('PYTHONPATH', '').split(os.pathsep) if p]))
    with warnings.catch_warnings():
        warnings.simplefilter('ignore')
        with tempfile.TemporaryDirectory() as td:
            jobs = []
            for i, (kind, oc) in enumerate(_interp_jobs()):
                for fmt in ('hdf5', 'pkl'):
                    j = dict(kind=kind, fmt=fmt, case=oc, path_in=os.path.join(td, 'parent%d%s' % (i, EXT[fmt])),
                             path_out=os.path.join(td, 'child%d%s' % (i, EXT[fmt])))
                    _saver(kind, _mk_any(kind, oc))(j['path_in'], file_type=fmt)
                    jobs.append(j)
            pr = subprocess.run([sys.executable, '-c', _INTERP_SCRIPT], input=json.dumps(jobs), capture_output=True, text=True,
                                env=env, cwd=root, timeout=600)
            lines = [ln for ln in pr.stdout.splitlines() if ln.startswith('C16-INTERP-RESULT ')]
            if pr.returncode != 0 or not lines:
                return f'interpreter with PYTHONHASHSEED={case["hashseed"]} failed (rc {pr.returncode}): {pr.stderr[-400:]}'
            probs = json.loads(lines[-1][len('C16-INTERP-RESULT '):])
            if probs:
                return f'under PYTHONHASHSEED={case["hashseed"]}: {probs[0]} ({len(probs)} failures)'
            for j in jobs:
                r = _cmp_any(j['kind'], _mk_any(j['kind'], j['case']), _loader(j['kind'])(j['path_out']),
                             f"file written under PYTHONHASHSEED={case['hashseed']}, read by this interpreter: {j['kind']} {j['fmt']}")
                if r:
                    return r
    return None


# =====================================================================================================
# domains
# =====================================================================================================
SAFE_DESC = [k for k in DESC_KINDS if k not in FINDING_CLASS and k not in SOLO_DESC]
SAFE_AXIS = [k for k in AXIS_KINDS if k not in UNSAFE_AXIS]


def tier_c(run, thorough):
    bds = []
    fmts = ('hdf5', 'pkl')

    # ---- RDMs ----------------------------------------------------------------------------------------
    bd = Bounded(run, 'C16/rdms', 'C16/RDMs.save-load_rdm/oracle/roundtrip',
                 'RDMs n_rdm in {1,2,3,12} x n_cond in {2,3,5} (quick: 5 of the 12 shapes); values plain/NaN/inf/float32/int/-0.0; measure str/unicode/None; '
                 'all %d harmless `descriptors` value kinds and %d per-RDM/per-pattern descriptor kinds together, ascii and unicode '
                 'keys; hdf5+pkl; 7 targets (path .h5/.hdf5/.pkl/neutral suffix, overwrite on fresh path, file handle, reopened, '
                 'BytesIO; all 7 only for 2 shapes in quick)' % (len(SAFE_DESC), len(SAFE_AXIS)), function='RDMs.save')
    for fmt in fmts:
        for n_rdm, n_cond in (itertools.product((1, 2, 3, 12), (2, 3, 5)) if thorough else ((1, 2), (1, 3), (2, 5), (3, 5), (12, 3))):
            for vals, measure in (('plain', 'str'), ('naninf', 'none'), ('f4', 'ustr'), ('int', 'str'), ('negzero', 'str')):
                for target in (TARGETS if (thorough or (n_rdm, n_cond) in ((1, 3), (3, 5))) else ('path', 'bytesio')):
                    bd.check(orc_rdms, dict(n_rdm=n_rdm, n_cond=n_cond, vals=vals, measure=measure, desc=SAFE_DESC,
                                            rdm_desc=SAFE_AXIS, pat_desc=SAFE_AXIS, keys='unicode' if vals == 'naninf' else 'plain',
                                            fmt=fmt, target=target), 'size-1' if n_rdm == 1 else 'generic', function='RDMs.save')
        bd.check(orc_rdms, dict(n_rdm=2, n_cond=3, desc=[], rdm_desc=[], pat_desc=[], measure='none', fmt=fmt, target='path'),
                 'generic', function='RDMs.save')
        # sweep: typed dissimilarities and extreme units (stored dtype and every bit of the values come back), once more through
        # a second round trip of the loaded object
        for n_rdm, n_cond in (((3, 4), (1, 2), (12, 5)) if thorough else ((3, 4),)):
            for vals in TYPED_VALS + UNIT_VALS:
                for target in (('path', 'bytesio', 'file') if thorough else ('path',)):
                    bd.check(orc_rdms, dict(n_rdm=n_rdm, n_cond=n_cond, vals=vals, measure='str', desc=['int', 'arr-precise', 'arr-bigint'],
                                            rdm_desc=['list-str', 'arr-u8', 'list-bigint'], pat_desc=['arr-precise', 'list-interleaved'],
                                            fmt=fmt, target=target, twice=True),
                             'typed-data' if vals in TYPED_VALS else 'extreme-units', function='RDMs.save')
        # sweep: other spellings of a path; blanks in descriptor names; the second round trip with every descriptor kind
        for target in TARGETS_X:
            bd.check(orc_rdms, dict(n_rdm=2, n_cond=4, vals='naninf', measure='ustr', desc=SAFE_DESC, rdm_desc=SAFE_AXIS, pat_desc=SAFE_AXIS,
                                    keys='unicode', fmt=fmt, target=target), 'path-spelling', function='RDMs.save')
        bd.check(orc_rdms, dict(n_rdm=3, n_cond=4, vals='precise', desc=SAFE_DESC, rdm_desc=SAFE_AXIS, pat_desc=SAFE_AXIS, keys='spaces',
                                fmt=fmt, target='path', twice=True), 'generic', function='RDMs.save')
        # sweep: sizes -- more items than above, no RDM at all
        for n_rdm, n_cond in (((25, 12), (0, 3), (40, 30), (2, 60)) if thorough else ((25, 12), (0, 3))):
            bd.check(orc_rdms, dict(n_rdm=n_rdm, n_cond=n_cond, vals='precise' if n_rdm else 'plain', desc=SAFE_DESC,
                                    rdm_desc=[k for k in SAFE_AXIS if n_rdm or k not in ('arr-float', 'arr-2d')], pat_desc=SAFE_AXIS,
                                    fmt=fmt, target='path',
                                    twice=True), 'size-0' if n_rdm == 0 else 'many-items', function='RDMs.save')
    bd.done()
    bds.append(bd)

    # ---- Dataset / TemporalDataset -------------------------------------------------------------------
    bd = Bounded(run, 'C16/dataset', 'C16/DatasetBase.save-load_dataset/oracle/roundtrip',
                 'Dataset n_obs in {1,2,6} x n_channel in {1,3}; TemporalDataset additionally n_time in {1,2,4} (quick: without the 2s); values '
                 'plain/NaN/inf/float32/int; all harmless `descriptors` value kinds (incl. a noise precision matrix) and '
                 'obs/channel/time descriptor kinds together, ascii and unicode keys; hdf5+pkl; 7 targets (all 7 only for 4 shapes '
                 'in quick)', function='DatasetBase.save')
    for fmt in fmts:
        for kind in ('dataset', 'temporal'):
            for n_obs, n_ch in itertools.product((1, 2, 6) if thorough else (1, 6), (1, 3)):
                for n_t in (((1, 2, 4) if thorough else (1, 4)) if kind == 'temporal' else (0,)):
                    for vals in ('plain', 'naninf', 'f4', 'int'):
                        full = thorough or (n_obs, n_ch, n_t) in ((6, 3, 0), (1, 1, 0), (6, 3, 4), (1, 1, 1))
                        if not full and vals in ('f4', 'int'):
                            continue
                        for target in (TARGETS if full else ('path', 'bytesio')):
                            c = dict(kind=kind, n_obs=n_obs, n_ch=n_ch, vals=vals, desc=SAFE_DESC, obs_desc=SAFE_AXIS,
                                     ch_desc=SAFE_AXIS, keys='unicode' if vals == 'naninf' else 'plain', fmt=fmt, target=target)
                            if kind == 'temporal':
                                c.update(n_t=n_t, t_desc=SAFE_AXIS)
                            bd.check(orc_dataset, c, 'size-1' if 1 in (n_obs, n_ch, n_t) else 'generic', function='DatasetBase.save')
        for kind in ('dataset', 'temporal'):
            tk = dict(n_t=2, t_desc=['list-str', 'arr-f4']) if kind == 'temporal' else {}
            # sweep: typed measurements and extreme units, second round trip
            for n_obs, n_ch in (((4, 3), (1, 1), (7, 5)) if thorough else ((4, 3),)):
                for vals in TYPED_VALS + UNIT_VALS:
                    for target in (('path', 'bytesio', 'file') if thorough else ('path',)):
                        bd.check(orc_dataset, dict(kind=kind, n_obs=n_obs, n_ch=n_ch, vals=vals, desc=['int', 'arr-precise', 'arr-bigint', 'mat'],
                                                   obs_desc=['list-str', 'arr-u8', 'list-bigint', 'list-interleaved'], ch_desc=['arr-precise', 'arr-str'],
                                                   fmt=fmt, target=target, twice=True, **tk),
                                 'typed-data' if vals in TYPED_VALS else 'extreme-units', function='DatasetBase.save')
            # sweep: other spellings of a path; blanks in descriptor names
            tx = dict(n_t=3, t_desc=SAFE_AXIS) if kind == 'temporal' else {}
            for target in TARGETS_X:
                bd.check(orc_dataset, dict(kind=kind, n_obs=4, n_ch=3, vals='naninf', desc=SAFE_DESC, obs_desc=SAFE_AXIS, ch_desc=SAFE_AXIS,
                                           keys='unicode', fmt=fmt, target=target, **tx), 'path-spelling', function='DatasetBase.save')
            bd.check(orc_dataset, dict(kind=kind, n_obs=4, n_ch=3, vals='precise', desc=SAFE_DESC, obs_desc=SAFE_AXIS, ch_desc=SAFE_AXIS,
                                       keys='spaces', fmt=fmt, target='path', twice=True, **tx), 'generic', function='DatasetBase.save')
            # sweep: sizes -- more items than above; no observation / no channel at all
            # (the arr-float palette entry has no length-0 form; an empty 2-D descriptor has no element whose shape could be compared)
            ax0 = [k for k in SAFE_AXIS if k not in ('arr-float', 'arr-2d')]
            for n_obs, n_ch in (((40, 12), (0, 3), (3, 0), (300, 40)) if thorough else ((40, 12), (0, 3), (3, 0))):
                bd.check(orc_dataset, dict(kind=kind, n_obs=n_obs, n_ch=n_ch, vals='precise' if n_obs * n_ch else 'plain', desc=SAFE_DESC,
                                           obs_desc=ax0, ch_desc=ax0, fmt=fmt, target='path', twice=True, **tx),
                         'size-0' if 0 in (n_obs, n_ch) else 'many-items', function='DatasetBase.save')
    bd.done()
    bds.append(bd)

    # ---- every descriptor value type on its own (totality of the HDF5 writer) ---------------------------
    bd = Bounded(run, 'C16/descriptor-values', 'C16/_write_to_group/oracle/descriptor-value-types',
                 'RDMs / Dataset / TemporalDataset carrying exactly ONE descriptor: each of the %d object-level value kinds '
                 '(numbers, NaN/inf, bool, str, unicode str, numpy scalars, int/float/str/bool/1-element/empty arrays, matrix, lists, '
                 'nested / ragged / mixed lists, tuples, None, dict) and each of the %d per-item kinds at lengths 1..3 in every '
                 'descriptor dict; plain, unicode and slash-containing keys; hdf5+pkl; path (+BytesIO for RDMs)'
                 % (len(DESC_KINDS), len(AXIS_KINDS)), exhaustive=True, function='_write_to_group')

    def chk_one(orc, case, sizes):
        one = 1 in sizes.values()
        ic = _case_class(dict(case, _axis_sizes=sizes), 'size-1' if one else 'generic')
        bd.check(orc, case, ic, function='_write_to_group' if case['fmt'] == 'hdf5' else 'write_dict_pkl')
    for fmt in fmts:
        for k in DESC_KINDS:
            for target in ('path', 'bytesio'):
                chk_one(orc_rdms, dict(n_rdm=2, n_cond=3, desc=[k], rdm_desc=[], pat_desc=[], fmt=fmt, target=target), {})
            for kind in ('dataset', 'temporal'):
                c = dict(kind=kind, n_obs=2, n_ch=3, desc=[k], obs_desc=[], ch_desc=[], fmt=fmt, target='path')
                if kind == 'temporal':
                    c.update(n_t=2, t_desc=[])
                chk_one(orc_dataset, c, {})
        for k in AXIS_KINDS:
            for n in ((1, 3) if (k in SWEEP_AXIS and not thorough) else (1, 2, 3)):
                for where in ('rdm_desc', 'pat_desc'):
                    c = dict(n_rdm=n, n_cond=n + 1, desc=[], rdm_desc=[], pat_desc=[], fmt=fmt, target='path')
                    c[where] = [k]
                    chk_one(orc_rdms, c, {'rdm_desc': n, 'pat_desc': n + 1})
                for kind in ('dataset', 'temporal'):
                    for where in (('obs_desc', 'ch_desc', 't_desc') if kind == 'temporal' else ('obs_desc', 'ch_desc')):
                        c = dict(kind=kind, n_obs=n, n_ch=n, desc=[], obs_desc=[], ch_desc=[], fmt=fmt, target='path')
                        if kind == 'temporal':
                            c.update(n_t=n, t_desc=[])
                        c[where] = [k]
                        chk_one(orc_dataset, c, {'obs_desc': n, 'ch_desc': n, 't_desc': n if kind == 'temporal' else 0})
        for keys in ('unicode', 'slash'):
            for k, ax in (('int', 'list-int'), ('str', 'list-str'), ('arr-int', 'arr-str')):
                chk_one(orc_rdms, dict(n_rdm=2, n_cond=3, desc=[k], rdm_desc=[ax], pat_desc=[ax], keys=keys, fmt=fmt, target='path'), {})
                chk_one(orc_dataset, dict(kind='dataset', n_obs=2, n_ch=3, desc=[k], obs_desc=[ax], ch_desc=[ax], keys=keys, fmt=fmt,
                                          target='path'), {})
                chk_one(orc_dataset, dict(kind='temporal', n_obs=2, n_ch=3, n_t=2, desc=[k], obs_desc=[ax], ch_desc=[ax], t_desc=[ax],
                                          keys=keys, fmt=fmt, target='path'), {})
        # sweep: a ragged list with 12 entries (stored item by item under the names '0' .. '11': the alphabetical order of the
        # names, '0', '1', '10', '11', '2', ..., is not the order of the items), lengths not following the position
        for n in ((10, 12, 23) if thorough else (12,)):
            c = dict(n_rdm=n, n_cond=3, desc=[], rdm_desc=['list-ragged3'], pat_desc=[], fmt=fmt, target='path', twice=True)
            chk_one(orc_rdms, c, {'rdm_desc': n})
            for kind in ('dataset', 'temporal'):
                c = dict(kind=kind, n_obs=n, n_ch=2, desc=[], obs_desc=['list-ragged3'], ch_desc=[], fmt=fmt, target='path', twice=True)
                if kind == 'temporal':
                    c.update(n_t=n, t_desc=['list-ragged3'])
                chk_one(orc_dataset, c, {'obs_desc': n})
        if True:   # repaired in /repo ce7a10f3 (was pending triage): range-descriptor
            # a `range` as descriptor value (the constructors keep it as it is): the HDF5 writer neither stores nor rejects it
            for target in ('path', 'bytesio'):
                chk_one(orc_rdms, dict(n_rdm=2, n_cond=3, desc=['range'], rdm_desc=[], pat_desc=[], fmt=fmt, target=target), {})
            chk_one(orc_dataset, dict(kind='dataset', n_obs=2, n_ch=3, desc=['range'], obs_desc=[], ch_desc=[], fmt=fmt, target='path'), {})
            for n in (1, 3):
                for where in ('rdm_desc', 'pat_desc'):
                    c = dict(n_rdm=n, n_cond=n + 1, desc=[], rdm_desc=[], pat_desc=[], fmt=fmt, target='path')
                    c[where] = ['range']
                    chk_one(orc_rdms, c, {'rdm_desc': n, 'pat_desc': n + 1})
                for where in ('obs_desc', 'ch_desc', 't_desc'):
                    c = dict(kind='temporal', n_obs=n, n_ch=n, n_t=n, desc=[], obs_desc=[], ch_desc=[], t_desc=[], fmt=fmt, target='path')
                    c[where] = ['range']
                    chk_one(orc_dataset, c, {'obs_desc': n, 'ch_desc': n, 't_desc': n})
        if True:   # repaired in /repo d88b8ec7 (was pending triage): digit-string-key
            # descriptors NAMED '0', '1', ...: the HDF5 reader takes a group whose names are '0' .. 'n-1' for a stored list
            for k, ax in (('int', 'list-int'), ('str', 'list-str')):
                chk_one(orc_rdms, dict(n_rdm=2, n_cond=3, desc=[k], rdm_desc=[ax], pat_desc=[ax], keys='digit', fmt=fmt, target='path'), {})
                chk_one(orc_dataset, dict(kind='dataset', n_obs=2, n_ch=3, desc=[k], obs_desc=[ax], ch_desc=[ax], keys='digit', fmt=fmt,
                                          target='path'), {})
            chk_one(orc_dataset, dict(kind='dataset', n_obs=2, n_ch=3, desc=[], obs_desc=['list-int', 'list-str'], ch_desc=[], keys='digit',
                                      fmt=fmt, target='path'), {})
            chk_one(orc_rdms, dict(n_rdm=2, n_cond=3, desc=['dict'], rdm_desc=[], pat_desc=[], keys='digit', fmt=fmt, target='path'), {})
            chk_one(orc_rdms, dict(n_rdm=2, n_cond=3, desc=['dict-digit'], rdm_desc=[], pat_desc=[], fmt=fmt, target='path'), {})
            chk_one(orc_dataset, dict(kind='dataset', n_obs=2, n_ch=3, desc=['dict-digit'], obs_desc=[], ch_desc=[], fmt=fmt, target='path'), {})
    bd.done()
    bds.append(bd)

    # ---- models --------------------------------------------------------------------------------------
    bd = Bounded(run, 'C16/model', 'C16/Model.to_dict-model_from_dict/oracle/roundtrip',
                 'each of the 5 model classes (ModelFixed from 1 RDM / 3 RDMs / a vector), n_cond in {3,5}, ascii / unicode / '
                 'empty-looking names; hdf5+pkl; path, file handle, BytesIO', exhaustive=False, function='model_from_dict')
    for fmt in fmts:
        for mkind in MODEL_KINDS:
            for n_cond in (3, 5):
                for name in ('layer7', USTR, 'a b/c'):
                    for target in (('path', 'file', 'bytesio') if (thorough or name == 'layer7') else ('path',)):
                        bd.check(orc_model, dict(mkind=mkind, n_cond=n_cond, name=name, fmt=fmt, target=target, i=2),
                                 'generic', function='model_from_dict')
            if mkind == 'base':
                continue
            # sweep: model RDMs in full precision / extreme units / other dtypes (predictions identical), second round trip
            for vals in (UNIT_VALS + ['f4', 'int', 'u1', 'i2', 'f2'] if (thorough or mkind in ('fixed', 'weighted', 'fixed-vector'))
                         else ['precise', 'tiny']):
                if mkind == 'fixed-vector' and vals in ('int', 'u1', 'i2'):
                    # ModelFixed keeps an integer VECTOR as it is but predicts the float mean of the stored RDM after loading: equal
                    # values of another dtype -- "the same predictions" does not promise the dtype
                    continue
                bd.check(orc_model, dict(mkind=mkind, n_cond=4, name='layer7', vals=vals, fmt=fmt, target='path', i=1, twice=True),
                         'extreme-units' if vals in UNIT_VALS else 'typed-data', function='model_from_dict')
        for target in TARGETS_X:
            bd.check(orc_model, dict(mkind='select', n_cond=4, name=USTR, vals='precise', fmt=fmt, target=target, i=1), 'path-spelling',
                     function='model_from_dict')
    bd.done()
    bds.append(bd)

    # ---- Result --------------------------------------------------------------------------------------
    counts = (1, 2, 3, 10, 11, 12, 21) + ((101, 112) if thorough else ())
    bd = Bounded(run, 'C16/result', 'C16/Result.save-load_results/oracle/roundtrip',
                 'Result with n_model in %s, mixed model classes; variances None/0-d/1-d/2-d/3-d with and without noise-ceiling '
                 'rows; evaluations 2-D..4-D incl. NaN rows; dof, n_rdm, n_pattern None/int; noise ceiling (2,) / (2,n_boot); '
                 '5 cv_method strings; hdf5+pkl; path, file handle, BytesIO, overwrite on fresh path; get_means/sem/ci, '
                 'test_* (t-test, bootstrap, ranksum) and summary() outputs compared' % (counts,), function='result_from_dict')
    mixes = (['fixed'], ['fixed', 'weighted', 'select', 'interpolate', 'base', 'fixed-multi', 'fixed-vector'])
    for fmt in fmts:
        for n_model in counts:
            for mix in mixes:
                for target in (('path', 'file', 'bytesio', 'path-overwrite-fresh') if ((thorough and n_model < 100) or n_model in (2, 12))
                               else ('path', 'bytesio') if thorough else ('path',)):
                    bd.check(orc_result, dict(n_model=n_model, model_kinds=mix, variances='2d-nc', n_rdm=8, n_pattern=4,
                                              fmt=fmt, target=target, seed=n_model), 'generic', function='result_from_dict')
        for n_model in (1, 2, 4, 12):
            for vk in ('none', '0d', '1d', '1d-nc', '2d', '2d-nc', '3d', '3d-nc'):
                if vk == '0d' and n_model != 1:
                    continue
                for nrp in (((None, None), (8, 4), (8, None)) if thorough else ((None, None), (8, 4))):
                    for cvm, nd, nc in (('bootstrap_rdm', 3, '1d'), ('fixed', 3, '1d'), ('crossvalidation', 3, '1d'),
                                        ('bootstrap_crossval', 4, '2d'), ('bootstrap_pattern', 2, '2d')):
                        if not thorough and (n_model, cvm) not in ((1, 'bootstrap_rdm'), (2, 'fixed'), (4, 'bootstrap_crossval'),
                                                                   (12, 'bootstrap_rdm'), (4, 'crossvalidation'), (2, 'bootstrap_pattern')):
                            continue
                        bd.check(orc_result, dict(n_model=n_model, model_kinds=mixes[1], variances=vk, n_rdm=nrp[0], n_pattern=nrp[1],
                                                  cv_method=cvm, eval_ndim=nd, nc=nc, eval_nan=(cvm == 'bootstrap_crossval'),
                                                  dof=5, method=USTR if cvm == 'fixed' else 'cosine', names=['über', 'm'],
                                                  fmt=fmt, target='path', seed=3), 'generic', function='result_from_dict')
        # sweep: evaluations / variances / noise ceiling in extreme units and as float32, model RDMs in full precision, all models
        # carrying the same name, other spellings of a path, second round trip
        for n_model in ((2, 12, 21) if thorough else (2, 12)):
            for extra, ic in ((dict(unit=1e-26), 'extreme-units'), (dict(unit=1e12), 'extreme-units'),
                              (dict(ev_dtype='float32'), 'typed-data'), (dict(names_dup=True, model_vals='precise'), 'repeated-names'),
                              (dict(model_vals='tiny', unit=1e-13), 'extreme-units')):
                if not thorough and n_model == 12 and ic != 'typed-data' and extra.get('unit') != 1e-26:
                    continue
                for vk, cvm, nd, nc in ((('2d-nc', 'bootstrap_rdm', 3, '1d'), ('3d-nc', 'bootstrap_crossval', 4, '2d'), ('1d', 'fixed', 3, '1d'))
                                        if thorough else (('2d-nc', 'bootstrap_rdm', 3, '1d'),)):
                    bd.check(orc_result, dict(n_model=n_model, model_kinds=mixes[1], variances=vk, n_rdm=8, n_pattern=4, cv_method=cvm,
                                              eval_ndim=nd, nc=nc, fmt=fmt, target='path', seed=n_model, twice=True, **extra), ic,
                             function='result_from_dict')
        for target in TARGETS_X:
            bd.check(orc_result, dict(n_model=3, model_kinds=mixes[1], variances='2d-nc', n_rdm=8, n_pattern=4, fmt=fmt, target=target,
                                      seed=4, names=['über', 'm']), 'path-spelling', function='result_from_dict')
        # Results as the evaluation routines themselves produce them
        for k, via in enumerate(('eval_fixed', 'eval_bootstrap', 'eval_bootstrap_rdm', 'eval_bootstrap_rdm,grouped', 'eval_bootstrap_pattern',
                                 'bootstrap_crossval')):
            for method in (('corr', 'cosine') if thorough else ('corr',)):
                bd.check(orc_result, dict(via=via, n_model=2 + k % 2, method=method, fmt=fmt, target=('path', 'bytesio')[k % 2], seed=k,
                                          twice=True), 'result-of-' + via.split(',')[0], function='result_from_dict')
    bd.done()
    bds.append(bd)

    # ---- histories -----------------------------------------------------------------------------------
    maxlen = 3 if thorough else 2
    n_rand = 120 if thorough else 25
    bd = Bounded(run, 'C16/history', 'C16/save-load/oracle/after-structural-operations',
                 'RDMs (4x5, NaN/inf, str/array descriptors), Dataset (8x3), TemporalDataset (8x3x4): every sequence of <= %d of the '
                 '%d/%d/%d C10/C11 operations (one seeded argument choice each) and %d seeded sequences of length 4 per kind; '
                 'hdf5+pkl by path, BytesIO for length-4' % (maxlen, len(RDM_OPS), len(DS_OPS), len(TD_OPS), n_rand),
                 exhaustive=False, function='save')
    for kind, ops in (('rdms', RDM_OPS), ('dataset', DS_OPS), ('temporal', TD_OPS)):
        for L in range(0, maxlen + 1):
            for seq in itertools.product(ops, repeat=L):
                for fmt in fmts:
                    bd.check(orc_history, dict(kind=kind, ops=list(seq), seed=L, fmt=fmt, target='path'), 'generic',
                             function={'rdms': 'RDMs.save'}.get(kind, 'DatasetBase.save'))
        rs = np.random.RandomState(16)
        for i in range(n_rand):
            seq = [ops[j] for j in rs.randint(len(ops), size=4)]
            bd.check(orc_history, dict(kind=kind, ops=seq, seed=100 + i, fmt=fmts[i % 2], target=('path', 'bytesio')[(i // 2) % 2]),
                     'generic', function={'rdms': 'RDMs.save'}.get(kind, 'DatasetBase.save'))
    bd.done()
    bds.append(bd)

    # ---- overwrite -----------------------------------------------------------------------------------
    bd = Bounded(run, 'C16/overwrite', 'C16/save/oracle/existing-file-guard-and-overwrite',
                 '4 object kinds x {hdf5, pkl} x {str path, open r+b handle}: old larger object then new smaller object; refusal '
                 '(hdf5 path), overwrite, second overwrite', exhaustive=True, function='write_dict_hdf5')
    for kind in ('rdms', 'dataset', 'temporal', 'result'):
        for fmt in fmts:
            for target in ('path', 'file'):
                bd.check(orc_overwrite, dict(kind=kind, fmt=fmt, target=target), 'generic',
                         function='remove_file' if target == 'file' else 'write_dict_hdf5')
                # sweep: what the existing file holds
                for old in (('smaller', 'same', 'empty-file', 'garbage', 'other-format') if (thorough or kind == 'rdms')
                            else ('empty-file', 'other-format') if kind == 'temporal' else ('smaller',)):
                    bd.check(orc_overwrite, dict(kind=kind, fmt=fmt, target=target, old=old), 'existing-file-' + old,
                             function='remove_file' if target == 'file' else 'write_dict_hdf5')
                if target == 'path' and fmt == 'hdf5':
                    bd.check(orc_overwrite, dict(kind=kind, fmt=fmt, target=target, path_as='pathlib'), 'existing-path-as-pathlib',
                             function='write_dict_hdf5')
                if target == 'file':
                    # the handle is positioned at the END of the existing file (as after reading it through this handle)
                    for old in (('larger', 'smaller') if thorough or kind == 'rdms' else ('larger',)):
                        bd.check(orc_overwrite, dict(kind=kind, fmt=fmt, target=target, old=old, handle_pos='end'),
                                 'handle-positioned-at-end', function='remove_file')
    bd.done()
    bds.append(bd)

    # ---- call sequences ------------------------------------------------------------------------------
    bd = Bounded(run, 'C16/sequence', 'C16/save-load/oracle/call-sequences',
                 '5 object kinds x {hdf5, pkl} x {str path, BytesIO; thorough: + file handle}: two twins of equal shape / keys / types '
                 'and other content saved one after the other and loaded afterwards; second save / second load; a loaded object held by the '
                 'caller while the library is used again; the caller changing a loaded object or the saved original in place, then loading '
                 'again; loaded object saved and loaded again (expected values: twins built from the case, never given to the library)',
                 exhaustive=False, function='save')
    for kind in ('rdms', 'dataset', 'temporal', 'result', 'model'):
        for fmt in fmts:
            for target in (('path', 'bytesio', 'file') if thorough else ('path', 'bytesio')):
                bd.check(orc_sequence, dict(kind=kind, fmt=fmt, target=target), 'call-sequence',
                         function={'rdms': 'RDMs.save', 'result': 'Result.save', 'model': 'model_from_dict'}.get(kind, 'DatasetBase.save'))
    bd.done()
    bds.append(bd)

    # ---- environment ---------------------------------------------------------------------------------
    seeds = (1, 2, 12345, 4294967295) if thorough else (1,)
    bd = Bounded(run, 'C16/interpreter', 'C16/save-load/oracle/other-interpreter',
                 'RDMs / Dataset / TemporalDataset (all harmless descriptor kinds, unicode keys) / Result (12 mixed models) / one model, '
                 'hdf5+pkl: written here and read in a new interpreter started with PYTHONHASHSEED = %s (this one runs with 0), written '
                 'there and read here' % ', '.join(map(str, seeds)), exhaustive=False, function='load_*')
    for hs in seeds:
        bd.check(orc_interpreter, dict(hashseed=hs), 'other-hash-seed', function='load_*')
    bd.done()
    bds.append(bd)

    # ---- dispatch ------------------------------------------------------------------------------------
    bd = Bounded(run, 'C16/dispatch', 'C16/load/oracle/file-type-dispatch',
                 '4 object kinds x saved format {hdf5, pkl} x suffix {.h5, .hdf5, .pkl, .dat, none} x file_type {None, hdf5, pkl}',
                 exhaustive=True, function='load_*')
    for kind in ('rdms', 'dataset', 'temporal', 'result'):
        for fmt in fmts:
            for suffix in ('.h5', '.hdf5', '.pkl', '.dat', ''):
                for given in (None, 'hdf5', 'pkl'):
                    bd.check(orc_dispatch, dict(kind=kind, fmt=fmt, suffix=suffix, file_type=given), 'generic',
                             function={'rdms': 'load_rdm', 'result': 'load_results'}.get(kind, 'load_dataset'))
    bd.done()
    bds.append(bd)
    return bds


def replay(path):
    from vf.rt.harness import replay_file
    return replay_file(path)
