"""C15 -- unbalanced (compiled) estimator matches the balanced one, skips missing channels."""
import ast
import os
import re

import z3

from vf.report import SRC
from contracts._wrap import z3_lemma, finish, replay  # noqa

LEVEL = 'other'
PYX = os.path.join(SRC, 'rsatoolbox', 'cengine', 'similarity.pyx')
CFILE = os.path.join(SRC, 'rsatoolbox', 'cengine', 'similarity.c')


# ---- engine X (light): mechanical extraction of the index arithmetic of the Cython kernel ----------------------
class CInt:
    """translate a Python-syntax C integer expression into z3 Int terms; `/` is C integer division, which equals floor
    division when both operands are non-negative (the non-negativity of every dividend is collected as an obligation)"""
    def __init__(self, env):
        self.env = env
        self.nonneg = []

    def tr(self, e):
        if isinstance(e, ast.BinOp):
            a, b = self.tr(e.left), self.tr(e.right)
            if isinstance(e.op, ast.Add):
                return a + b
            if isinstance(e.op, ast.Sub):
                return a - b
            if isinstance(e.op, ast.Mult):
                return a * b
            if isinstance(e.op, (ast.Div, ast.FloorDiv)):
                self.nonneg.append((a, b))
                return a / b
            raise ValueError(ast.dump(e.op))
        if isinstance(e, ast.Constant) and isinstance(e.value, int):
            return z3.IntVal(e.value)
        if isinstance(e, ast.Name):
            return self.env[e.id]
        if isinstance(e, ast.Subscript):
            return self.env[ast.unparse(e)]
        raise ValueError(ast.dump(e))


def extract_kernel_text():
    """lines of `calc` in similarity.pyx that assign idx / n_rdm / allocate the accumulators (read on every run)"""
    src = open(PYX).read().split('\n')
    start = next(k for k, l in enumerate(src) if re.match(r'\s*cpdef .*\bcalc\(', l))
    end = next(k for k in range(start + 1, len(src)) if re.match(r'\s*(cpdef|cdef|def) ', src[k]) and not src[k].startswith(' ' * 4))
    body = src[start:end]
    out = dict(idx=[], n_rdm=None, alloc=[], self_weight=[])
    for k, l in enumerate(body):
        s = l.strip()
        m = re.match(r'idx = (.+)$', s)
        if m:
            guard = [body[j].strip() for j in range(k - 1, max(k - 4, 0), -1)][0]
            out['idx'].append((start + k + 1, m.group(1), guard))
        m = re.match(r'int n_rdm = (.+)$', s)
        if m:
            out['n_rdm'] = (start + k + 1, m.group(1))
        m = re.search(r'PyMem_Malloc\(\((.+?)\) \* sizeof', s)
        if m:
            out['alloc'].append((start + k + 1, m.group(1)))
        m = re.match(r'weights\[idx\] \+= (1 / 2)$', s)
        if m:
            out['self_weight'].append((start + k + 1, m.group(1)))
    return out


def engine_x(run):
    fails = []
    k = extract_kernel_text()
    run.function('rsatoolbox/cengine/similarity.pyx::calc (index arithmetic, extracted text)')
    n, di, dj = z3.Ints('n desc_i desc_j')
    env = {'n': n, 'desc[i]': di, 'desc[j]': dj}
    if k['n_rdm'] is None or len(k['idx']) < 3 or not k['alloc']:
        run.undecide('C15/calc/X/extraction', f'kernel text not recognised: {k}')
        return fails
    t = CInt(env)
    n_rdm = t.tr(ast.parse(k['n_rdm'][1], mode='eval').body)
    env['n_rdm'] = n_rdm
    size = CInt(env).tr(ast.parse(k['alloc'][0][1], mode='eval').body)
    # parity lemma (proved first, then used as a fact): k(k+1) is even, so (k(k+1))/2 is exact
    kk, mm = z3.Ints('k m')
    fails.append(z3_lemma(run, 'C15/lemma/consecutive-product-is-even',
                          z3.Implies(z3.And(kk >= 0, z3.Or(kk == 2 * mm, kk == 2 * mm + 1)), (kk * (kk + 1)) == 2 * ((kk * (kk + 1)) / 2)),
                          doc='k = 2m or k = 2m+1  =>  k(k+1) = 2 * floor(k(k+1)/2)'))
    even = lambda v: v * (v + 1) == 2 * ((v * (v + 1)) / 2)
    pre = z3.And(n >= 1, 0 <= di, di < n, 0 <= dj, dj < n, n <= 2 ** 15,        # desc in [0, n): established by the Python caller (K8)
                 even(di), even(dj), (n * (n - 1)) == 2 * ((n * (n - 1)) / 2), ((di + 1) * di) == 2 * (((di + 1) * di) / 2),
                 ((dj + 1) * dj) == 2 * (((dj + 1) * dj) / 2))
    tri = lambda a, b: n * a - (a * (a + 1)) / 2 + (b - a - 1)
    for line, expr, guard in k['idx']:
        tt = CInt(env)
        z = tt.tr(ast.parse(expr, mode='eval').body)
        if 'desc[j] > desc[i]' in guard:
            cond, lo, hi = dj > di, di, dj
        elif guard.startswith('else'):
            cond, lo, hi = dj < di, dj, di
        elif 'desc[i] == desc[j]' in guard:
            cond, lo, hi = di == dj, None, None
        elif expr.strip() == 'desc[i]':
            cond, lo, hi = z3.BoolVal(True), None, None
        else:
            run.undecide(f'C15/calc/X/guard-line-{line}', f'guard not recognised: {guard!r}')
            continue
        nm = f'C15/calc/X/line-{line}'
        fails.append(z3_lemma(run, nm + '/index-in-bounds', z3.Implies(z3.And(pre, cond), z3.And(z >= 0, z < size)),
                              doc=f'pyx line {line}: idx = {expr}  under [{guard}] stays inside the malloc\'ed accumulators of {k["alloc"][0][1]} elements'))
        for (a, b) in tt.nonneg:
            fails.append(z3_lemma(run, nm + '/c-division-operands-non-negative', z3.Implies(z3.And(pre, cond), z3.And(a >= 0, b > 0)),
                                  doc='C integer division equals floor division only for non-negative operands'))
        if lo is not None:
            fails.append(z3_lemma(run, nm + '/index-is-n-plus-condensed-index', z3.Implies(z3.And(pre, cond), z == n + tri(lo, hi)),
                                  doc='cross-condition pairs are accumulated at n + tri(n, min, max): the scipy squareform order used by the Python side'))
        else:
            fails.append(z3_lemma(run, nm + '/same-condition-index-below-n', z3.Implies(z3.And(pre, cond), z3.And(z == di, z < n))))
    # the accumulators hold n self terms followed by n(n-1)/2 cross terms
    fails.append(z3_lemma(run, 'C15/calc/X/accumulator-size', z3.Implies(z3.And(n >= 1, (n * (n - 1)) == 2 * ((n * (n - 1)) / 2)), z3.And(size == n + n_rdm, 2 * n_rdm == n * (n - 1))),
                          doc='n_rdm = n(n-1)/2 exactly (n(n-1) is even)'))
    # self pairs are meant to enter with half weight: `1 / 2` on C integers is 0
    for line, expr in k['self_weight']:
        half = CInt({}).tr(ast.parse(expr, mode='eval').body)
        r = z3_lemma(run, 'C15/calc/X/self-pair-weight-is-one-half', 2 * half == 1,
                     doc=f'pyx line {line}: weights[idx] += {expr}  -- with C integer operands this adds 0, not 1/2')
        if r:
            fails.append(r)
    return fails


def pyx_c_consistency(run):
    """the C file that is compiled was generated from the text that is verified: every pyx source line echoed in
    similarity.c (`# <<<<<<` markers) equals the current pyx line of that number"""
    if not os.path.exists(CFILE):
        run.notes.append('similarity.c not present: pyx <-> c consistency not checked')
        return []
    pyx = open(PYX).read().split('\n')
    txt = open(CFILE, errors='replace').read().split('\n')
    bad = []
    n = 0
    for k, l in enumerate(txt):
        m = re.search(r'similarity\.pyx":(\d+)\s*$', l)
        if not m:
            continue
        ln = int(m.group(1))
        for j in range(k + 1, min(k + 8, len(txt))):
            if '# <<<<<<<<<<<<<<' in txt[j]:
                echoed = txt[j].split('# <<<<<<<<<<<<<<')[0].lstrip(' *').rstrip()
                n += 1
                if ln - 1 < len(pyx) and pyx[ln - 1].strip() != echoed.strip():
                    bad.append((ln, echoed.strip()[:80], pyx[ln - 1].strip()[:80]))
                break
    run.obligation('C15/similarity/X/pyx-lines-match-the-generated-c', 'proved' if n > 0 and not bad else ('refuted' if bad else 'unknown'),
                   'text-comparison', 0.0, detail=f'{n} echoed source lines compared; mismatches: {bad[:3]}')
    run.trust('Cython -> C translation, reference counting, GIL, memoryview strides and the BLAS call are NOT verified; the installed .so is '
              'assumed to be built from similarity.c')
    return [('C15/similarity/X/pyx-lines-match-the-generated-c', 'X', dict(mismatches=bad[:10]))] if bad else []


def run(run):
    fails = [f for f in engine_x(run) if f]
    fails += pyx_c_consistency(run)
    finish(run, fails, 'C15')
    run.explanation = ('engine X (light): the index arithmetic of the Cython kernel is extracted mechanically from the current .pyx text and '
                       'proved in z3 (bounds = memory safety of the accumulators, equality with the condensed order, C-division side '
                       'conditions); pyx <-> c text consistency; all numerical clauses by the bounded tier on the installed binary')
