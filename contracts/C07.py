"""C07 -- upper noise ceiling is unbeatable; lower is leave-one-out and not above it."""
import os
import subprocess

import z3

from vf.pyvc.values import V, SV, Obj, SeqV, CaseV, ArrV, DictV, Undecided, fresh_name
from vf.pyvc.api import FuncCheck
from vf.pyvc.core import Contract
from vf.rt.harness import replay_file
from vf.report import ROOT
from contracts.common import new_engine, finish_engine, report_a_failures
from contracts.C04 import call_repo, sym_sets, peel

LEVEL = 'other'
NC = 'rsatoolbox.inference.noise_ceiling.'
CV = 'rsatoolbox.inference.crossvalsets.'


def pool(E, rdms, method):
    return E.app('rsatoolbox.util.inference_util.pool_rdm', [rdms, method], 'obj', cls='RDMs')


def cmp_mean(E, pred, data, method):
    return E.lib['numpy.mean'](E, call_repo(E, 'rsatoolbox.rdm.compare.compare', pred, data, method))


def mean_of_array(E, seq):
    return E.lib['numpy.mean'](E, E.lib['numpy.array'](E, seq))


def check_boot(run, E, pid='C07'):
    """boot_noise_ceiling: fold i compares group i's RDMs with pool(all OTHER groups) (lower) and pool(all) (upper);
    both bounds are plain means over the folds.  The leave-one-out sets come from sets_leave_one_out_rdm (C05 contract)."""
    ck = FuncCheck(E, run, pid, NC + 'boot_noise_ceiling', '')
    holder = {}

    def loo_define(E, rdms, rdm_descriptor='index'):
        # contract of sets_leave_one_out_rdm proved under C05 (>= 2 groups): fold i tests group g_i, trains on the others
        G = E.lib['numpy.unique'](E, E.getitem(E.getattr(rdms, 'rdm_descriptors'), rdm_descriptor))
        n = G.zlen()
        holder['G'], holder['rdms'], holder['rd'] = G, rdms, rdm_descriptor
        sub = E.methods[('RDMs', 'subset')]

        def others(i):
            g = E.seq_elem(G, i)
            return SeqV(length=n - 1, elem=None, mem=lambda y: z3.And(E.seq_mem(G, y), y != E.toV(g)), kind='array',
                        esort='val', canon=True)
        train = SeqV(length=n, elem=lambda i: (sub(E, rdms, rdm_descriptor, others(i)), None), kind='list')
        test = SeqV(length=n, elem=lambda i: (sub(E, rdms, rdm_descriptor, SeqV(items=[E.seq_elem(G, i)], kind='list')), None), kind='list')
        return train, test, train
    E.contracts[CV + 'sets_leave_one_out_rdm'] = Contract(CV + 'sets_leave_one_out_rdm', define=loo_define,
                                                          doc='C05 contract (proved there for >= 2 groups)')

    def mk(E):
        return [E.sym_obj('rdms', 'RDMs')], dict(method=E.sym_val('method', tag='scalar'),
                                                 rdm_descriptor=E.sym_val('rd', tag='scalar')), []

    def post(ck, E, args, kw, p):
        rdms, method = args[0], kw['method']
        lo, hi = p.value
        G = holder['G']
        n = G.zlen()
        for name, val, full in (('lower', lo, False), ('upper', hi, True)):
            a1 = peel(val, 'numpy.mean')
            a2 = peel(a1[0], 'numpy.array') if a1 else None
            lst = a2[0] if a2 else (a1[0] if a1 and isinstance(a1[0], SeqV) else None)
            ok = isinstance(lst, SeqV)
            ck.ensure(f'post/{name}-is-plain-mean-over-folds', z3.BoolVal(ok))
            if not ok:
                continue
            ck.ensure(f'post/{name}-one-term-per-group', lst.zlen() == n)
            i = z3.Int(fresh_name('g'))
            E.pc.append(z3.And(i >= 0, i < n))
            p.pc = list(E.pc)
            sub = E.methods[('RDMs', 'subset')]
            g = E.seq_elem(G, i)
            test_i = sub(E, rdms, kw['rdm_descriptor'], SeqV(items=[g], kind='list'))
            if full:
                pred = pool(E, rdms, method)
            else:
                others = SeqV(length=n - 1, mem=lambda y: z3.And(E.seq_mem(G, y), y != E.toV(g)), kind='array', esort='val', canon=True)
                pred = pool(E, sub(E, rdms, kw['rdm_descriptor'], others), method)
            ck.ensure_eq(f'post/{name}-term-{"pools-all" if full else "pools-the-other-groups-only"}',
                         E.seq_elem(lst, i), cmp_mean(E, pred, test_i, method))
    ck.execute(mk, post=post, allow_raise=lambda *a: None)
    del E.contracts[CV + 'sets_leave_one_out_rdm']
    yield ck


def check_cv(run, E, pid='C07'):
    """cv_noise_ceiling: lower = pool(ceil_set[f] RDMs) at the test conditions vs test data; upper = pool(all) likewise"""
    ck = FuncCheck(E, run, pid, NC + 'cv_noise_ceiling', '')

    def mk(E):
        ceil, test = sym_sets(E, 'ceil_set'), sym_sets(E, 'test_set')
        return [E.sym_obj('rdms', 'RDMs'), ceil, test], dict(method=E.sym_val('method', tag='scalar'),
                                                             pattern_descriptor=E.sym_val('pd', tag='scalar')), \
            [ceil.zlen() == test.zlen()]

    def post(ck, E, args, kw, p):
        rdms, ceil, test = args
        method, pd = kw['method'], kw['pattern_descriptor']
        n = test.zlen()
        lo, hi = p.value
        ssp = E.methods[('RDMs', 'subsample_pattern')]
        for name, val in (('lower', lo), ('upper', hi)):
            a1 = peel(val, 'numpy.mean')
            a2 = peel(a1[0], 'numpy.array') if a1 else None
            lst = a2[0] if a2 else (a1[0] if a1 and isinstance(a1[0], SeqV) else None)
            ok = isinstance(lst, SeqV)
            ck.ensure(f'post/{name}-is-plain-mean-over-folds', z3.BoolVal(ok))
            if not ok:
                continue
            ck.ensure(f'post/{name}-one-term-per-fold', lst.zlen() == n)
            f = z3.Int(fresh_name('f'))
            E.pc.append(z3.And(f >= 0, f < n))
            p.pc = list(E.pc)
            te, ce = E.seq_elem(test, f), E.seq_elem(ceil, f)
            src = ce.items[0] if name == 'lower' else rdms
            pred = ssp(E, pool(E, src, method), pd, te.items[1])
            ck.ensure_eq(f'post/{name}-term-is-pooled-{"training" if name == "lower" else "all"}-rdms-at-test-conditions',
                         E.seq_elem(lst, f), cmp_mean(E, pred, te.items[0], method))
    ck.execute(mk, post=post, allow_raise=lambda E, a, k, p: z3.BoolVal(False) if p.exc.exc_name == 'AssertionError' else None)
    yield ck


def check_rank_pooling(run, E):
    """_nan_rank_data: tie-averaged ranks (scipy rankdata, default 'average') of the NON-missing entries, NaN elsewhere"""
    IU = 'rsatoolbox.util.inference_util.'
    ck = FuncCheck(E, run, 'C07', IU + '_nan_rank_data', '')

    def mk(E):
        return [E.sym_val('v', tag='ndarray')], {}, []

    def post(ck, E, args, kw, p):
        v = args[0]
        present = E.app('invert', [E.app('numpy.isnan', [v])])
        ranks = E.app('scipy.stats.rankdata', [E.getitem(v, present)])
        a = peel(p.value, 'setitem')
        ck.ensure('post/ranks-written-into-a-nan-vector', z3.BoolVal(a is not None), structure=True)
        if a is None:
            return
        ck.ensure_eq('post/placed-at-the-non-missing-positions', a[1], present)
        ck.ensure_eq('post/values-are-tie-averaged-ranks-of-the-non-missing-entries', a[2], ranks)
        base = peel(a[0], 'op*')
        ck.ensure('post/missing-entries-stay-nan', z3.BoolVal(base is not None and isinstance(base[1], float) and base[1] != base[1]))
    ck.execute(mk, post=post, allow_raise=lambda *a: None)
    yield ck


def lean_lemmas(run):
    """Lean 4 + Mathlib lemmas over the pooling contract (compiled by setup.sh; re-checked here)"""
    src = os.path.join(ROOT, 'vf', 'lemmas', 'PooledOptimal.lean')
    okf = os.path.join(ROOT, '.lean_out', 'PooledOptimal.ok')
    if not os.path.exists(src):
        run.notes.append('Lean lemma PooledOptimal.lean not present')
        return
    import time
    t0 = time.time()
    if not os.path.exists(okf) or os.path.getmtime(okf) < os.path.getmtime(src) or run.tier == 'thorough':
        r = subprocess.run(['lake', 'env', 'lean', src], cwd='/opt/veriftools/mathlib4', capture_output=True, text=True, timeout=900)
        ok = r.returncode == 0 and 'error' not in r.stdout and 'sorry' not in r.stdout
        detail = (r.stdout + r.stderr)[-400:]
        if ok:
            os.makedirs(os.path.dirname(okf), exist_ok=True)
            open(okf, 'w').write('ok')
    else:
        ok, detail = True, 'compiled by setup.sh (olean check cached)'
    txt = open(src).read()
    if 'sorry' in txt or 'axiom ' in txt:
        ok, detail = False, 'lemma file contains sorry/axiom'
    for name in ('pooled_optimal', 'cos_scale_invariant'):
        if f'theorem {name}' in txt:
            run.obligation(f'C07/lemma/{name}', 'proved' if ok else 'unknown', 'lean4+mathlib', time.time() - t0, detail=detail)
    run.trust('Lean 4.33 kernel + Mathlib (narrow imports) for the analysis lemmas; lemmas are stated over the pooling contract '
              '(pooled = mean of normalised vectors), not over code')


def tier_b(run, thorough):
    """engine B: the real pool_rdm functions (util.pooling and util.inference_util) on symbolic dissimilarities, with and without
    a commonly missing entry: for ALL real values the pooled RDM is the mean of the data vectors ('euclid') resp. the mean of
    the vectors normalised to unit root-mean-square over their available entries ('cosine') -- the POOLING CONTRACT over which
    the Lean lemmas pooled_optimal / cos_scale_invariant are stated -- and NaN exactly at the missing entry"""
    import numpy as np
    import sympy as sp
    from vf.symrun.core import symarray, patched_np, identical, OVERRIDES_USED, guard
    from rsatoolbox.rdm import RDMs
    import rsatoolbox.util.pooling as pl
    import rsatoolbox.util.inference_util as iu
    fails = []
    n_eval = 0
    shapes = [(2, 3, 3), (3, 3, 3), (2, 6, 4)] + ([(4, 6, 4), (3, 10, 5)] if thorough else [])
    mods = ['rsatoolbox.util.pooling', 'rsatoolbox.util.inference_util', 'rsatoolbox.rdm.rdms', 'rsatoolbox.util.rdm_utils',
            'rsatoolbox.util.descriptor_utils']
    for (R, P, nc) in shapes:
        X = symarray('x', (R, P))
        for miss in (None, 1):
            D = X.copy()
            avail = [k for k in range(P) if k != miss]
            if miss is not None:
                D[:, miss] = float('nan')
            for mod, mname in ((pl, 'util.pooling.pool_rdm'), (iu, 'inference_util.pool_rdm')):
                for method in ('euclid', 'cosine'):
                    nm = f'C07/{mname}/B/pooling-contract[{method},{R}x{P},missing={miss}]'
                    with guard(run, nm):
                        rd = RDMs.__new__(RDMs)
                        rd.dissimilarities = D.copy()
                        rd.n_rdm, rd.n_cond = R, nc
                        rd.descriptors, rd.dissimilarity_measure = {}, 'x'
                        rd.rdm_descriptors = {'index': list(range(R))}
                        rd.pattern_descriptors = {'index': list(range(nc))}
                        with patched_np(mods):
                            out = mod.pool_rdm(rd, method=method)
                        got = np.asarray(out.dissimilarities)[0]
                        if method == 'euclid':
                            want = [sum(X[r, j] for r in range(R)) / R for j in range(P)]
                        else:
                            want = [sum(X[r, j] / sp.sqrt(sum(X[r, k] ** 2 for k in avail) / len(avail)) for r in range(R)) / R
                                    for j in range(P)]
                        want = np.array([float('nan') if j == miss else w for j, w in enumerate(want)], dtype=object)
                        ok, idx, diff = identical(got, want)
                        n_eval += 1
                        run.obligation(nm, 'proved' if ok else 'refuted', 'sympy-normal-form', 0.0,
                                       detail='pooled RDM == mean of the (RMS-normalised) vectors over the available entries, NaN where '
                                              'missing' if ok else f'differs at {idx}: {str(diff)[:200]}')
                        if not ok:
                            fails.append((nm, 'post', dict(shape=[R, P], method=method, missing=miss, index=str(idx),
                                                           difference=str(diff)[:300])))
    for o in sorted(OVERRIDES_USED):
        run.trust('engine B proxy override: ' + o)
    run.bounded_check('C07/B/pooling-contract', 'B', 'all real dissimilarities; stacks %s (RDMs x entries x conditions), complete and '
                      'with one commonly missing entry; methods euclid, cosine; both pool_rdm implementations' % shapes,
                      n_eval, n_eval, exhaustive=False, failures=len(fails))
    return fails


def run(run):
    E = new_engine(run)
    fails = []
    for gen in (check_boot, check_cv, check_rank_pooling):
        for ck in gen(run, E):
            fails += ck.failed
    finish_engine(E, run)
    # callee contract: boot_noise_ceiling's folds come from sets_leave_one_out_rdm (contract generated by C05, discharged here too)
    from contracts import C05
    E5 = new_engine(run)
    for ck in C05.check_leave_one_out(run, E5, pid='C07'):
        fails += ck.failed
    finish_engine(E5, run)
    # callee contract: ceilings of a bootstrap resample group the copies of an RDM by their (gathered) descriptors -- RDMs.subsample
    # hands every descriptor of the drawn RDMs on unchanged (contract generated by C09, discharged here too)
    from contracts import C09
    E9 = new_engine(run)
    for ck in C09.check_subsample(run, E9, pid='C07'):
        fails += ck.failed
    finish_engine(E9, run)
    lean_lemmas(run)
    fails += tier_b(run, run.tier == 'thorough')
    bds = []
    try:
        from contracts import C07_c
        bds = C07_c.tier_c(run, run.tier == 'thorough')
    except ImportError:
        run.notes.append('bounded tier (contracts/C07_c.py) not present')
    report_a_failures(run, fails, bds)
    run.explanation = ('engine A: leave-one-group-out dataflow of both ceiling routines for all inputs; Lean: pooled direction maximises the '
                       'mean cosine; bounded tier: pooling formula, optimality for rho-a by enumeration, lower <= upper')


def replay(path):
    return replay_file(path)
