"""C18 -- simulated data reproduce the generating model's RDM."""
import z3

from vf.pyvc.values import V, SV, Obj, SeqV, CaseV, ArrV, DictV, Undecided, fresh_name
from vf.pyvc.api import FuncCheck
from contracts.common import new_engine, finish_engine
from contracts._wrap import z3_lemma, finish, replay  # noqa

LEVEL = 'exploration'
SIM = 'rsatoolbox.simulation.sim.'


def check_design(run, E):
    """make_design: cond_vec[t] = t mod n_cond, part_vec[t] = t div n_cond for t < n_cond*n_part (all sizes)"""
    ck = FuncCheck(E, run, 'C18', SIM + 'make_design', '')

    def mk(E):
        nc, npart = E.sym_int('n_cond'), E.sym_int('n_part')
        return [nc, npart], {}, [nc.z >= 1, npart.z >= 1]

    def post(ck, E, args, kw, p):
        nc, npart = args[0].z, args[1].z
        cond, part = p.value
        ok = isinstance(cond, SeqV) and isinstance(part, SeqV)
        ck.ensure('post/vectors', z3.BoolVal(ok))
        if not ok:
            return
        ck.ensure('post/length-is-n_cond-times-n_part', z3.And(cond.zlen() == nc * npart, part.zlen() == nc * npart))
        t = z3.Int(fresh_name('t'))
        E.pc.append(z3.And(t >= 0, t < nc * npart))
        p.pc = list(E.pc)
        q, r = z3.Int(fresh_name('q')), z3.Int(fresh_name('r'))
        E.pc.append(z3.And(t == q * nc + r, r >= 0, r < nc))
        p.pc = list(E.pc)
        ck.ensure_eq('post/condition-of-observation-t-is-t-mod-n_cond', E.seq_elem(cond, t), SV(r, 'int'))
        ck.ensure_eq('post/partition-of-observation-t-is-t-div-n_cond', E.seq_elem(part, t), SV(q, 'int'))
    ck.execute(mk, post=post, allow_raise=lambda *a: None)
    yield ck


def lemmas(run):
    """over the make_design contract: every (partition, condition) pair occurs at exactly one observation"""
    nc, npart, p_, c_, t, t2 = z3.Ints('nc npart p c t t2')
    f = []
    f.append(z3_lemma(run, 'C18/lemma/every-condition-once-per-partition/exists',
                      z3.Implies(z3.And(nc >= 1, npart >= 1, 0 <= p_, p_ < npart, 0 <= c_, c_ < nc),
                                 z3.And(p_ * nc + c_ >= 0, p_ * nc + c_ < nc * npart)),
                      doc='observation t = p*n_cond + c exists for every partition p and condition c'))
    q1, r1, q2, r2 = z3.Ints('q1 r1 q2 r2')
    f.append(z3_lemma(run, 'C18/lemma/every-condition-once-per-partition/unique',
                      z3.Implies(z3.And(nc >= 1, t == q1 * nc + r1, 0 <= r1, r1 < nc, t2 == q2 * nc + r2, 0 <= r2, r2 < nc,
                                        q1 == q2, r1 == r2), t == t2),
                      doc='two observations with equal (t div n_cond, t mod n_cond) are the same observation'))
    return f


def run(run):
    fails = lemmas(run)
    E = new_engine(run)
    for ck in check_design(run, E):
        fails += ck.failed
    finish_engine(E, run)
    # callee contract of the round trip (calc_rdm groups the simulated observations by get_unique_inverse)
    from contracts.common import discharge_unique_inverse
    fails += discharge_unique_inverse(run, 'C18')
    finish(run, fails, 'C18')
    run.explanation = ('engine A + z3 lemma: design vectors for all sizes; the numerical claim (exact signal reproduces the model RDM) '
                       'depends on LDL / Cholesky / norm.ppf and random draws and is decided by the bounded tier only')
