"""C01 -- RDM estimators equal their formula on condition means, correctly labelled."""
import itertools

import numpy as np
import z3

from vf.pyvc.values import V, SV, Obj, SeqV, CaseV, ArrV, DictV, Undecided, fresh_name
from vf.pyvc.api import FuncCheck
from contracts.common import new_engine, finish_engine
from contracts._wrap import finish, replay  # noqa
from contracts.C04 import peel

LEVEL = 'other'
CALC = 'rsatoolbox.rdm.calc.'


def engine(run):
    E = new_engine(run)
    for fn in ('calc_rdm_euclidean', 'calc_rdm_correlation', 'calc_rdm_mahalanobis', 'calc_rdm_crossnobis', 'calc_rdm_poisson',
               'calc_rdm_poisson_cv', 'calc_rdm', 'calc_rdm_movie'):
        E.func_ret[CALC + fn] = 'RDMs'
    E.func_ret['rsatoolbox.rdm.combine.from_partials'] = 'RDMs'
    E.func_ret['rsatoolbox.rdm.rdms.concat'] = 'RDMs'

    def sort_by(E, self, reindex=True, **kw):
        self.fields['__sorted_by__'] = DictV(kw)
        return None
    E.methods[('RDMs', 'sort_by')] = sort_by
    return E


def check_list(run, E):
    """list-of-datasets branch: RDM i is calc_rdm(dataset[i]) with the SAME options (every one of them) and noise /
    noise[i]; combined by from_partials(descriptor) or concat"""
    for noise_case in ('none', 'matrix', 'list'):
        for desc_case in ('given', 'none'):
            ck = FuncCheck(E, run, 'C01', CALC + 'calc_rdm', f'list,noise={noise_case},descriptor={desc_case}')

            def mk(E, noise_case=noise_case, desc_case=desc_case):
                ds = E.sym_list('datasets', 'Dataset')
                if noise_case == 'none':
                    noise = None
                elif noise_case == 'matrix':
                    noise = E.sym_val('noise', tag='ndarray')
                    noise.shape = (z3.Int('p'), z3.Int('p'))
                else:
                    noise = E.sym_list('noises')
                kw = dict(method=E.sym_val('method', tag='scalar'),
                          descriptor=E.sym_val('descriptor', tag='scalar') if desc_case == 'given' else None,
                          noise=noise, cv_descriptor=E.sym_val('cv_descriptor'), prior_lambda=E.sym_val('prior_lambda'),
                          prior_weight=E.sym_val('prior_weight'), remove_mean=E.sym_val('remove_mean'))
                return [ds], kw, ([noise.zlen() == ds.zlen()] if noise_case == 'list' else [])

            def post(ck, E, args, kw, p, noise_case=noise_case, desc_case=desc_case):
                ds = args[0]
                res = p.value
                comb = 'rsatoolbox.rdm.combine.from_partials' if desc_case == 'given' else 'rsatoolbox.rdm.rdms.concat'
                a = peel(res, comb)
                ck.ensure(f'post/combined-by-{comb.rsplit(".", 1)[-1]}', z3.BoolVal(a is not None), structure=True)
                if a is None:
                    return
                lst = a[0]
                if isinstance(lst, tuple) and len(lst) == 1:
                    lst = lst[0]            # concat(*rdms) called with one list argument
                if desc_case == 'given':
                    fv = E.find_function(comb)
                    names = [x.arg for x in fv.node.args.args]
                    ck.ensure_eq('post/partials-aligned-by-the-condition-descriptor', dict(zip(names, a))['descriptor'], kw['descriptor'])
                ok = isinstance(lst, SeqV)
                ck.ensure('post/one-rdm-per-dataset', z3.BoolVal(ok) if not ok else lst.zlen() == ds.zlen())
                if not ok:
                    return
                i = z3.Int(fresh_name('d'))
                E.pc.append(z3.And(i >= 0, i < ds.zlen()))
                p.pc = list(E.pc)
                noise_i = None if noise_case == 'none' else (kw['noise'] if noise_case == 'matrix' else E.seq_elem(kw['noise'], i))
                fv = E.find_function(CALC + 'calc_rdm')
                bound = E.bind_args(fv.node, [E.seq_elem(ds, i)], dict(kw, noise=noise_i), module=fv.module)
                want = E.app(CALC + 'calc_rdm', [bound[q] for q in bound], 'obj', cls='RDMs')
                ck.ensure_eq('post/rdm-i-is-the-single-dataset-result-with-every-option-forwarded', E.seq_elem(lst, i), want)
            ck.execute(mk, post=post, allow_raise=lambda *a: None)
            yield ck


def check_movie(run, E):
    """calc_rdm_movie.  List branch: movie i is calc_rdm_movie(dataset[i]) with EVERY option forwarded (noise / noise[i]).
    Single dataset: the data are (optionally binned, then) split by the time descriptor; frame t is calc_rdm /
    calc_rdm_unbalanced of part t turned into a flat dataset (time_as_observations) with every estimator option forwarded; the
    frames are stacked by concat, labelled with the time values and the method name"""
    stores = []

    def dd_set(E, d, key, val):
        stores.append((d, key, val))
    E.methods[('DescDict', '__setitem__')] = dd_set
    E.schemas.setdefault('TemporalDataset', {'time_descriptors': 'obj:DescDict'})
    E.func_ret['rsatoolbox.rdm.calc_unbalanced.calc_rdm_unbalanced'] = 'RDMs'
    opts = ('method', 'descriptor', 'noise', 'cv_descriptor', 'prior_lambda', 'prior_weight')

    def common_kw(E, noise, bins, unb):
        return dict(method=E.sym_val('method', tag='scalar'), descriptor=E.sym_val('descriptor', tag='scalar'), noise=noise,
                    cv_descriptor=E.sym_val('cv_descriptor'), prior_lambda=E.sym_val('prior_lambda'),
                    prior_weight=E.sym_val('prior_weight'), time_descriptor=E.sym_val('time_descriptor', tag='scalar'),
                    bins=bins, unbalanced=unb)
    for noise_case in ('none', 'matrix', 'list'):
        ck = FuncCheck(E, run, 'C01', CALC + 'calc_rdm_movie', f'list,noise={noise_case}')

        def mk(E, noise_case=noise_case):
            ds = E.sym_list('datasets', 'TemporalDataset')
            if noise_case == 'none':
                noise = None
            elif noise_case == 'matrix':
                noise = E.sym_val('noise', tag='ndarray')
                noise.shape = (z3.Int('p'), z3.Int('p'))
            else:
                noise = E.sym_list('noises')
            kw = common_kw(E, noise, E.sym_val('bins'), E.sym_val('unbalanced'))
            return [ds], kw, ([noise.zlen() == ds.zlen()] if noise_case == 'list' else [])

        def post(ck, E, args, kw, p, noise_case=noise_case):
            ds = args[0]
            a = peel(p.value, 'rsatoolbox.rdm.rdms.concat')
            ck.ensure('post/movies-stacked-by-concat', z3.BoolVal(a is not None), structure=True)
            if a is None:
                return
            lst = a[0][0] if isinstance(a[0], tuple) and len(a[0]) == 1 else a[0]
            ok = isinstance(lst, SeqV)
            ck.ensure('post/one-movie-per-dataset', z3.BoolVal(ok) if not ok else lst.zlen() == ds.zlen())
            if not ok:
                return
            i = z3.Int(fresh_name('d'))
            E.pc.append(z3.And(i >= 0, i < ds.zlen()))
            p.pc = list(E.pc)
            noise_i = None if noise_case == 'none' else (kw['noise'] if noise_case == 'matrix' else E.seq_elem(kw['noise'], i))
            fv = E.find_function(CALC + 'calc_rdm_movie')
            bound = E.bind_args(fv.node, [E.seq_elem(ds, i)], dict(kw, noise=noise_i), module=fv.module)
            want = E.app(CALC + 'calc_rdm_movie', [bound[q] for q in bound], 'obj', cls='RDMs')
            ck.ensure_eq('post/movie-i-is-the-single-dataset-movie-with-every-option-forwarded', E.seq_elem(lst, i), want)
        ck.execute(mk, post=post, allow_raise=lambda *a: None)
        yield ck
    for bins_case in ('none', 'given'):
        for unb in (False, True):
            ck = FuncCheck(E, run, 'C01', CALC + 'calc_rdm_movie', f'single,bins={bins_case},unbalanced={unb}')

            def mk(E, bins_case=bins_case, unb=unb):
                del stores[:]
                noise = E.sym_val('noise', tag='ndarray')
                kw = common_kw(E, noise, E.sym_val('bins', tag='list') if bins_case == 'given' else None, unb)
                return [E.sym_obj('dataset', 'TemporalDataset')], kw, []

            def post(ck, E, args, kw, p, bins_case=bins_case, unb=unb):
                dataset = args[0]
                td = kw['time_descriptor']
                res = p.value
                a = peel(res, 'rsatoolbox.rdm.rdms.concat')
                ck.ensure('post/frames-stacked-by-concat', z3.BoolVal(a is not None), structure=True)
                if a is None:
                    return
                lst = a[0][0] if isinstance(a[0], tuple) and len(a[0]) == 1 else a[0]
                ok = isinstance(lst, SeqV)
                ck.ensure('post/frames-are-a-list', z3.BoolVal(ok), structure=True)
                if not ok:
                    return
                src = dataset if bins_case == 'none' else E.call_method(dataset, 'bin_time', [td, kw['bins']], {})
                parts = E.call_method(src, 'split_time', [td], {})
                ck.ensure('post/one-frame-per-time-part', lst.zlen() == E.as_int(E.seq_len(parts)))
                t = z3.Int(fresh_name('frame'))
                in_t = z3.And(t >= 0, t < lst.zlen())
                part = E.app('getitem', [parts, SV(t, 'int')])
                flat = E.call_method(part, 'time_as_observations', [td], {})
                fn = 'rsatoolbox.rdm.calc_unbalanced.calc_rdm_unbalanced' if unb else CALC + 'calc_rdm'
                fv = E.find_function(fn)
                bound = E.bind_args(fv.node, [flat], {k: kw[k] for k in opts}, module=fv.module)
                want = E.app(fn, [bound[q] for q in bound], 'obj', cls='RDMs')
                ck.ensure('post/frame-t-is-the-rdm-of-time-part-t-with-every-estimator-option-forwarded',
                          z3.Implies(in_t, E.veq(E.seq_elem(lst, t), want)))
                want_time = E.getitem(E.getattr(src, 'time_descriptors'), td)
                hit = [v for (d, key, v) in stores if d is res.fields.get('rdm_descriptors') and E.toV(key).eq(E.toV(td))]
                ck.ensure('post/frames-are-labelled-with-the-time-values', z3.BoolVal(len(hit) == 1) if len(hit) != 1 else
                          E.veq(hit[0], want_time))
                ck.ensure_eq('post/measure-name-is-the-method', res.fields.get('dissimilarity_measure'), kw['method'])
            ck.execute(mk, post=post, allow_raise=lambda *a: None)
            yield ck


SINGLE = {
    'euclidean': ('calc_rdm_euclidean', ['dataset', 'descriptor', 'remove_mean']),
    'correlation': ('calc_rdm_correlation', ['dataset', 'descriptor']),
    'mahalanobis': ('calc_rdm_mahalanobis', ['dataset', 'descriptor', 'noise', 'remove_mean']),
    'poisson': ('calc_rdm_poisson', ['dataset', 'descriptor', 'prior_lambda', 'prior_weight']),
}


def check_single(run, E, pid='C01'):
    """single dataset: dispatch by method name with the options that method has; conditions re-sorted alphabetically
    (values and labels together: RDMs.sort_by) exactly when a condition descriptor is given"""
    for method, (fn, opts) in SINGLE.items():
        for desc_case in ('given', 'none'):
            ck = FuncCheck(E, run, pid, CALC + 'calc_rdm', f'single,method={method},descriptor={desc_case}')

            def mk(E, method=method, desc_case=desc_case):
                kw = dict(method=method, descriptor='cond' if desc_case == 'given' else None,
                          noise=E.sym_val('noise', tag='ndarray'), cv_descriptor=E.sym_val('cv_descriptor'),
                          prior_lambda=E.sym_val('prior_lambda'), prior_weight=E.sym_val('prior_weight'),
                          remove_mean=E.sym_val('remove_mean'))
                return [E.sym_obj('dataset', 'Dataset')], kw, []

            def post(ck, E, args, kw, p, fn=fn, opts=opts, desc_case=desc_case):
                res = p.value
                fv = E.find_function(CALC + fn)
                vals = dict(kw, dataset=args[0])
                bound = E.bind_args(fv.node, [], {k: vals[k] for k in opts}, module=fv.module)
                want = E.app(CALC + fn, [bound[q] for q in bound], 'obj', cls='RDMs')
                ck.ensure_eq('post/dispatch-with-the-methods-options', res, want)
                srt = res.fields.get('__sorted_by__') if isinstance(res, Obj) else None
                if desc_case == 'given':
                    ck.ensure('post/conditions-sorted-alphabetically-by-the-descriptor',
                              z3.BoolVal(isinstance(srt, DictV) and srt.d == {'cond': 'alpha'}))
                else:
                    ck.ensure('post/no-reordering-without-descriptor', z3.BoolVal(srt is None))
            ck.execute(mk, post=post, allow_raise=lambda *a: None)
            yield ck
    ck = FuncCheck(E, run, pid, CALC + 'calc_rdm', 'single,method=unknown')
    ck.execute(lambda E: ([E.sym_obj('dataset', 'Dataset')], dict(method='no-such-method'), []), post=None,
               allow_raise=lambda E, a, k, p: z3.BoolVal(p.exc.exc_name == 'NotImplementedError'))
    if not any(p.outcome == 'raise' for p in getattr(ck, 'paths', [])):
        run.obligation(ck.name('post/unknown-method-is-rejected'), 'refuted', 'z3', 0.0, detail='an unknown method name does not raise')
        ck.failed.append((ck.name('post/unknown-method-is-rejected'), 'post', None))
    yield ck


# =====================================================================================================
# engine B: the four formulas on symbolic data (all real values; bounded designs)
# =====================================================================================================
MODS = ['rsatoolbox.rdm.calc', 'rsatoolbox.data.computations', 'rsatoolbox.data.dataset', 'rsatoolbox.data.base',
        'rsatoolbox.util.rdm_utils', 'rsatoolbox.util.build_rdm', 'rsatoolbox.util.data_utils', 'rsatoolbox.rdm.rdms',
        'rsatoolbox.util.descriptor_utils']


def tier_b(run, thorough):
    import sympy as sp
    from vf.symrun.core import symarray, patched_np, identical, OVERRIDES_USED
    from rsatoolbox.data import Dataset
    import importlib
    calc = importlib.import_module('rsatoolbox.rdm.calc')
    designs = [([0, 1], 2), ([0, 1, 0], 2), ([1, 0, 1, 2], 2), ([2, 0, 1], 3)] + ([([0, 1, 2, 0, 1, 2, 2], 2), ([1, 1, 0, 0, 0], 3)] if thorough else [])
    fails = []
    n_eval = 0
    distinct = set()

    def means(X, labels, order):
        return [sum([X[t] for t in range(len(labels)) if labels[t] == c][1:],
                    [X[t] for t in range(len(labels)) if labels[t] == c][0]) / sp.Integer(labels.count(c)) for c in order]

    for labels, P in designs:
        for ltype in ('int', 'str'):
            lab = labels if ltype == 'int' else [['b', 'c', 'a'][k] for k in labels]
            order = sorted(set(lab))           # calc_rdm sorts the conditions alphabetically when a descriptor is given
            X = symarray('x', (len(lab), P))
            L = symarray('l', (P, P))
            N = np.dot(L, L.T)
            lam0, w = sp.Symbol('lam0', positive=True), sp.Symbol('w', positive=True)
            for remove_mean in (False, True):
                ds = Dataset(X.copy(), obs_descriptors={'cond': list(lab)})
                mu = means(X, list(lab), order)
                cen = (lambda v: v - sum(v[1:], v[0]) / sp.Integer(len(v))) if remove_mean else (lambda v: v)
                spec = {}
                spec['euclidean'] = [np.dot(cen(a) - cen(b), cen(a) - cen(b)) / sp.Integer(P) for a, b in itertools.combinations(mu, 2)]
                spec['mahalanobis'] = [np.dot(np.dot(cen(a) - cen(b), N), cen(a) - cen(b)) / sp.Integer(P)
                                       for a, b in itertools.combinations(mu, 2)]
                if not remove_mean:
                    c2 = lambda v: v - sum(v[1:], v[0]) / sp.Integer(len(v))
                    spec['correlation'] = [1 - np.dot(c2(a), c2(b)) / (sp.sqrt(np.dot(c2(a), c2(a))) * sp.sqrt(np.dot(c2(b), c2(b))))
                                           for a, b in itertools.combinations(mu, 2)]
                    reg = lambda v: (v + lam0 * w) / (1 + w)
                    lg = lambda v: np.array([sp.log(e) for e in v], dtype=object)
                    spec['poisson'] = [np.dot(reg(a) - reg(b), lg(reg(a)) - lg(reg(b))) / sp.Integer(P)
                                       for a, b in itertools.combinations(mu, 2)]
                for method, want in spec.items():
                    kw = dict(noise=N) if method == 'mahalanobis' else {}
                    if method == 'poisson':
                        kw = dict(prior_lambda=lam0, prior_weight=w)
                    if method in ('euclidean', 'mahalanobis'):
                        kw['remove_mean'] = remove_mean
                    nm = f'C01/calc_rdm_{method}/B/formula-on-condition-means[labels={lab},P={P},remove_mean={remove_mean}]'
                    try:
                        with patched_np(MODS):
                            r = calc.calc_rdm(ds, method=method, descriptor='cond', **kw)
                    except Exception as e:     # the function left the symbolic domain: undecided here, the bounded tier decides
                        run.obligation(nm, 'unknown', 'sympy-normal-form', 0.0, detail=f'symbolic execution failed: {type(e).__name__}: {e}')
                        continue
                    got = r.dissimilarities[0]
                    labs = list(r.pattern_descriptors['cond'])
                    ok, idx, diff = identical(got, np.array(want, dtype=object))
                    ok = ok and labs == order
                    n_eval += 1
                    distinct.add(nm)
                    run.obligation(nm, 'proved' if ok else 'refuted', 'sympy-normal-form', 0.0,
                                   detail=f'{method}: value of every label pair equals the formula on the two condition means / P; labels {order}'
                                   if ok else f'labels {labs} (expected {order}); differs at {idx}: {str(diff)[:200]}')
                    if not ok:
                        fails.append((nm, method, dict(labels=lab, P=P, remove_mean=remove_mean, index=str(idx), difference=str(diff)[:300])))
    for o in sorted(OVERRIDES_USED):
        run.trust('engine B proxy override: ' + o)
    run.bounded_check('C01/B/formulas', 'B', 'ALL REAL data values; label sequences %s (int and str labels), remove_mean on/off, symbolic '
                      'precision LL^T and symbolic poisson prior' % [d[0] for d in designs], n_eval, len(distinct), exhaustive=False, failures=len(fails))
    return fails


def run(run):
    E = engine(run)
    fails = []
    for gen in (check_list, check_single, check_movie):
        for ck in gen(run, E):
            fails += ck.failed
    finish_engine(E, run)
    # callee contract: conditions are grouped by get_unique_inverse (labels in order of first appearance, every observation under
    # its own label) -- discharged on the real function
    from contracts.common import discharge_unique_inverse
    fails += discharge_unique_inverse(run, 'C01')
    fails += tier_b(run, run.tier == 'thorough')
    finish(run, fails, 'C01')
    run.explanation = ('engine A: option / noise plumbing of calc_rdm (list vs single, every option forwarded, dispatch, alphabetical '
                       're-sort) for all inputs; engine B: the four formulas on symbolic data at small designs (all real values); bounded '
                       'tier: literal pair-loop oracle, invariances, movies, multi-step sequences')
