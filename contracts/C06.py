"""C06 -- reported uncertainties and p-values are coherent with the evaluations."""
import z3

from vf.pyvc.values import V, SV, Obj, SeqV, CaseV, ArrV, DictV, Undecided, fresh_name
from vf.pyvc.api import FuncCheck
from contracts.common import new_engine, finish_engine
from contracts._wrap import z3_lemma, finish, replay  # noqa

LEVEL = 'other'
IU = 'rsatoolbox.util.inference_util.'


def check_dual(run, E):
    """_dual_bootstrap on one entry (np.maximum/minimum are element-wise): for ALL real variances and all n > 1 the
    combination never exceeds the two-factor variance nor falls below a (corrected) single-factor variance that is
    itself below it"""
    for case in ('uncorrected', 'n_rdm-only', 'corrected'):
        ck = FuncCheck(E, run, 'C06', IU + '_dual_bootstrap', case)

        def mk(E, case=case):
            v = [SV(z3.Real(f'v{k}'), 'real') for k in range(3)]
            nr = E.sym_int('n_rdm') if case != 'uncorrected' else None
            npat = E.sym_int('n_pattern') if case == 'corrected' else None
            assume = [x.z >= 0 for x in v] + [x.z > 1 for x in (nr, npat) if x is not None]
            return [SeqV(items=v, kind='array')], dict(n_rdm=nr, n_pattern=npat), assume

        def post(ck, E, args, kw, p, case=case):
            v0, v1, v2 = (x.z for x in args[0].items)
            res = E.as_real(p.value)
            if case == 'corrected':
                nr, npat = z3.ToReal(kw['n_rdm'].z), z3.ToReal(kw['n_pattern'].z)
                a, b = nr / (nr - 1) * v1, npat / (npat - 1) * v2
            else:
                a, b = v1, v2
            ck.ensure('post/never-above-the-two-factor-variance', res <= v0)
            ck.ensure('post/not-below-a-single-factor-variance-that-is-below-the-two-factor-one',
                      z3.And(z3.Implies(a <= v0, res >= a), z3.Implies(b <= v0, res >= b)))
            ck.ensure('post/non-negative', res >= 0)
        ck.execute(mk, post=post, allow_raise=lambda *a: None)
        yield ck


def check_correct_1d(run, E):
    for case in ('both', 'pattern', 'rdm', 'none'):
        ck = FuncCheck(E, run, 'C06', IU + '_correct_1d', case)

        def mk(E, case=case):
            v = SV(z3.Real('variance'), 'real')
            npat = E.sym_int('n_pattern') if case in ('both', 'pattern') else None
            nr = E.sym_int('n_rdm') if case in ('both', 'rdm') else None
            return [v], dict(n_pattern=npat, n_rdm=nr), [x.z > 1 for x in (npat, nr) if x is not None]

        def post(ck, E, args, kw, p, case=case):
            v = args[0].z
            res = E.as_real(p.value)
            if case == 'none':
                ck.ensure('post/unchanged-without-counts', res == v)
                return
            if case == 'both':
                n = z3.If(kw['n_rdm'].z < kw['n_pattern'].z, kw['n_rdm'].z, kw['n_pattern'].z)
            else:
                n = (kw['n_pattern'] or kw['n_rdm']).z
            ck.ensure('post/factor-n-over-n-minus-1', res * z3.ToReal(n - 1) == z3.ToReal(n) * v)
        ck.execute(mk, post=post, allow_raise=lambda *a: None)
        yield ck


def lemmas(run):
    f = []
    # t-test wrappers over the assumed contract of scipy.stats.t.cdf (monotone, range [0,1], cdf(0)=1/2):
    cdf = z3.Function('tcdf', z3.RealSort(), z3.RealSort())
    x, y = z3.Reals('x y')
    ax = [z3.ForAll([x, y], z3.Implies(x <= y, cdf(x) <= cdf(y))), z3.ForAll([x], z3.And(cdf(x) >= 0, cdf(x) <= 1)),
          cdf(0) == z3.RealVal(1) / 2]
    t1, t2 = z3.Reals('t1 t2')
    ab = lambda v: z3.If(v < 0, -v, v)
    p2 = lambda t: 2 * (1 - cdf(ab(t)))
    f.append(z3_lemma(run, 'C06/lemma/two-sided-p-in-unit-interval', z3.And(p2(t1) >= 0, p2(t1) <= 1), assumptions=ax,
                      doc='p = 2(1 - cdf(|t|)) lies in [0,1] (cdf monotone with cdf(0) = 1/2)'))
    f.append(z3_lemma(run, 'C06/lemma/two-sided-p-monotone-in-effect', z3.Implies(ab(t1) <= ab(t2), p2(t1) >= p2(t2)), assumptions=ax,
                      doc='a larger |t| (larger effect at equal variance and dof) never yields a larger p-value'))
    f.append(z3_lemma(run, 'C06/lemma/two-sided-p-symmetric-and-unit-diagonal', z3.And(p2(t1) == p2(-t1), p2(0) == 1), assumptions=ax,
                      doc='p(t) = p(-t): the pairwise matrix is symmetric; t = 0 on the diagonal gives p = 1'))
    # bootstrap pair test: p = ((N-1)/N) * 2*min(q, 1-q) + 1/N  with q in [0,1], N >= 1
    qq, N = z3.Reals('q N')
    mn = z3.If(qq <= 1 - qq, qq, 1 - qq)
    pb = (N - 1) / N * 2 * mn + 1 / N
    f.append(z3_lemma(run, 'C06/lemma/bootstrap-pair-p-in-[1/N,1]',
                      z3.Implies(z3.And(N >= 1, qq >= 0, qq <= 1), z3.And(pb >= 1 / N, pb <= 1)),
                      doc='the tie-corrected two-sided bootstrap proportion lies in [1/N, 1]'))
    return f


def tier_b(run, thorough):
    """engine B: the real extract_variances (with the real pairwise_contrast and _correct_1d) on SYMBOLIC variance vectors /
    covariance matrices: for all real entries, per-model variance = diagonal, pair (i<j) variance = var_i + var_j - 2 cov_ij in
    pairwise_contrast order, model-vs-ceiling variance = var_i + var_nc - 2 cov_{i,nc}, each times n/(n-1) (n the smaller count)"""
    import itertools
    import numpy as np
    import sympy as sp
    from vf.symrun.core import symarray, patched_np, identical, OVERRIDES_USED, guard
    import rsatoolbox.util.inference_util as iu
    fails = []
    n_eval = 0
    sizes = (2, 3, 4, 5) if thorough else (2, 3, 4)
    for m in sizes:
        for nc in (True, False):
            for kind in ('vector', 'matrix'):
                for counts in ((None, None), (7, None), (None, 5), (7, 5), (4, 9)):
                    tag = f'[{kind},models={m},nc_included={nc},n_rdm={counts[0]},n_pattern={counts[1]}]'
                    nm = f'C06/extract_variances/B/contrasts-of-the-stored-covariance{tag}'
                    with guard(run, nm):
                        k = m + (2 if nc else 0)
                        if kind == 'vector':
                            var = symarray('v', k)
                            cov = np.diag(var)
                        else:
                            low = symarray('c', (k, k))
                            cov = np.array([[low[max(a, b), min(a, b)] for b in range(k)] for a in range(k)], dtype=object)
                            var = cov
                        with patched_np(['rsatoolbox.util.inference_util', 'rsatoolbox.util.matrix']):
                            mv, dv, ncv = iu.extract_variances(var.copy(), nc, n_rdm=counts[0], n_pattern=counts[1])
                        ns = [c for c in counts if c is not None]
                        fac = sp.Rational(min(ns), min(ns) - 1) if ns else sp.Integer(1)
                        want_m = np.array([fac * cov[a, a] for a in range(m)], dtype=object)
                        pairs = list(itertools.combinations(range(m), 2))
                        want_d = np.array([fac * (cov[a, a] + cov[b, b] - 2 * cov[a, b]) for a, b in pairs], dtype=object)
                        if nc:
                            want_n = np.array([[fac * (cov[a, a] + cov[m + q, m + q] - 2 * cov[a, m + q]) for q in (0, 1)]
                                               for a in range(m)], dtype=object)
                        else:
                            want_n = np.array([[fac * cov[a, a]] * 2 for a in range(m)], dtype=object)
                        bad = None
                        for what, got, want in (('model variances', mv, want_m), ('pairwise-difference variances', dv, want_d),
                                                ('model-vs-ceiling variances', ncv, want_n)):
                            ok, idx, diff = identical(np.asarray(got, dtype=object), want)
                            if not ok:
                                bad = f'{what}: differs at {idx}: {str(diff)[:200]}'
                                break
                        n_eval += 1
                        run.obligation(nm, 'proved' if bad is None else 'refuted', 'sympy-normal-form', 0.0,
                                       detail=bad or 'diag / var_i+var_j-2cov_ij / var_i+var_nc-2cov_i,nc times n/(n-1), all real entries')
                        if bad:
                            fails.append((nm, 'extract_variances', dict(case=tag, what=bad)))
    for o in sorted(OVERRIDES_USED):
        run.trust('engine B proxy override: ' + o)
    run.bounded_check('C06/B/contrasts', 'B', 'ALL REAL (co)variance entries; %s models, with / without ceiling columns, vector / symmetric '
                      'matrix input, 5 count settings' % (sizes,), n_eval, n_eval, exhaustive=False, failures=len(fails))
    return fails


def run(run):
    E = new_engine(run)
    fails = lemmas(run)
    for gen in (check_dual, check_correct_1d):
        for ck in gen(run, E):
            fails += ck.failed
    finish_engine(E, run)
    for nm, fn, detail in tier_b(run, run.tier == 'thorough'):
        run.violation(nm, 'all-real-entries', dict(obligation=nm, detail=detail), found_input=False,
                      what='engine-B identity refuted: ' + str(detail.get('what'))[:200])
    run.trust('scipy.stats.t.cdf: monotone, range [0,1], cdf(0)=1/2 (assumed contract of the dependency)')
    finish(run, fails, 'C06')
    run.explanation = ('engine A + z3 NRA: dual-bootstrap bounds and 1-D correction factor on the real code for all real variances and '
                       'counts; lemma layer: p-value range / symmetry / monotonicity over the assumed t cdf; bounded tier: classical t '
                       'identities, contrasts, NaN-aware means, rank-sum and bootstrap tests, equivariance')
