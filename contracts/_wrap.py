"""helpers shared by the per-property contract files: z3 lemma layer and the standard run() skeleton"""
import importlib
import time

import z3

from vf.pyvc import solve
from vf.rt.harness import replay_file
from contracts.common import report_a_failures


def z3_lemma(run, name, claim, assumptions=(), limit_s=30, doc=''):
    """prove a closed z3 formula (lemma layer L).  `claim` must be valid under `assumptions`."""
    t0 = time.time()
    st, model, dt, backend = solve.decide(list(assumptions) + [z3.Not(claim)], limit_s=limit_s)
    run.obligation(name, st if st in ('proved', 'refuted') else 'unknown', backend, dt, detail=doc or str(claim)[:300])
    if st == 'refuted':
        return (name, 'lemma', dict(model=str(model)[:800]))
    return None


def bounded_tier(run, pid):
    try:
        mod = importlib.import_module(f'contracts.{pid}_c')
    except ImportError:
        run.notes.append(f'bounded tier (contracts/{pid}_c.py) not present')
        return []
    return mod.tier_c(run, run.tier == 'thorough')


def finish(run, fails, pid):
    bds = bounded_tier(run, pid)
    report_a_failures(run, [f for f in fails if f], bds)


def replay(path):
    return replay_file(path)
